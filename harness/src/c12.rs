//! C12 — matrix views and partitions.  See lean/Driver/C12.lean for the protocol.
//!
//! A composition is kept as a recipe (leaf size + adaptor list) and as a live
//! `Box<dyn MatrixMut<u64>>`; operations that need the leaf afterwards (writes followed by a scan
//! of the matrix) rebuild the recipe over a leaked leaf and reclaim it after the view is gone.

use crate::c16::{bset, MDyn};
use crate::util::*;
use easy_ml::differentiation::RecordMatrix;
use easy_ml::interop::{MatrixRefTensor, TensorRefMatrix};
use easy_ml::matrices::views::{
    IndexRange, MatrixMut, MatrixPart, MatrixRange, MatrixRef, MatrixReverse, MatrixView, Reverse,
};
use easy_ml::matrices::Matrix;
use easy_ml::tensors::indexing::{TensorAccess, TensorTranspose};
use easy_ml::tensors::views::TensorView;
use easy_ml::tensors::Tensor;

const SENTINEL: u64 = 999_999_999;
const MAX: usize = usize::MAX;

#[derive(Clone, Debug)]
enum Op {
    Range((usize, usize), (usize, usize), String),
    Reverse(bool, bool, String),
    Roundtrip(Option<(&'static str, &'static str)>),
    /// the transposed view through the tensor side (`TensorAccess` / `TensorTranspose` in the
    /// order column, row between the two wrappers)
    Swap(String),
}

fn ids(n: usize) -> Vec<u64> {
    (0..n as u64).collect()
}

/// Applies one adaptor to a boxed view over elements of type `T`.
fn apply<T: 'static>(m: Box<dyn MatrixMut<T>>, op: &Op) -> Result<Box<dyn MatrixMut<T>>, String> {
    Ok(match op {
        Op::Range(r, c, via) => match via.as_str() {
            "tuple" => Box::new(MatrixRange::from(m, *r, *c)),
            "array" => Box::new(MatrixRange::from(m, [r.0, r.1], [c.0, c.1])),
            "range" => Box::new(MatrixRange::from(m, r.0..(r.0 + r.1), c.0..(c.0 + c.1))),
            "view" => Box::new(
                MatrixView::from(m).range_owned(IndexRange::new(r.0, r.1), IndexRange::new(c.0, c.1)).source(),
            ),
            _ => Box::new(MatrixRange::from(m, IndexRange::new(r.0, r.1), IndexRange::new(c.0, c.1))),
        },
        Op::Reverse(r, c, via) => {
            let reverse = Reverse { rows: *r, columns: *c };
            match via.as_str() {
                "view" => Box::new(MatrixView::from(m).reverse_owned(reverse).source()),
                _ => Box::new(MatrixReverse::from(m, reverse)),
            }
        }
        Op::Roundtrip(None) => {
            // try on a reference first: with_names consumes its source
            if let Err(e) = TensorRefMatrix::from(&m) {
                return Err(format!("err {}", show_shape(&e.shape())));
            }
            let t = TensorRefMatrix::from(m).ok().unwrap();
            Box::new(MatrixRefTensor::from(t))
        }
        Op::Roundtrip(Some((n1, n2))) => {
            if let Err(e) = TensorRefMatrix::with_names(&m, [*n1, *n2]) {
                return Err(format!("err {}", show_shape(&e.shape())));
            }
            let t = TensorRefMatrix::with_names(m, [*n1, *n2]).ok().unwrap();
            Box::new(MatrixRefTensor::from(t))
        }
        Op::Swap(via) => {
            if let Err(e) = TensorRefMatrix::from(&m) {
                return Err(format!("err {}", show_shape(&e.shape())));
            }
            let t = TensorRefMatrix::from(m).ok().unwrap();
            match via.as_str() {
                "transpose" => Box::new(MatrixRefTensor::from(TensorTranspose::from(t, ["column", "row"]))),
                "try_from" => Box::new(MatrixRefTensor::from(
                    TensorAccess::try_from(t, ["column", "row"]).ok().expect("the names of the wrapper"),
                )),
                _ => Box::new(MatrixRefTensor::from(TensorAccess::from(t, ["column", "row"]))),
            }
        }
    })
}

fn build<T: 'static>(leaf: Box<dyn MatrixMut<T>>, ops: &[Op]) -> Box<dyn MatrixMut<T>> {
    let mut v = leaf;
    for op in ops {
        v = apply(v, op).expect("recipe was accepted before");
    }
    v
}

fn show_opt(v: Option<u64>) -> String {
    match v {
        Some(x) => format!("some({})", x),
        None => "none".into(),
    }
}

fn show_ids(v: &[u64]) -> String {
    if v.is_empty() {
        "-".into()
    } else {
        v.iter().map(|x| x.to_string()).collect::<Vec<_>>().join(",")
    }
}

fn changed(before: &[u64], after: &[u64]) -> String {
    let ch: Vec<String> =
        (0..before.len()).filter(|&i| before[i] != after[i]).map(|i| i.to_string()).collect();
    if ch.is_empty() {
        "none".into()
    } else {
        format!("changed={}", ch.join(","))
    }
}


// ---------------------------------------------------------------------------------------------
// consumers of a view (producer → consumer): operators, iterator flavours, Display, the tensor
// side, determinant — over the same stack rebuilt with `i64` elements
// ---------------------------------------------------------------------------------------------

type IDyn = Box<dyn MatrixMut<i64>>;

fn show_ints(v: &[i64]) -> String {
    if v.is_empty() {
        "-".into()
    } else {
        v.iter().map(|x| x.to_string()).collect::<Vec<_>>().join(",")
    }
}

fn show_grid(m: &Matrix<i64>) -> String {
    let v: Vec<i64> = m.row_major_iter().collect();
    format!("{}x{}:{}", m.rows(), m.columns(), show_ints(&v))
}

fn consume(v: &mut IDyn, kind: &str, via: &str) -> String {
    let (rows, cols) = (v.view_rows(), v.view_columns());
    let copy: Matrix<i64> = MatrixView::from(&*v).map(|x| x);
    let place = |pairs: Vec<((usize, usize), i64)>| -> Vec<i64> {
        let mut rm = vec![i64::MIN; rows * cols];
        for ((r, c), x) in pairs {
            assert!(r < rows && c < cols, "iterator index outside the view");
            rm[r * cols + c] = x;
        }
        rm
    };
    match kind {
        "add" => show_grid(&match via {
            "view_matrix" => &MatrixView::from(&*v) + &copy,
            "matrix_view" => &copy + &MatrixView::from(&*v),
            "owned" => MatrixView::from(&*v) + MatrixView::from(&*v),
            "owned_ref" => MatrixView::from(&*v) + &MatrixView::from(&copy),
            _ => &MatrixView::from(&*v) + &MatrixView::from(&*v),
        }),
        "sub" => {
            let index = Matrix::from_flat_row_major((rows, cols), (0..(rows * cols) as i64).collect());
            show_grid(&match via {
                "view_matrix" => &MatrixView::from(&*v) - &index,
                "matrix_view" => -(&index - &MatrixView::from(&*v)),
                "owned" => MatrixView::from(&*v) - MatrixView::from(&index),
                _ => &MatrixView::from(&*v) - &MatrixView::from(&index),
            })
        }
        "mul" => {
            let t = copy.transpose();
            show_grid(&match via {
                "view_matrix" => &MatrixView::from(&*v) * &t,
                "owned" => MatrixView::from(&*v) * MatrixView::from(&t),
                _ => &MatrixView::from(&*v) * &MatrixView::from(&t),
            })
        }
        "tmul" => {
            let t = copy.transpose();
            show_grid(&match via {
                "matrix_view" => &t * &MatrixView::from(&*v),
                "owned" => MatrixView::from(&t) * MatrixView::from(&*v),
                _ => &MatrixView::from(&t) * &MatrixView::from(&*v),
            })
        }
        "neg" => show_grid(&match via {
            "owned" => -MatrixView::from(&*v),
            _ => -&MatrixView::from(&*v),
        }),
        "scalar" => {
            let three = 3i64;
            let m = match via {
                "ref_val" => &MatrixView::from(&*v) * 3,
                "val_ref" => MatrixView::from(&*v) * &three,
                "val_val" => MatrixView::from(&*v) * 3,
                _ => &MatrixView::from(&*v) * &three,
            };
            show_grid(&(m + 1))
        }
        "diag" => {
            let d: Vec<i64> = match via {
                "reference" => MatrixView::from(&*v).diagonal_reference_iter().copied().collect(),
                "reference_mut" => MatrixView::from(&mut *v).diagonal_reference_mut_iter().map(|x| *x).collect(),
                _ => MatrixView::from(&*v).diagonal_iter().collect(),
            };
            format!("{}:{}", d.len(), show_ints(&d))
        }
        "det" => {
            let d: Option<i64> = match via {
                "map" => easy_ml::linear_algebra::determinant::<i64>(&copy),
                "tensor_method" => TensorView::from(TensorRefMatrix::from(&*v).ok().expect("non-empty")).determinant(),
                _ => easy_ml::linear_algebra::determinant_tensor::<i64, _, _>(TensorView::from(
                    TensorRefMatrix::from(&*v).ok().expect("non-empty"),
                )),
            };
            match d {
                Some(x) => format!("some({})", x),
                None => "none".into(),
            }
        }
        "iter" => {
            let out: Vec<i64> = match via {
                "column_major_reference" => place(
                    MatrixView::from(&*v).column_major_reference_iter().with_index().map(|(i, x)| (i, *x)).collect(),
                ),
                "column_major_with_index" => place(MatrixView::from(&*v).column_major_iter().with_index().collect()),
                "with_index" => place(MatrixView::from(&*v).row_major_iter().with_index().collect()),
                "reference_with_index" => place(
                    MatrixView::from(&*v).row_major_reference_iter().with_index().map(|(i, x)| (i, *x)).collect(),
                ),
                "row_reference" => {
                    let view = MatrixView::from(&*v);
                    (0..rows).flat_map(|r| view.row_reference_iter(r).copied().collect::<Vec<_>>()).collect()
                }
                "column_reference" => {
                    let view = MatrixView::from(&*v);
                    let mut pairs = vec![];
                    for c in 0..cols {
                        for (r, x) in view.column_reference_iter(c).enumerate() {
                            pairs.push(((r, c), *x));
                        }
                    }
                    place(pairs)
                }
                "reference_mut" => MatrixView::from(&mut *v).row_major_reference_mut_iter().map(|x| *x).collect(),
                "reference_mut_with_index" => place(
                    MatrixView::from(&mut *v).row_major_reference_mut_iter().with_index().map(|(i, x)| (i, *x)).collect(),
                ),
                "column_major_reference_mut" => place(
                    MatrixView::from(&mut *v)
                        .column_major_reference_mut_iter()
                        .with_index()
                        .map(|(i, x)| (i, *x))
                        .collect(),
                ),
                "row_reference_mut" => {
                    let mut view = MatrixView::from(&mut *v);
                    let mut out = vec![];
                    for r in 0..rows {
                        out.extend(view.row_reference_mut_iter(r).map(|x| *x));
                    }
                    out
                }
                "column_reference_mut" => {
                    let mut view = MatrixView::from(&mut *v);
                    let mut pairs = vec![];
                    for c in 0..cols {
                        for (r, x) in view.column_reference_mut_iter(c).enumerate() {
                            pairs.push(((r, c), *x));
                        }
                    }
                    place(pairs)
                }
                "display_view" => format!("{}", MatrixView::from(&*v))
                    .replace(['[', ']'], " ")
                    .split([',', '\n'])
                    .map(|t| t.trim())
                    .filter(|t| !t.is_empty())
                    .map(|t| t.parse::<i64>().expect("number"))
                    .collect(),
                "tensor_iter" => TensorView::from(TensorRefMatrix::from(&*v).ok().expect("non-empty")).iter().collect(),
                "tensor_index_by" => TensorView::from(TensorRefMatrix::from(&*v).ok().expect("non-empty"))
                    .index_by(["row", "column"])
                    .iter()
                    .collect(),
                "tensor_map" => TensorView::from(TensorRefMatrix::from(&*v).ok().expect("non-empty"))
                    .map(|x| x)
                    .iter()
                    .collect(),
                "tensor_transposed" => {
                    // the tensor side's own transposition, read back in (column, row) order
                    let t = TensorView::from(TensorRefMatrix::from(&*v).ok().expect("non-empty"))
                        .transpose(["column", "row"]);
                    let mut pairs = vec![];
                    for (k, x) in t.iter().enumerate() {
                        pairs.push(((k % rows, k / rows), x));
                    }
                    place(pairs)
                }
                _ => MatrixView::from(&*v).row_major_iter().collect(),
            };
            format!("{}x{}:{}", rows, cols, show_ints(&out))
        }
        _ => "bad-op".into(),
    }
}

// ---------------------------------------------------------------------------------------------
// views whose source is changed after construction
// ---------------------------------------------------------------------------------------------

/// An object from which `source_ref_mut()` (repeated) reaches the `Matrix` at the bottom.
trait LiveNode: MatrixMut<u64> {
    fn matrix_mut(&mut self) -> &mut Matrix<u64>;
    fn matrix_ref(&self) -> &Matrix<u64>;
    /// `source_ref()` k times, then the checked getter (`None`: no such inner object)
    fn get_at(&self, k: usize, r: usize, c: usize) -> Option<Option<u64>>;
}

impl LiveNode for Matrix<u64> {
    fn matrix_mut(&mut self) -> &mut Matrix<u64> {
        self
    }
    fn matrix_ref(&self) -> &Matrix<u64> {
        self
    }
    fn get_at(&self, k: usize, r: usize, c: usize) -> Option<Option<u64>> {
        if k == 0 { Some(MatrixRef::try_get_reference(self, r, c).copied()) } else { None }
    }
}

impl LiveNode for &'static mut Matrix<u64> {
    fn matrix_mut(&mut self) -> &mut Matrix<u64> {
        &mut **self
    }
    fn matrix_ref(&self) -> &Matrix<u64> {
        &**self
    }
    fn get_at(&self, k: usize, r: usize, c: usize) -> Option<Option<u64>> {
        if k == 0 { Some(MatrixRef::try_get_reference(self, r, c).copied()) } else { None }
    }
}

impl LiveNode for Box<Matrix<u64>> {
    fn matrix_mut(&mut self) -> &mut Matrix<u64> {
        &mut **self
    }
    fn matrix_ref(&self) -> &Matrix<u64> {
        &**self
    }
    fn get_at(&self, k: usize, r: usize, c: usize) -> Option<Option<u64>> {
        if k == 0 { Some(MatrixRef::try_get_reference(self, r, c).copied()) } else { None }
    }
}

impl<S: LiveNode> LiveNode for MatrixReverse<u64, S> {
    fn matrix_mut(&mut self) -> &mut Matrix<u64> {
        self.source_ref_mut().matrix_mut()
    }
    fn matrix_ref(&self) -> &Matrix<u64> {
        self.source_ref().matrix_ref()
    }
    fn get_at(&self, k: usize, r: usize, c: usize) -> Option<Option<u64>> {
        if k == 0 {
            Some(self.try_get_reference(r, c).copied())
        } else {
            self.source_ref().get_at(k - 1, r, c)
        }
    }
}

type R1<S> = MatrixReverse<u64, S>;

/// zero to three `MatrixReverse`s around a source of type `S`
enum Chain<S> {
    D0(S),
    D1(R1<S>),
    D2(R1<R1<S>>),
    D3(R1<R1<R1<S>>>),
}

impl<S: LiveNode> Chain<S> {
    fn wrap(self, reverse: Reverse) -> Chain<S> {
        match self {
            Chain::D0(s) => Chain::D1(MatrixReverse::from(s, reverse)),
            Chain::D1(s) => Chain::D2(MatrixReverse::from(s, reverse)),
            Chain::D2(s) => Chain::D3(MatrixReverse::from(s, reverse)),
            Chain::D3(_) => panic!("unsupported depth"),
        }
    }
    fn unwrap(self) -> Chain<S> {
        match self {
            Chain::D0(_) => panic!("nothing to unwrap"),
            Chain::D1(s) => Chain::D0(s.source()),
            Chain::D2(s) => Chain::D1(s.source()),
            Chain::D3(s) => Chain::D2(s.source()),
        }
    }
}

enum AnyLive {
    Owned(Chain<Matrix<u64>>),
    MutRef(Chain<&'static mut Matrix<u64>>),
    Boxed(Chain<Box<Matrix<u64>>>),
}

macro_rules! with_chain {
    ($chain:expr, $n:ident => $body:expr) => {
        match $chain {
            Chain::D0($n) => $body,
            Chain::D1($n) => $body,
            Chain::D2($n) => $body,
            Chain::D3($n) => $body,
        }
    };
}

macro_rules! with_node {
    ($any:expr, $n:ident => $body:expr) => {
        match $any {
            AnyLive::Owned(ch) => with_chain!(ch, $n => $body),
            AnyLive::MutRef(ch) => with_chain!(ch, $n => $body),
            AnyLive::Boxed(ch) => with_chain!(ch, $n => $body),
        }
    };
}

impl AnyLive {
    fn map_chain(self, wrap: Option<Reverse>) -> AnyLive {
        match (self, wrap) {
            (AnyLive::Owned(c), Some(r)) => AnyLive::Owned(c.wrap(r)),
            (AnyLive::MutRef(c), Some(r)) => AnyLive::MutRef(c.wrap(r)),
            (AnyLive::Boxed(c), Some(r)) => AnyLive::Boxed(c.wrap(r)),
            (AnyLive::Owned(c), None) => AnyLive::Owned(c.unwrap()),
            (AnyLive::MutRef(c), None) => AnyLive::MutRef(c.unwrap()),
            (AnyLive::Boxed(c), None) => AnyLive::Boxed(c.unwrap()),
        }
    }
}

fn live_size<N: LiveNode>(n: &N) -> String {
    format!("size={}x{}", n.view_rows(), n.view_columns())
}

fn live_step<N: LiveNode>(n: &mut N, toks: &[&str], via: &str) -> String {
    match toks[0] {
        "src" => {
            // `source_ref_mut()` … down to the matrix (optionally entering through a MatrixView)
            let r = if via == "view" {
                let mut view = MatrixView::from(&mut *n);
                crate::c11::apply(view.source_ref_mut().matrix_mut(), &toks[1..])
            } else {
                crate::c11::apply(n.matrix_mut(), &toks[1..])
            };
            match r {
                None => "bad-op".into(),
                Some(Ok(())) => format!("ok {}", live_size(n)),
                Some(Err(k)) => format!("{} {}", panic_str(k), live_size(n)),
            }
        }
        "lget" | "luget" => {
            let (r, c): (usize, usize) = (toks[1].parse().unwrap(), toks[2].parse().unwrap());
            let unchecked = toks[0] == "luget";
            let res = catch(|| {
                if unchecked {
                    Some(unsafe {
                        if via == "unchecked_mut" {
                            *n.get_reference_unchecked_mut(r, c)
                        } else {
                            *n.get_reference_unchecked(r, c)
                        }
                    })
                } else {
                    match via {
                        "mut" => n.try_get_reference_mut(r, c).map(|x| *x),
                        "view" => MatrixView::from(&*n).try_get_reference(r, c).copied(),
                        "view_mut" => MatrixView::from(&mut *n).try_get_reference_mut(r, c).map(|x| *x),
                        _ => n.try_get_reference(r, c).copied(),
                    }
                }
            });
            answer(res, |o| if unchecked { o.unwrap().to_string() } else { show_opt(o) })
        }
        "lscan" => {
            let (rows, cols) = (n.view_rows(), n.view_columns());
            let res = catch(|| -> Vec<u64> {
                let view = MatrixView::from(&*n);
                match via {
                    "reference" => view.row_major_reference_iter().copied().collect(),
                    "index" => {
                        let mut out = vec![];
                        for r in 0..rows {
                            for c in 0..cols {
                                out.push(view.get(r, c));
                            }
                        }
                        out
                    }
                    _ => view.row_major_iter().collect(),
                }
            });
            answer(res, |v| format!("{}x{}:{}", rows, cols, show_ids(&v)))
        }
        "lset" => {
            let (r, c): (usize, usize) = (toks[1].parse().unwrap(), toks[2].parse().unwrap());
            let before: Vec<u64> = n.matrix_ref().row_major_iter().collect();
            let res = catch(|| match via {
                "unchecked" => unsafe {
                    // only emitted for indexes inside the view
                    *n.get_reference_unchecked_mut(r, c) = SENTINEL;
                },
                "view" => {
                    if let Some(x) = MatrixView::from(&mut *n).try_get_reference_mut(r, c) {
                        *x = SENTINEL;
                    }
                }
                _ => {
                    if let Some(x) = n.try_get_reference_mut(r, c) {
                        *x = SENTINEL;
                    }
                }
            });
            let after: Vec<u64> = n.matrix_ref().row_major_iter().collect();
            // put the old elements back: the model does not record this write
            let cols = n.matrix_ref().columns();
            for (i, (b, a)) in before.iter().zip(after.iter()).enumerate() {
                if b != a {
                    n.matrix_mut().set(i / cols, i % cols, *b);
                }
            }
            answer(res, |_| changed(&before, &after))
        }
        "srcget" => {
            let k: usize = toks[1].parse().unwrap();
            let (r, c): (usize, usize) = (toks[2].parse().unwrap(), toks[3].parse().unwrap());
            match catch(|| n.get_at(k, r, c)) {
                Ok(Some(o)) => show_opt(o),
                Ok(None) => "bad-op".into(),
                Err(k) => panic_str(k),
            }
        }
        _ => "bad-op".into(),
    }
}

fn new_live(rows: usize, cols: usize, flags: &[(bool, bool)], src: &str) -> AnyLive {
    let m = Matrix::from_flat_row_major((rows, cols), (1..=(rows * cols) as u64).collect());
    let mut any = match src {
        "mut" => AnyLive::MutRef(Chain::D0(Box::leak(Box::new(m)))),
        "boxed" => AnyLive::Boxed(Chain::D0(Box::new(m))),
        _ => AnyLive::Owned(Chain::D0(m)),
    };
    for (r, c) in flags {
        any = any.map_chain(Some(Reverse { rows: *r, columns: *c }));
    }
    any
}


// ---------------------------------------------------------------------------------------------
// the current view: a bare matrix, a mutable composition, or a read-only one (built through a
// constructor that borrows its receiver: `Matrix::range(&self)`, `MatrixView::reverse(&self)`, …)
// ---------------------------------------------------------------------------------------------

pub type RDyn = Box<dyn MatrixRef<u64>>;

thread_local! {
    static QUAD_DISPLAY: std::cell::RefCell<Option<String>> = std::cell::RefCell::new(None);
}

enum Cur {
    Leaf(Matrix<u64>),
    Mut(MDyn),
    Ref(RDyn),
}

/// run `$body` with `$m: &S` for the concrete `S: MatrixRef<u64>` of the current view
macro_rules! with_cur_ref {
    ($cur:expr, $m:ident => $body:expr) => {
        match $cur {
            Cur::Leaf($m) => $body,
            Cur::Mut($m) => $body,
            Cur::Ref($m) => $body,
        }
    };
}

/// run `$body` with `$m: &mut S`, `S: MatrixMut<u64>`; `$fallback` for a read-only view
macro_rules! with_cur_mut {
    ($cur:expr, $m:ident => $body:expr, else $fallback:expr) => {
        match $cur {
            Cur::Leaf($m) => $body,
            Cur::Mut($m) => $body,
            Cur::Ref(_) => $fallback,
        }
    };
}

#[derive(Clone, Copy, PartialEq)]
enum LeafKind {
    RowMajor,
    /// a 2-dimensional tensor with the given shape seen as a matrix through `MatrixRefTensor`,
    /// directly or (swapped) through a `TensorAccess` in the order second name, first name
    /// third field: the tensor was transposed in place (`Tensor::transpose_mut`) after it was filled
    Tensor([(&'static str, usize); 2], bool, bool),
    /// the `MatrixPart` at grid position (kr, kc) of `Matrix::partition(rp, cp)` of a row-major
    /// matrix of the leaf size (the matrix itself is leaked: the part borrows it)
    Part(&'static [usize], &'static [usize], usize, usize),
}

/// the part at grid position (kr, kc) of a partition of `*m`
fn part_of<T: 'static>(m: &'static mut Matrix<T>, rp: &[usize], cp: &[usize], kr: usize, kc: usize) -> Box<dyn MatrixMut<T>> {
    let k = kr * (cp.len() + 1) + kc;
    let part = m.partition(rp, cp).into_iter().nth(k).expect("part index");
    Box::new(part.source())
}

/// the tensor a tensor-backed leaf is made of: filled in the given shape, then (producer →
/// consumer) optionally transposed in place, which keeps the names and exchanges the lengths
fn prepared_tensor<T: Clone + 'static>(shape: [(&'static str, usize); 2], data: Vec<T>, transposed: bool) -> Tensor<T, 2> {
    let mut t = Tensor::from(shape, data);
    if transposed {
        t.transpose_mut([shape[1].0, shape[0].0]);
    }
    t
}

/// a column-major source: `MatrixRefTensor` over a `TensorAccess` in (row, column) order of a
/// tensor stored in (column, row) order
fn cm_leaf<T: Clone + 'static>(size: (usize, usize), data: Vec<T>) -> Box<dyn MatrixMut<T>> {
    make_leaf(LeafKind::Tensor([("c", size.1), ("r", size.0)], true, false), size, data)
}

fn make_leaf<T: Clone + 'static>(kind: LeafKind, size: (usize, usize), data: Vec<T>) -> Box<dyn MatrixMut<T>> {
    match kind {
        LeafKind::RowMajor => Box::new(Matrix::from_flat_row_major(size, data)),
        LeafKind::Tensor(shape, false, tr) => Box::new(MatrixRefTensor::from(prepared_tensor(shape, data, tr))),
        LeafKind::Tensor(shape, true, tr) => {
            let t = prepared_tensor(shape, data, tr);
            Box::new(MatrixRefTensor::from(TensorAccess::from(t, [shape[1].0, shape[0].0])))
        }
        LeafKind::Part(rp, cp, kr, kc) => {
            let m: &'static mut Matrix<T> = Box::leak(Box::new(Matrix::from_flat_row_major(size, data)));
            part_of(m, rp, cp, kr, kc)
        }
    }
}

/// the element a leaf stores at offset `k`
fn fill_data(fill: &str, n: usize) -> Vec<u64> {
    (0..n as u64)
        .map(|k| match fill {
            "zero" => 0,
            "const" => 7,
            "parity" => k % 2,
            _ => k,
        })
        .collect()
}

fn parse_range_pair(s: &str) -> (usize, usize) {
    let (a, b) = s.split_once(':').unwrap();
    (a.parse().unwrap(), b.parse().unwrap())
}

/// the adaptor constructors on a bare `Matrix` receiver (`Matrix::range*`, `Matrix::reverse*`)
fn apply_leaf(m: Matrix<u64>, op: &Op) -> Result<Cur, String> {
    let ir = |p: (usize, usize)| IndexRange::new(p.0, p.1);
    Ok(match op {
        Op::Range(r, c, via) => match via.as_str() {
            "matrix_range_owned" => Cur::Mut(Box::new(m.range_owned(ir(*r), ir(*c)).source())),
            "matrix_range_mut" => {
                let m: &'static mut Matrix<u64> = Box::leak(Box::new(m));
                Cur::Mut(Box::new(m.range_mut(ir(*r), ir(*c)).source()))
            }
            "matrix_range" => {
                let m: &'static Matrix<u64> = Box::leak(Box::new(m));
                Cur::Ref(Box::new(m.range(ir(*r), ir(*c)).source()))
            }
            _ => return apply_mut(Box::new(m), op),
        },
        Op::Reverse(r, c, via) => {
            let reverse = Reverse { rows: *r, columns: *c };
            match via.as_str() {
                "matrix_reverse_owned" => Cur::Mut(Box::new(m.reverse_owned(reverse).source())),
                "matrix_reverse_mut" => {
                    let m: &'static mut Matrix<u64> = Box::leak(Box::new(m));
                    Cur::Mut(Box::new(m.reverse_mut(reverse).source()))
                }
                "matrix_reverse" => {
                    let m: &'static Matrix<u64> = Box::leak(Box::new(m));
                    Cur::Ref(Box::new(m.reverse(reverse).source()))
                }
                _ => return apply_mut(Box::new(m), op),
            }
        }
        Op::Roundtrip(_) | Op::Swap(_) => return apply_mut(Box::new(m), op),
    })
}

/// … on a mutable composition (`MatrixView::range_mut`, `MatrixView::reverse(&self)`, … besides
/// the constructors of the adaptors themselves)
fn apply_mut(m: MDyn, op: &Op) -> Result<Cur, String> {
    let ir = |p: (usize, usize)| IndexRange::new(p.0, p.1);
    Ok(match op {
        Op::Range(r, c, via) => match via.as_str() {
            "view_range_mut" => {
                let v: &'static mut MatrixView<u64, MDyn> = Box::leak(Box::new(MatrixView::from(m)));
                Cur::Mut(Box::new(v.range_mut(ir(*r), ir(*c)).source()))
            }
            "view_range" => {
                let v: &'static MatrixView<u64, MDyn> = Box::leak(Box::new(MatrixView::from(m)));
                Cur::Ref(Box::new(v.range(ir(*r), ir(*c)).source()))
            }
            _ => Cur::Mut(apply(m, op)?),
        },
        Op::Reverse(r, c, via) => {
            let reverse = Reverse { rows: *r, columns: *c };
            match via.as_str() {
                "view_reverse_mut" => {
                    let v: &'static mut MatrixView<u64, MDyn> = Box::leak(Box::new(MatrixView::from(m)));
                    Cur::Mut(Box::new(v.reverse_mut(reverse).source()))
                }
                "view_reverse" => {
                    let v: &'static MatrixView<u64, MDyn> = Box::leak(Box::new(MatrixView::from(m)));
                    Cur::Ref(Box::new(v.reverse(reverse).source()))
                }
                _ => Cur::Mut(apply(m, op)?),
            }
        }
        Op::Roundtrip(_) | Op::Swap(_) => Cur::Mut(apply(m, op)?),
    })
}

/// … on a read-only composition (`Box<dyn MatrixRef>`)
fn apply_ref(m: RDyn, op: &Op) -> Result<Cur, String> {
    let ir = |p: (usize, usize)| IndexRange::new(p.0, p.1);
    Ok(Cur::Ref(match op {
        Op::Range(r, c, via) => match via.as_str() {
            "view_range" => {
                let v: &'static MatrixView<u64, RDyn> = Box::leak(Box::new(MatrixView::from(m)));
                Box::new(v.range(ir(*r), ir(*c)).source())
            }
            "view" => Box::new(MatrixView::from(m).range_owned(ir(*r), ir(*c)).source()),
            _ => Box::new(MatrixRange::from(m, ir(*r), ir(*c))),
        },
        Op::Reverse(r, c, via) => {
            let reverse = Reverse { rows: *r, columns: *c };
            match via.as_str() {
                "view_reverse" => {
                    let v: &'static MatrixView<u64, RDyn> = Box::leak(Box::new(MatrixView::from(m)));
                    Box::new(v.reverse(reverse).source())
                }
                "view" => Box::new(MatrixView::from(m).reverse_owned(reverse).source()),
                _ => Box::new(MatrixReverse::from(m, reverse)),
            }
        }
        Op::Roundtrip(None) => {
            if let Err(e) = TensorRefMatrix::from(&m) {
                return Err(format!("err {}", show_shape(&e.shape())));
            }
            Box::new(MatrixRefTensor::from(TensorRefMatrix::from(m).ok().unwrap()))
        }
        Op::Roundtrip(Some((n1, n2))) => {
            if let Err(e) = TensorRefMatrix::with_names(&m, [*n1, *n2]) {
                return Err(format!("err {}", show_shape(&e.shape())));
            }
            Box::new(MatrixRefTensor::from(TensorRefMatrix::with_names(m, [*n1, *n2]).ok().unwrap()))
        }
        Op::Swap(via) => {
            if let Err(e) = TensorRefMatrix::from(&m) {
                return Err(format!("err {}", show_shape(&e.shape())));
            }
            let t = TensorRefMatrix::from(m).ok().unwrap();
            match via.as_str() {
                "transpose" => Box::new(MatrixRefTensor::from(TensorTranspose::from(t, ["column", "row"]))),
                "try_from" => Box::new(MatrixRefTensor::from(
                    TensorAccess::try_from(t, ["column", "row"]).ok().expect("the names of the wrapper"),
                )),
                _ => Box::new(MatrixRefTensor::from(TensorAccess::from(t, ["column", "row"]))),
            }
        }
    }))
}

fn layout_str(l: easy_ml::matrices::views::DataLayout) -> &'static str {
    match l {
        easy_ml::matrices::views::DataLayout::RowMajor => "row_major",
        easy_ml::matrices::views::DataLayout::ColumnMajor => "column_major",
        easy_ml::matrices::views::DataLayout::Other => "other",
    }
}

/// `==` between the current view (or a copy of its elements in the requested layout) and a
/// modified copy, through the three `PartialEq` impls
fn equality<S: MatrixRef<u64>>(m: &S, kind: &str, lhs: &str, rhs: &str, via: &str) -> bool {
    let (rows, cols) = (m.view_rows(), m.view_columns());
    let cells: Vec<u64> = MatrixView::from(m).row_major_iter().collect();
    // the right operand's elements in row-major order and its size
    let (rr, rc, right): (usize, usize, Vec<u64>) = match kind {
        "rows" => (rows + 1, cols, cells.iter().cloned().chain(std::iter::repeat(0).take(cols)).collect()),
        "cols" => (
            rows,
            cols + 1,
            (0..rows).flat_map(|i| cells[i * cols..(i + 1) * cols].iter().cloned().chain(std::iter::once(0))).collect(),
        ),
        k if k.starts_with("cell:") => {
            let k: usize = k[5..].parse().unwrap();
            let mut v = cells.clone();
            if k < v.len() {
                v[k] += 1;
            }
            (rows, cols, v)
        }
        _ => (rows, cols, cells.clone()),
    };
    // column-major storage of a row-major list
    let to_cm = |r: usize, c: usize, v: &[u64]| -> Vec<u64> {
        let mut out = vec![0; v.len()];
        for i in 0..r {
            for j in 0..c {
                out[j * r + i] = v[i * c + j];
            }
        }
        out
    };
    let right_matrix = Matrix::from_flat_row_major((rr, rc), right.clone());
    // column-major operands are owned by their MatrixView (no reference layer in between)
    let right_cm = || MatrixView::from(cm_leaf((rr, rc), to_cm(rr, rc, &right)));
    let left_matrix = Matrix::from_flat_row_major((rows, cols), cells.clone());
    let left_cm = || MatrixView::from(cm_leaf((rows, cols), to_cm(rows, cols, &cells)));
    match (lhs, rhs, via) {
        ("self", "rm", "view_matrix") => MatrixView::from(m) == right_matrix,
        ("self", "rm", "matrix_view") => right_matrix == MatrixView::from(m),
        ("self", "rm", _) => MatrixView::from(m) == MatrixView::from(&right_matrix),
        ("self", _, _) => MatrixView::from(m) == right_cm(),
        ("rm", "rm", "view_matrix") => MatrixView::from(&left_matrix) == right_matrix,
        ("rm", "rm", "matrix_view") => left_matrix == MatrixView::from(&right_matrix),
        ("rm", "rm", _) => MatrixView::from(&left_matrix) == MatrixView::from(&right_matrix),
        ("rm", _, "matrix_view") => left_matrix == right_cm(),
        ("rm", _, _) => MatrixView::from(left_matrix.clone()) == right_cm(),
        (_, "rm", "view_matrix") => left_cm() == right_matrix,
        (_, "rm", _) => left_cm() == MatrixView::from(right_matrix.clone()),
        (_, _, _) => left_cm() == right_cm(),
    }
}

/// every way of reading the whole view in row-major order
fn scan_view<S: MatrixRef<u64>>(m: &S, via: &str) -> Option<Vec<u64>> {
    let (rows, cols) = (m.view_rows(), m.view_columns());
    let view = MatrixView::from(m);
    Some(match via {
        "column_major" => {
            let cm: Vec<u64> = view.column_major_iter().collect();
            let mut rm = vec![0; cm.len()];
            for (k, x) in cm.iter().enumerate() {
                let (c, r) = (k / rows.max(1), k % rows.max(1));
                rm[r * cols + c] = *x;
            }
            rm
        }
        "reference" => view.row_major_reference_iter().copied().collect(),
        // row_iter / column_iter require a first element (C09's business)
        "rows" if cols > 0 => (0..rows).flat_map(|r| view.row_iter(r).collect::<Vec<_>>()).collect(),
        "columns" if rows > 0 && cols > 0 => {
            let mut rm = vec![0; rows * cols];
            for c in 0..cols {
                for (r, x) in view.column_iter(c).enumerate() {
                    rm[r * cols + c] = x;
                }
            }
            rm
        }
        "index" => {
            let mut out = vec![];
            for r in 0..rows {
                for c in 0..cols {
                    out.push(view.get(r, c));
                }
            }
            out
        }
        "get_reference" => {
            let mut out = vec![];
            for r in 0..rows {
                for c in 0..cols {
                    out.push(*view.get_reference(r, c));
                }
            }
            out
        }
        // the allocating transformations need at least one element
        "transpose" if rows > 0 && cols > 0 => {
            let t = view.transpose();
            assert_eq!(t.size(), (cols, rows), "transpose size");
            t.column_major_iter().collect()
        }
        "map" if rows > 0 && cols > 0 => view.map(|x| x + 1).row_major_iter().map(|x| x - 1).collect(),
        "map_with_index" if rows > 0 && cols > 0 => {
            let mapped = view.map_with_index(|x, i, j| (x, i, j));
            assert_eq!(mapped.size(), (rows, cols), "map_with_index size");
            mapped
                .row_major_iter()
                .enumerate()
                .map(|(k, (x, i, j))| {
                    assert_eq!((i, j), (k / cols, k % cols), "map_with_index index");
                    x
                })
                .collect()
        }
        "rows" | "columns" | "transpose" | "map" | "map_with_index" | "row_major" | "" => view.row_major_iter().collect(),
        _ => return None,
    })
}

pub struct Runner {
    cur: Option<Cur>,
    leaf_kind: LeafKind,
    fill: String,
    quad_display: Option<String>,
    live: Option<AnyLive>,
    leaf: (usize, usize),
    ops: Vec<Op>,
    mapped: bool,
    parts: Vec<MatrixView<u64, MatrixPart<'static, u64>>>,
    part_matrix: *mut Matrix<u64>,
    partition_args: Option<(usize, usize, Vec<usize>, Vec<usize>, String)>,
}

fn answer<T>(r: Result<T, PanicKind>, f: impl FnOnce(T) -> String) -> String {
    match r {
        Ok(v) => f(v),
        Err(k) => panic_str(k),
    }
}

impl Runner {
    pub fn new() -> Runner {
        Runner {
            cur: None,
            leaf_kind: LeafKind::RowMajor,
            fill: "id".to_string(),
            quad_display: None,
            live: None,
            leaf: (0, 0),
            ops: vec![],
            mapped: false,
            parts: vec![],
            part_matrix: std::ptr::null_mut(),
            partition_args: None,
        }
    }

    fn drop_parts(&mut self) {
        self.parts.clear();
        if !self.part_matrix.is_null() {
            // the parts (the only borrowers) are gone: reclaim the leaked matrix
            unsafe { drop(Box::from_raw(self.part_matrix)) };
            self.part_matrix = std::ptr::null_mut();
        }
    }

    fn make_parts(&mut self) -> Result<(), PanicKind> {
        self.drop_parts();
        let (r, c, rp, cp, via) = self.partition_args.clone().unwrap();
        let ptr: *mut Matrix<u64> = Box::into_raw(Box::new(Matrix::from_flat_row_major((r, c), ids(r * c))));
        self.part_matrix = ptr;
        let m: &'static mut Matrix<u64> = unsafe { &mut *ptr };
        let res = catch(move || match via.as_str() {
            "quadrants" if rp.len() == 1 && cp.len() == 1 => {
                let q = m.partition_quadrants(rp[0], cp[0]);
                // Display for MatrixQuadrants
                QUAD_DISPLAY.with(|d| *d.borrow_mut() = Some(format!("{}", q)));
                vec![q.top_left, q.top_right, q.bottom_left, q.bottom_right]
            }
            _ => m.partition(&rp, &cp),
        });
        match res {
            Ok(parts) => {
                self.parts = parts;
                Ok(())
            }
            Err(k) => {
                self.drop_parts();
                Err(k)
            }
        }
    }

    pub fn step(&mut self, toks: &[&str]) -> String {
        if toks.is_empty() {
            return "bad-op".into();
        }
        let via = opt_arg("via", toks).unwrap_or("").to_string();
        if toks[0] == "@" {
            self.cur = None;
            self.quad_display = None;
            self.ops.clear();
            self.mapped = false;
            self.drop_parts();
            self.partition_args = None;
            QUAD_DISPLAY.with(|d| *d.borrow_mut() = None);
            self.live = None;
            return match toks[1] {
                "live" => {
                    let (r, c): (usize, usize) = (toks[2].parse().unwrap(), toks[3].parse().unwrap());
                    let flags: Vec<(bool, bool)> = split_comma(toks[4])
                        .iter()
                        .map(|p| {
                            let (a, b) = p.split_once(':').unwrap();
                            (a == "1", b == "1")
                        })
                        .collect();
                    let src = opt_arg("src", toks).unwrap_or("owned");
                    let mut any = new_live(r, c, &flags, src);
                    let s = with_node!(&mut any, n => live_size(n));
                    self.live = Some(any);
                    format!("ok {}", s)
                }
                "matrix" | "cmatrix" | "tmatrix" => {
                    self.fill = opt_arg("fill", toks).unwrap_or("id").to_string();
                    if toks[1] == "tmatrix" {
                        let shape = parse_shape(toks[2]);
                        let tshape = [shape[0], shape[1]];
                        let swapped = opt_arg("order", toks) == Some("swapped");
                        let transposed = opt_arg("prep", toks) == Some("transpose_mut");
                        let (l1, l2) = (tshape[0].1, tshape[1].1);
                        // the lengths of the tensor as the views see it
                        let (t1, t2) = if transposed { (l2, l1) } else { (l1, l2) };
                        self.leaf = if swapped { (t2, t1) } else { (t1, t2) };
                        self.leaf_kind = LeafKind::Tensor(tshape, swapped, transposed);
                        let data = fill_data(&self.fill, l1 * l2);
                        let res = catch(|| -> MDyn {
                            match via.as_str() {
                                // tensor → matrix conversions (row-major order is kept)
                                "into_matrix" if !swapped => Box::new(prepared_tensor(tshape, data, transposed).into_matrix()),
                                "matrix_from" if !swapped => {
                                    let m: Matrix<u64> = prepared_tensor(tshape, data, transposed).into();
                                    Box::new(m)
                                }
                                // matrix → tensor conversion, then the wrapper
                                "from_matrix" if !swapped && !transposed => Box::new(MatrixRefTensor::from(
                                    Matrix::from_flat_row_major((l1, l2), data)
                                        .into_tensor(tshape[0].0, tshape[1].0)
                                        .expect("distinct names"),
                                )),
                                "index_by" if swapped => Box::new(MatrixRefTensor::from(
                                    prepared_tensor(tshape, data, transposed).index_by_owned([tshape[1].0, tshape[0].0]),
                                )),
                                _ => make_leaf(LeafKind::Tensor(tshape, swapped, transposed), (0, 0), data),
                            }
                        });
                        return answer(res, |m| {
                            let s = format!("ok size={}x{}", m.view_rows(), m.view_columns());
                            self.cur = Some(Cur::Mut(m));
                            s
                        });
                    }
                    let (r, c): (usize, usize) = (toks[2].parse().unwrap(), toks[3].parse().unwrap());
                    self.leaf = (r, c);
                    let data = fill_data(&self.fill, r * c);
                    if toks[1] == "matrix" {
                        self.leaf_kind = LeafKind::RowMajor;
                        // producer → consumer: the same matrix out of a Vec with spare capacity, or
                        // left behind by a removal (its Vec then has spare capacity too)
                        let m = match via.as_str() {
                            "spare" => {
                                let mut v = Vec::with_capacity(data.len() + 1 + (r * c) % 5);
                                v.extend(data);
                                Matrix::from_flat_row_major((r, c), v)
                            }
                            "after_remove_row" => {
                                let at = r / 2;
                                let mut v: Vec<u64> = data[..at * c].to_vec();
                                v.extend(std::iter::repeat(SENTINEL).take(c));
                                v.extend(&data[at * c..]);
                                let mut m = Matrix::from_flat_row_major((r + 1, c), v);
                                m.remove_row(at);
                                m
                            }
                            "after_remove_column" => {
                                let at = c / 2;
                                let mut v = Vec::with_capacity((c + 1) * r);
                                for i in 0..r {
                                    v.extend(&data[i * c..i * c + at]);
                                    v.push(SENTINEL);
                                    v.extend(&data[i * c + at..(i + 1) * c]);
                                }
                                let mut m = Matrix::from_flat_row_major((r, c + 1), v);
                                m.remove_column(at);
                                m
                            }
                            _ => Matrix::from_flat_row_major((r, c), data),
                        };
                        self.cur = Some(Cur::Leaf(m));
                    } else {
                        self.leaf_kind = LeafKind::Tensor([("c", c), ("r", r)], true, false);
                        self.cur = Some(Cur::Mut(cm_leaf((r, c), data)));
                    }
                    format!("ok size={}x{}", r, c)
                }
                "pmatrix" => {
                    self.fill = opt_arg("fill", toks).unwrap_or("id").to_string();
                    let (r, c): (usize, usize) = (toks[2].parse().unwrap(), toks[3].parse().unwrap());
                    let rp: &'static [usize] = Box::leak(parse_usizes(toks[4]).into_boxed_slice());
                    let cp: &'static [usize] = Box::leak(parse_usizes(toks[5]).into_boxed_slice());
                    let (kr, kc): (usize, usize) = (toks[6].parse().unwrap(), toks[7].parse().unwrap());
                    self.leaf = (r, c);
                    self.leaf_kind = LeafKind::Part(rp, cp, kr, kc);
                    let data = fill_data(&self.fill, r * c);
                    let kind = self.leaf_kind;
                    let res = catch(move || make_leaf(kind, (r, c), data));
                    answer(res, |m| {
                        let s = format!("ok size={}x{}", m.view_rows(), m.view_columns());
                        self.cur = Some(Cur::Mut(m));
                        s
                    })
                }
                "partition" => {
                    let (r, c): (usize, usize) = (toks[2].parse().unwrap(), toks[3].parse().unwrap());
                    self.partition_args = Some((r, c, parse_usizes(toks[4]), parse_usizes(toks[5]), via));
                    match self.make_parts() {
                        Ok(()) => format!(
                            "ok sizes={}",
                            self.parts.iter().map(|p| format!("{}x{}", p.rows(), p.columns())).collect::<Vec<_>>().join(";")
                        ),
                        Err(k) => panic_str(k),
                    }
                }
                _ => "bad-op".into(),
            };
        }
        match toks[0] {
            "src" | "lget" | "luget" | "lscan" | "lset" | "srcget" => match self.live.as_mut() {
                None => "no-view".into(),
                Some(any) => with_node!(any, n => live_step(n, toks, &via)),
            },
            "wrap" | "unwrap" => match self.live.take() {
                None => "no-view".into(),
                Some(any) => {
                    let wrap = if toks[0] == "wrap" {
                        Some(Reverse { rows: toks[1] == "1", columns: toks[2] == "1" })
                    } else {
                        None
                    };
                    let mut any = any.map_chain(wrap);
                    let s = with_node!(&mut any, n => live_size(n));
                    self.live = Some(any);
                    format!("ok {}", s)
                }
            },
            "mrange" | "mreverse" | "roundtrip" | "mswap" => {
                let op = match toks[0] {
                    "mswap" => Op::Swap(via),
                    "mrange" => Op::Range(parse_range_pair(toks[1]), parse_range_pair(toks[2]), via),
                    "mreverse" => Op::Reverse(toks[1] == "1", toks[2] == "1", via),
                    _ => {
                        let names: Vec<&str> = toks[1..].iter().copied().filter(|t| !t.starts_with("via=")).collect();
                        if names.len() >= 2 {
                            Op::Roundtrip(Some((intern(names[0]), intern(names[1]))))
                        } else {
                            Op::Roundtrip(None)
                        }
                    }
                };
                let cur = match self.cur.take() {
                    Some(c) => c,
                    None => return "no-view".into(),
                };
                let was_ref = matches!(cur, Cur::Ref(_));
                let r = catch(|| match cur {
                    Cur::Leaf(m) => apply_leaf(m, &op),
                    Cur::Mut(m) => apply_mut(m, &op),
                    Cur::Ref(m) => apply_ref(m, &op),
                });
                match r {
                    Err(k) => panic_str(k),
                    Ok(Err(e)) => {
                        // the refused source was consumed by the attempt: rebuild the view
                        let n = self.leaf.0 * self.leaf.1;
                        let rebuilt = build(make_leaf(self.leaf_kind, self.leaf, fill_data(&self.fill, n)), &self.ops);
                        self.cur = Some(if was_ref { Cur::Ref(Box::new(rebuilt)) } else { Cur::Mut(rebuilt) });
                        e
                    }
                    Ok(Ok(w)) => {
                        self.ops.push(op);
                        let s = with_cur_ref!(&w, m => format!("ok size={}x{}", m.view_rows(), m.view_columns()));
                        self.cur = Some(w);
                        s
                    }
                }
            }
            "mmap" => match &self.cur {
                // MatrixMap is crate-private: it is exercised by `scan via=display`
                Some(w) => {
                    self.mapped = true;
                    with_cur_ref!(w, m => format!("ok size={}x{}", m.view_rows(), m.view_columns()))
                }
                None => "no-view".into(),
            },
            "layout" => match self.cur.take() {
                None => "no-view".into(),
                Some(w) => {
                    // `via=view`: through a MatrixView that owns the object (no reference layer of
                    // the harness's own in between)
                    let by_view = via == "view";
                    let (w, l) = match w {
                        Cur::Leaf(m) if by_view => {
                            let v = MatrixView::from(m);
                            let l = v.data_layout();
                            (Cur::Leaf(v.source()), l)
                        }
                        Cur::Mut(m) if by_view => {
                            let v = MatrixView::from(m);
                            let l = v.data_layout();
                            (Cur::Mut(v.source()), l)
                        }
                        Cur::Ref(m) if by_view => {
                            let v = MatrixView::from(m);
                            let l = v.data_layout();
                            (Cur::Ref(v.source()), l)
                        }
                        Cur::Leaf(m) => {
                            let l = MatrixRef::data_layout(&m);
                            (Cur::Leaf(m), l)
                        }
                        Cur::Mut(m) => {
                            let l = MatrixRef::data_layout(&m);
                            (Cur::Mut(m), l)
                        }
                        Cur::Ref(m) => {
                            let l = MatrixRef::data_layout(&m);
                            (Cur::Ref(m), l)
                        }
                    };
                    self.cur = Some(w);
                    layout_str(l).to_string()
                }
            },
            "eq" => match &self.cur {
                None => "no-view".into(),
                Some(w) => {
                    let lhs = opt_arg("lhs", toks).unwrap_or("self");
                    let rhs = opt_arg("rhs", toks).unwrap_or("rm");
                    let r = catch(|| with_cur_ref!(w, m => equality(m, toks[1], lhs, rhs, &via)));
                    answer(r, |b| b.to_string())
                }
            },
            "mget" | "uget" => {
                let (r, c): (usize, usize) = (toks[1].parse().unwrap(), toks[2].parse().unwrap());
                let unchecked = toks[0] == "uget";
                let cur = match self.cur.as_mut() {
                    None => return "no-view".into(),
                    Some(c) => c,
                };
                let res: Result<Option<u64>, PanicKind> = catch(|| {
                    // shared access forms (also the fallback of the mutable ones on a read-only view)
                    let shared = |cur: &Cur, via: &str| -> Option<u64> {
                        with_cur_ref!(cur, m => {
                            if unchecked {
                                // only emitted for indexes inside the view
                                Some(unsafe {
                                    if via.starts_with("view") {
                                        *MatrixView::from(m).get_reference_unchecked(r, c)
                                    } else {
                                        *m.get_reference_unchecked(r, c)
                                    }
                                })
                            } else {
                                match via {
                                    "view" | "view_mut" => MatrixView::from(m).try_get_reference(r, c).copied(),
                                    "view_get_reference" | "view_get_reference_mut" => {
                                        // the panicking getter: a documented panic is "absent"
                                        match catch(|| *MatrixView::from(m).get_reference(r, c)) {
                                            Ok(x) => Some(x),
                                            Err(PanicKind::Explicit) => None,
                                            Err(k) => std::panic::panic_any(format!("{}", match k {
                                                PanicKind::Overflow => "attempt to subtract with overflow",
                                                PanicKind::Index => "index out of bounds",
                                                _ => "called `Option::unwrap()` on a `None` value",
                                            })),
                                        }
                                    }
                                    _ => m.try_get_reference(r, c).copied(),
                                }
                            }
                        })
                    };
                    let mutable = matches!(
                        via.as_str(),
                        "mut" | "view_mut" | "unchecked_mut" | "view_unchecked_mut" | "view_get_reference_mut"
                    );
                    if !mutable {
                        return shared(cur, &via);
                    }
                    with_cur_mut!(cur, m => {
                        if unchecked {
                            Some(unsafe {
                                if via.starts_with("view") {
                                    *MatrixView::from(&mut *m).get_reference_unchecked_mut(r, c)
                                } else {
                                    *m.get_reference_unchecked_mut(r, c)
                                }
                            })
                        } else {
                            match via.as_str() {
                                "view_mut" => MatrixView::from(&mut *m).try_get_reference_mut(r, c).map(|x| *x),
                                "view_get_reference_mut" => {
                                    match catch(|| *MatrixView::from(&mut *m).get_reference_mut(r, c)) {
                                        Ok(x) => Some(x),
                                        Err(PanicKind::Explicit) => None,
                                        Err(_) => std::panic::panic_any("attempt to subtract with overflow".to_string()),
                                    }
                                }
                                _ => m.try_get_reference_mut(r, c).map(|x| *x),
                            }
                        }
                    }, else shared(cur, &via))
                });
                answer(res, |o| if unchecked { o.unwrap().to_string() } else { show_opt(o) })
            }
            "scan" => match self.cur.as_ref() {
                None => "no-view".into(),
                Some(w) => {
                    let (rows, cols) = with_cur_ref!(w, m => (m.view_rows(), m.view_columns()));
                    let leaf = self.leaf;
                    let kind = self.leaf_kind;
                    let fill = self.fill.clone();
                    let ops = self.ops.clone();
                    let res = catch(|| -> Vec<u64> {
                        match via.as_str() {
                            "display" => {
                                // Display of a RecordMatrix goes through MatrixMap
                                let data: Vec<(f64, usize)> =
                                    fill_data(&fill, leaf.0 * leaf.1).into_iter().map(|x| (x as f64, 0usize)).collect();
                                let v = build(make_leaf(kind, leaf, data), &ops);
                                let rm: RecordMatrix<f64, _> = RecordMatrix::from_existing(None, MatrixView::from(v));
                                let text = format!("{}", rm);
                                text.replace(['[', ']'], " ")
                                    .split([',', '\n'])
                                    .map(|t| t.trim())
                                    .filter(|t| !t.is_empty())
                                    .map(|t| t.parse::<f64>().expect("number") as u64)
                                    .collect()
                            }
                            "matrix_map_with_index" => match w {
                                // Matrix's own map_with_index
                                Cur::Leaf(m) => m
                                    .map_with_index(|x, i, j| (x, i, j))
                                    .row_major_iter()
                                    .enumerate()
                                    .map(|(k, (x, i, j))| {
                                        assert_eq!((i, j), (k / cols, k % cols), "map_with_index index");
                                        x
                                    })
                                    .collect(),
                                _ => with_cur_ref!(w, m => scan_view(m, "row_major").unwrap()),
                            },
                            other => with_cur_ref!(w, m => scan_view(m, other).expect("scan via")),
                        }
                    });
                    answer(res, |v| format!("{}x{}:{}", rows, cols, show_ids(&v)))
                }
            },
            "set" => {
                let (r, c): (usize, usize) = (toks[1].parse().unwrap(), toks[2].parse().unwrap());
                let n = self.leaf.0 * self.leaf.1;
                // the leaf is leaked for the life of the view and read back afterwards
                let mptr: *mut Matrix<u64> = std::ptr::null_mut();
                let mut before = fill_data(&self.fill, n);
                let (leaf, read_back): (MDyn, Box<dyn FnOnce() -> Vec<u64>>) = match self.leaf_kind {
                    LeafKind::RowMajor => {
                        let ptr: *mut Matrix<u64> =
                            Box::into_raw(Box::new(Matrix::from_flat_row_major(self.leaf, before.clone())));
                        let leaf: MDyn = Box::new(unsafe { &mut *ptr });
                        (leaf, Box::new(move || {
                            let v: Vec<u64> = unsafe { (*ptr).row_major_iter().collect() };
                            unsafe { drop(Box::from_raw(ptr)) };
                            v
                        }))
                    }
                    LeafKind::Tensor(shape, swapped, transposed) => {
                        let ptr: *mut Tensor<u64, 2> =
                            Box::into_raw(Box::new(prepared_tensor(shape, before.clone(), transposed)));
                        // the data as stored after the preparation
                        before = unsafe { (*ptr).iter().collect() };
                        let t: &'static mut Tensor<u64, 2> = unsafe { &mut *ptr };
                        let leaf: MDyn = if swapped {
                            Box::new(MatrixRefTensor::from(TensorAccess::from(t, [shape[1].0, shape[0].0])))
                        } else {
                            Box::new(MatrixRefTensor::from(t))
                        };
                        (leaf, Box::new(move || {
                            let v: Vec<u64> = unsafe { (*ptr).iter().collect() };
                            unsafe { drop(Box::from_raw(ptr)) };
                            v
                        }))
                    }
                    LeafKind::Part(rp, cp, kr, kc) => {
                        let ptr: *mut Matrix<u64> =
                            Box::into_raw(Box::new(Matrix::from_flat_row_major(self.leaf, before.clone())));
                        let leaf: MDyn = part_of(unsafe { &mut *ptr }, rp, cp, kr, kc);
                        (leaf, Box::new(move || {
                            let v: Vec<u64> = unsafe { (*ptr).row_major_iter().collect() };
                            unsafe { drop(Box::from_raw(ptr)) };
                            v
                        }))
                    }
                };
                let _ = mptr;
                let ops = self.ops.clone();
                // `map_mut` singles its cell out by value: only with pairwise distinct elements
                let via = if via == "map_mut" && self.fill != "id" { "mut".to_string() } else { via };
                let res = catch(move || {
                    let mut v = build(leaf, &ops);
                    let inside = r < v.view_rows() && c < v.view_columns();
                    match via.as_str() {
                        "view" => {
                            if let Some(x) = MatrixView::from(&mut v).try_get_reference_mut(r, c) {
                                *x = SENTINEL;
                            }
                        }
                        "unchecked" => unsafe {
                            // only emitted for indexes inside the view
                            *v.get_reference_unchecked_mut(r, c) = SENTINEL;
                        },
                        "view_unchecked_mut" => unsafe {
                            *MatrixView::from(&mut v).get_reference_unchecked_mut(r, c) = SENTINEL;
                        },
                        // the panicking writers, inside the view only
                        "view_get_reference_mut" if inside => *MatrixView::from(&mut v).get_reference_mut(r, c) = SENTINEL,
                        "view_set" if inside => MatrixView::from(&mut v).set(r, c, SENTINEL),
                        "map_mut_with_index" if inside => MatrixView::from(&mut v)
                            .map_mut_with_index(|x, i, j| if (i, j) == (r, c) { SENTINEL } else { x }),
                        "map_mut" if inside => {
                            // ids are unique: rewrite the one element this index reads
                            let id = *v.try_get_reference(r, c).unwrap();
                            MatrixView::from(&mut v).map_mut(|x| if x == id { SENTINEL } else { x })
                        }
                        _ => {
                            if let Some(x) = v.try_get_reference_mut(r, c) {
                                *x = SENTINEL;
                            }
                        }
                    }
                });
                // the view is gone (dropped or unwound): read the leaf back and free it
                let after = read_back();
                answer(res, |_| changed(&before, &after))
            }
            "consume" => {
                if self.cur.is_none() {
                    return "no-view".into();
                }
                let (leaf, kind, fill, ops) = (self.leaf, self.leaf_kind, self.fill.clone(), self.ops.clone());
                let what = toks[1].to_string();
                let res = catch(move || {
                    let data: Vec<i64> = fill_data(&fill, leaf.0 * leaf.1).into_iter().map(|x| x as i64).collect();
                    let mut v: IDyn = build(make_leaf(kind, leaf, data), &ops);
                    consume(&mut v, &what, &via)
                });
                answer(res, |s| s)
            }
            "partget" => {
                let k: usize = toks[1].parse().unwrap();
                let (r, c): (usize, usize) = (toks[2].parse().unwrap(), toks[3].parse().unwrap());
                match self.parts.get_mut(k) {
                    None => "no-part".into(),
                    Some(p) => {
                        let res = catch(|| match via.as_str() {
                            "mut" => p.try_get_reference_mut(r, c).map(|x| *x),
                            "source" => p.source_ref().try_get_reference(r, c).copied(),
                            "source_mut" => p.source_ref_mut().try_get_reference_mut(r, c).map(|x| *x),
                            "unchecked" => Some(unsafe { *p.source_ref().get_reference_unchecked(r, c) }),
                            _ => p.try_get_reference(r, c).copied(),
                        });
                        answer(res, show_opt)
                    }
                }
            }
            "partscan" if via == "display" => {
                // the four quadrants as printed by `Display for MatrixQuadrants`
                let text = QUAD_DISPLAY.with(|d| d.borrow().clone());
                match text {
                    None => "no-display".into(),
                    Some(text) => {
                        let sizes: Vec<(usize, usize)> = self.parts.iter().map(|p| (p.rows(), p.columns())).collect();
                        let mut blocks = vec![];
                        for block in text.split('[').skip(1) {
                            let body = block.split(']').next().unwrap_or("");
                            let v: Vec<u64> = body
                                .split([',', '\n'])
                                .map(|t| t.trim())
                                .filter(|t| !t.is_empty())
                                .map(|t| t.parse::<u64>().expect("number"))
                                .collect();
                            blocks.push(v);
                        }
                        blocks
                            .iter()
                            .zip(sizes.iter())
                            .map(|(v, (r, c))| format!("{}x{}:{}", r, c, show_ids(v)))
                            .collect::<Vec<_>>()
                            .join(";")
                    }
                }
            }
            "partscan" => {
                let res = catch(|| {
                    self.parts
                        .iter()
                        .map(|p| {
                            let v: Vec<u64> = match via.as_str() {
                                "reference" => p.row_major_reference_iter().copied().collect(),
                                _ => p.row_major_iter().collect(),
                            };
                            format!("{}x{}:{}", p.rows(), p.columns(), show_ids(&v))
                        })
                        .collect::<Vec<_>>()
                        .join(";")
                });
                answer(res, |s| s)
            }
            "partset" => {
                let k: usize = toks[1].parse().unwrap();
                let (r, c): (usize, usize) = (toks[2].parse().unwrap(), toks[3].parse().unwrap());
                if k >= self.parts.len() {
                    return "no-part".into();
                }
                let n = {
                    let a = self.partition_args.as_ref().unwrap();
                    a.0 * a.1
                };
                let parts = &mut self.parts;
                let res = catch(|| {
                    let p = &mut parts[k];
                    match via.as_str() {
                        "set" => {
                            if r < p.rows() && c < p.columns() {
                                p.set(r, c, SENTINEL);
                            }
                        }
                        "map_mut" => {
                            if r < p.rows() && c < p.columns() {
                                p.map_mut_with_index(|x, i, j| if (i, j) == (r, c) { SENTINEL } else { x });
                            }
                        }
                        _ => {
                            if let Some(x) = p.try_get_reference_mut(r, c) {
                                *x = SENTINEL;
                            }
                        }
                    }
                });
                // drop every part, then look at the matrix itself
                self.parts.clear();
                let after: Vec<u64> = unsafe { (*self.part_matrix).row_major_iter().collect() };
                let ans = answer(res, |_| changed(&ids(n), &after));
                // fresh parts for the following lines of the case
                let _ = self.make_parts();
                ans
            }
            _ => "bad-op".into(),
        }
    }
}

impl Drop for Runner {
    fn drop(&mut self) {
        self.drop_parts();
    }
}

// ---------------------------------------------------------------------------------------------
// generation
// ---------------------------------------------------------------------------------------------

const MGET_VIAS: [&str; 6] = ["ref", "mut", "view", "view_mut", "view_get_reference", "view_get_reference_mut"];
const UGET_VIAS: [&str; 4] = ["unchecked", "unchecked_mut", "view_unchecked", "view_unchecked_mut"];
const SET_VIAS: [&str; 8] = [
    "mut", "view", "unchecked", "view_unchecked_mut", "view_get_reference_mut", "view_set", "map_mut_with_index", "map_mut",
];
const SCAN_VIAS: [&str; 12] = [
    "row_major", "column_major", "reference", "rows", "columns", "index", "get_reference", "transpose", "map",
    "map_with_index", "matrix_map_with_index", "display",
];
const RANGE_VIAS: [&str; 10] = [
    "indexrange", "tuple", "array", "range", "view", "view_range_mut", "view_range", "matrix_range",
    "matrix_range_mut", "matrix_range_owned",
];
const REVERSE_VIAS: [&str; 7] = [
    "direct", "view", "view_reverse_mut", "view_reverse", "matrix_reverse", "matrix_reverse_mut", "matrix_reverse_owned",
];

fn ring(len: usize) -> Vec<usize> {
    let mut v = vec![0, len.saturating_sub(1), len, len + 1, MAX - 1, MAX];
    v.sort();
    v.dedup();
    v
}

/// start / length values of the design: 0..size+2, usize::MAX−1, usize::MAX
fn range_values(size: usize) -> Vec<usize> {
    let mut v: Vec<usize> = (0..=size + 2).collect();
    v.push(MAX - 1);
    v.push(MAX);
    v
}

fn clipped(start: usize, len: usize, size: usize) -> usize {
    start.saturating_add(len).min(size).saturating_sub(start)
}

fn range_via(g: &mut Gen, r: (usize, usize), c: (usize, usize)) -> &'static str {
    let v = *g.rng.pick(&RANGE_VIAS);
    if v == "range" && (r.0.checked_add(r.1).is_none() || c.0.checked_add(c.1).is_none()) {
        "indexrange"
    } else {
        v
    }
}

/// questions about the current view of the given size
fn gen_queries(g: &mut Gen, rows: usize, cols: usize, tag: &str, full: bool) {
    let via = *g.rng.pick(&SCAN_VIAS);
    g.op(format!("scan via={}", via));
    g.count(&format!("scan.{}", via));
    if rows == 0 || cols == 0 {
        g.count("view.empty");
    }
    let rs = if full { ring(rows) } else { vec![*g.rng.pick(&ring(rows)), rows.saturating_sub(1)] };
    let cs = if full { ring(cols) } else { vec![*g.rng.pick(&ring(cols)), 0] };
    for &r in &rs {
        for &c in &cs {
            let inside = r < rows && c < cols;
            g.count(&format!("mget.{}.{}", tag, if inside { "in" } else { "out" }));
            if !inside && (rows == 0 || cols == 0) {
                g.count("mget.out_of_range_on_empty_view");
            }
            let via = *g.rng.pick(&MGET_VIAS);
            g.op(format!("mget {} {} via={}", r, c, via));
        }
    }
    // every cell: unchecked access, and a write followed by a scan of the leaf for a few
    for r in 0..rows {
        for c in 0..cols {
            if full || g.rng.chance(1, 3) {
                let via = *g.rng.pick(&UGET_VIAS);
                g.op(format!("uget {} {} via={}", r, c, via));
                g.count("uget");
            }
            if g.rng.chance(1, if full { 2 } else { 6 }) {
                let via = *g.rng.pick(&SET_VIAS);
                g.op(format!("set {} {} via={}", r, c, via));
                g.count(&format!("set.in.{}", via));
            }
        }
    }
    let (r, c) = (*g.rng.pick(&ring(rows)), *g.rng.pick(&ring(cols)));
    if !(r < rows && c < cols) {
        let via = *g.rng.pick(&["mut", "view", "view_set", "map_mut_with_index"]);
        g.op(format!("set {} {} via={}", r, c, via));
        g.count("set.out");
    }
    let via = *g.rng.pick(&["direct", "view"]);
    g.op(format!("layout via={}", via));
    g.count("layout");
    if rows > 0 && cols > 0 && (full || g.rng.chance(1, 2)) {
        let n = rows * cols;
        let kinds = ["same".to_string(), format!("cell:{}", g.rng.below(n)), "rows".to_string(), "cols".to_string()];
        let rounds = if full { 4 } else { 2 };
        for _ in 0..rounds {
            let kind = g.rng.pick(&kinds).clone();
            let lhs = *g.rng.pick(&["self", "self", "rm", "cm"]);
            let rhs = *g.rng.pick(&["rm", "cm"]);
            let via = *g.rng.pick(&["view_view", "view_matrix", "matrix_view"]);
            g.op(format!("eq {} lhs={} rhs={} via={}", kind, lhs, rhs, via));
            g.count(&format!("eq.{}", kind.split(':').next().unwrap()));
            g.count(&format!("eq.layouts.{}_{}", lhs, rhs));
        }
    }
}

fn sizes(g: &Gen) -> Vec<(usize, usize)> {
    if g.thorough {
        let mut v = vec![];
        for r in 1..=4 {
            for c in 1..=5 {
                v.push((r, c));
            }
        }
        v
    } else {
        vec![(1, 1), (1, 3), (2, 2), (3, 2), (4, 5)]
    }
}

fn leaf_line(g: &mut Gen, rows: usize, cols: usize) -> String {
    if g.rng.chance(1, 4) {
        g.count("leaf.column_major");
        format!("@ cmatrix {} {}", rows, cols)
    } else {
        g.count("leaf.row_major");
        format!("@ matrix {} {}", rows, cols)
    }
}

fn gen_ranges(g: &mut Gen) {
    for (rows, cols) in sizes(g) {
        // every row range with a few column ranges, and vice versa
        let col_choices = [(0usize, cols), (1, MAX), (cols, 1)];
        let row_choices = [(0usize, rows), (1, MAX), (rows + 1, 0)];
        let mut cases: Vec<((usize, usize), (usize, usize))> = vec![];
        for s in range_values(rows) {
            for l in range_values(rows) {
                for cc in col_choices {
                    cases.push(((s, l), cc));
                }
            }
        }
        for s in range_values(cols) {
            for l in range_values(cols) {
                for rc in row_choices {
                    cases.push((rc, (s, l)));
                }
            }
        }
        for (k, (r, c)) in cases.into_iter().enumerate() {
            if !g.thorough && k % 3 != 0 && (rows, cols) == (4, 5) {
                continue;
            }
            let line = leaf_line(g, rows, cols);
            g.op(line);
            let via = range_via(g, r, c);
            g.op(format!("mrange {}:{} {}:{} via={}", r.0, r.1, c.0, c.1, via));
            g.count("mrange");
            g.count(&format!("mrange.via.{}", via));
            if r.0 >= rows || c.0 >= cols {
                g.count("mrange.fully_out_of_range");
            } else if r.0.saturating_add(r.1) > rows || c.0.saturating_add(c.1) > cols {
                g.count("mrange.clipped");
            }
            if r.0.checked_add(r.1).is_none() || c.0.checked_add(c.1).is_none() {
                g.count("mrange.start+length_overflows");
            }
            let (vr, vc) = (clipped(r.0, r.1, rows), clipped(c.0, c.1, cols));
            gen_queries(g, vr, vc, "mrange", false);
        }
        // the four reversal settings
        for rr in 0..2 {
            for rc in 0..2 {
                let line = leaf_line(g, rows, cols);
                g.op(line);
                let via = *g.rng.pick(&REVERSE_VIAS);
                g.op(format!("mreverse {} {} via={}", rr, rc, via));
                g.count("mreverse");
                g.count(&format!("mreverse.via.{}", via));
                gen_queries(g, rows, cols, "mreverse", true);
                g.op("mmap".to_string());
                g.op("scan via=display".to_string());
            }
        }
        g.op(format!("@ matrix {} {}", rows, cols));
        gen_queries(g, rows, cols, "matrix", true);
        g.op(format!("@ cmatrix {} {}", rows, cols));
        gen_queries(g, rows, cols, "cmatrix", true);
        g.op("roundtrip".to_string());
        g.count("roundtrip");
        gen_queries(g, rows, cols, "roundtrip", true);
    }
}

/// `depth` random adaptors (range / reverse / tensor round trip) on top of the current view of
/// size `vr × vc`; updates the size, answers the kinds
fn gen_stack(g: &mut Gen, vr: &mut usize, vc: &mut usize, depth: usize) -> Vec<&'static str> {
    let mut kinds = vec![];
    for _ in 0..depth {
        match g.rng.below(5) {
            0 | 1 => {
                let pick = |g: &mut Gen, size: usize| -> (usize, usize) {
                    match g.rng.below(4) {
                        0 => (*g.rng.pick(&range_values(size)), *g.rng.pick(&range_values(size))),
                        1 => (g.rng.below(size + 1), MAX),
                        _ => {
                            let s = g.rng.below(size + 1);
                            (s, g.rng.range(0, size + 1 - s))
                        }
                    }
                };
                let (r, c) = (pick(g, *vr), pick(g, *vc));
                let via = range_via(g, r, c);
                g.op(format!("mrange {}:{} {}:{} via={}", r.0, r.1, c.0, c.1, via));
                *vr = clipped(r.0, r.1, *vr);
                *vc = clipped(c.0, c.1, *vc);
                kinds.push("range");
            }
            2 | 3 => {
                let (a, b) = (g.rng.below(2), g.rng.below(2));
                let via = *g.rng.pick(&REVERSE_VIAS);
                g.op(format!("mreverse {} {} via={}", a, b, via));
                g.count(&format!("mreverse.via.{}", via));
                kinds.push("reverse");
            }
            _ => {
                g.op("roundtrip".to_string());
                if *vr == 0 || *vc == 0 {
                    g.count("roundtrip.refused_on_empty_view");
                }
                kinds.push("roundtrip");
            }
        }
    }
    kinds
}

fn gen_nested(g: &mut Gen) {
    let rounds = if g.thorough { 20000 } else { 800 };
    for _ in 0..rounds {
        let (rows, cols) = (g.rng.range(1, 4), g.rng.range(1, 5));
        let line = leaf_line(g, rows, cols);
        g.op(line);
        let (mut vr, mut vc) = (rows, cols);
        let depth = g.rng.range(1, 3);
        let kinds = gen_stack(g, &mut vr, &mut vc, depth);
        g.count(&format!("nested.depth={}", depth));
        g.count(&format!("nested.{}", kinds.join("_of_")));
        if g.rng.chance(1, 4) {
            g.op("mmap".to_string());
        }
        gen_queries(g, vr, vc, "nested", false);
    }
}

/// a `@ pmatrix` line over a rows × cols matrix: random accepted cuts and a (mostly non-empty)
/// part; answers the line and the part's size
fn part_line(g: &mut Gen, rows: usize, cols: usize) -> (String, usize, usize) {
    let cuts = |g: &mut Gen, n: usize| -> Vec<usize> {
        // an ascending list of distinct boundaries in 0..=n, at most 4 of them
        let mut v: Vec<usize> = (0..=n).filter(|_| g.rng.chance(1, 3)).collect();
        v.truncate(4);
        v
    };
    let (rp, cp) = (cuts(g, rows), cuts(g, cols));
    let mut rb = rp.clone();
    rb.push(rows);
    let mut cb = cp.clone();
    cb.push(cols);
    // mostly a non-empty part
    let (mut kr, mut kc) = (0, 0);
    for attempt in 0..4 {
        kr = g.rng.below(rp.len() + 1);
        kc = g.rng.below(cp.len() + 1);
        let empty = rb[kr] == if kr == 0 { 0 } else { rb[kr - 1] } || cb[kc] == if kc == 0 { 0 } else { cb[kc - 1] };
        if !empty || (attempt == 0 && g.rng.chance(1, 8)) {
            break;
        }
    }
    let pr = rb[kr] - if kr == 0 { 0 } else { rb[kr - 1] };
    let pc = cb[kc] - if kc == 0 { 0 } else { cb[kc - 1] };
    let (pr, pc) = if pr == 0 || pc == 0 { (0, 0) } else { (pr, pc) };
    let fill = if g.rng.chance(1, 6) { *g.rng.pick(&["zero", "const", "parity"]) } else { "id" };
    (
        format!("@ pmatrix {} {} {} {} {} {} fill={}", rows, cols, show_usizes(&rp), show_usizes(&cp), kr, kc, fill),
        pr,
        pc,
    )
}

/// compositions of views over one part of a partition (`@ pmatrix`)
fn gen_part_views(g: &mut Gen) {
    let rounds = if g.thorough { 8000 } else { 320 };
    for round in 0..rounds {
        let large = round % 8 == 7;
        let (rows, cols) = if large { (g.rng.range(6, 10), g.rng.range(6, 10)) } else { (g.rng.range(1, 4), g.rng.range(1, 5)) };
        let (line, pr, pc) = part_line(g, rows, cols);
        g.op(line);
        g.count("part_view");
        g.count(if pr == 0 { "part_view.empty_part" } else if (pr, pc) == (rows, cols) { "part_view.whole_matrix" } else { "part_view.proper_part" });
        if large {
            g.count("part_view.large");
        }
        let (mut vr, mut vc) = (pr, pc);
        let depth = g.rng.below(4);
        if depth == 0 {
            gen_queries(g, vr, vc, "part", !large);
            continue;
        }
        let kinds = gen_stack(g, &mut vr, &mut vc, depth);
        g.count(&format!("part_view.depth={}", depth));
        g.count(&format!("part_view.{}", kinds.join("_of_")));
        if g.rng.chance(1, 4) {
            g.op("mmap".to_string());
        }
        gen_queries(g, vr, vc, "part_view", false);
    }
}

/// compositions containing the transposed view through the tensor side (`mswap`)
fn gen_swaps(g: &mut Gen) {
    let rounds = if g.thorough { 8000 } else { 320 };
    for round in 0..rounds {
        let large = round % 8 == 7;
        let (rows, cols) = if large { (g.rng.range(6, 10), g.rng.range(6, 10)) } else { (g.rng.range(1, 4), g.rng.range(1, 5)) };
        let line = leaf_line(g, rows, cols);
        g.op(line);
        let (mut vr, mut vc) = (rows, cols);
        let depth = g.rng.range(1, 4);
        let mut kinds: Vec<&'static str> = vec![];
        let mut swaps = 0;
        for step in 0..depth {
            if g.rng.chance(2, 5) || (step + 1 == depth && swaps == 0) {
                let via = *g.rng.pick(&["access", "try_from", "transpose"]);
                g.op(format!("mswap via={}", via));
                g.count(&format!("mswap.via.{}", via));
                if vr == 0 || vc == 0 {
                    g.count("mswap.refused_on_empty_view");
                } else {
                    std::mem::swap(&mut vr, &mut vc);
                }
                swaps += 1;
                kinds.push("swap");
            } else {
                kinds.extend(gen_stack(g, &mut vr, &mut vc, 1));
            }
        }
        g.count(&format!("mswap.{}", kinds.join("_of_")));
        if large {
            g.count("mswap.large");
        }
        gen_queries(g, vr, vc, "mswap", !large && depth == 1);
    }
}

/// a leaf of any kind for the producer → consumer sections: fresh / spare-capacity / post-removal
/// matrices, column-major sources, tensors (also transposed in place after filling), parts;
/// answers the line and the size of the view
fn any_leaf_line(g: &mut Gen, rows: usize, cols: usize) -> (String, usize, usize) {
    match g.rng.below(8) {
        0 => (format!("@ matrix {} {}", rows, cols), rows, cols),
        1 | 2 => {
            let via = *g.rng.pick(&["spare", "after_remove_row", "after_remove_column"]);
            g.count(&format!("leaf.matrix.{}", via));
            (format!("@ matrix {} {} via={}", rows, cols, via), rows, cols)
        }
        3 => (format!("@ cmatrix {} {}", rows, cols), rows, cols),
        4 | 5 => {
            // a tensor with lengths l1, l2; transposed in place it has l2, l1
            let transposed = g.rng.chance(2, 3);
            let swapped = g.rng.chance(1, 3);
            let (t1, t2) = if swapped { (cols, rows) } else { (rows, cols) };
            let (l1, l2) = if transposed { (t2, t1) } else { (t1, t2) };
            let via = if swapped {
                *g.rng.pick(&["direct", "index_by"])
            } else {
                *g.rng.pick(&["direct", "into_matrix", "matrix_from"])
            };
            g.count(&format!("leaf.tensor.{}{}.{}", if transposed { "transpose_mut." } else { "" }, if swapped { "swapped" } else { "direct" }, via));
            (
                format!(
                    "@ tmatrix x:{},y:{} order={}{} via={}",
                    l1,
                    l2,
                    if swapped { "swapped" } else { "direct" },
                    if transposed { " prep=transpose_mut" } else { "" },
                    via
                ),
                rows,
                cols,
            )
        }
        _ => {
            let (mr, mc) = (rows + g.rng.below(3), cols + g.rng.below(3));
            let (line, pr, pc) = part_line(g, mr, mc);
            g.count("leaf.part");
            (line, pr, pc)
        }
    }
}

/// one random adaptor (range / reverse / tensor round trip / transposition through the tensor side)
fn any_step(g: &mut Gen, vr: &mut usize, vc: &mut usize) -> &'static str {
    if g.rng.chance(1, 4) {
        let via = *g.rng.pick(&["access", "try_from", "transpose"]);
        g.op(format!("mswap via={}", via));
        if *vr != 0 && *vc != 0 {
            std::mem::swap(vr, vc);
        }
        "swap"
    } else if g.rng.chance(1, 2) {
        // a range that keeps something, mostly
        let pick = |g: &mut Gen, size: usize| -> (usize, usize) {
            if size == 0 || g.rng.chance(1, 10) {
                (g.rng.below(size + 2), g.rng.below(3))
            } else {
                let s = g.rng.below(size);
                (s, if g.rng.chance(1, 4) { MAX } else { g.rng.range(1, size - s) })
            }
        };
        let (r, c) = (pick(g, *vr), pick(g, *vc));
        let via = range_via(g, r, c);
        g.op(format!("mrange {}:{} {}:{} via={}", r.0, r.1, c.0, c.1, via));
        *vr = clipped(r.0, r.1, *vr);
        *vc = clipped(c.0, c.1, *vc);
        "range"
    } else {
        gen_stack(g, vr, vc, 1).pop().unwrap_or("none")
    }
}

const ITER_FLAVOURS: [&str; 17] = [
    "row_major", "column_major_reference", "column_major_with_index", "with_index", "reference_with_index",
    "row_reference", "column_reference", "reference_mut", "reference_mut_with_index", "column_major_reference_mut",
    "row_reference_mut", "column_reference_mut", "display_view", "tensor_iter", "tensor_index_by", "tensor_map",
    "tensor_transposed",
];

/// every consumer of a (non-empty) view of the given size
fn gen_consume(g: &mut Gen, rows: usize, cols: usize, all_flavours: bool) {
    if rows == 0 || cols == 0 {
        return;
    }
    for f in ITER_FLAVOURS {
        if all_flavours || g.rng.chance(1, 3) {
            g.op(format!("consume iter via={}", f));
            g.count(&format!("consume.iter.{}", f));
        }
    }
    let kinds: [(&str, &[&str]); 7] = [
        ("add", &["view_view", "view_matrix", "matrix_view", "owned", "owned_ref"]),
        ("sub", &["view_view", "view_matrix", "matrix_view", "owned"]),
        ("mul", &["view_view", "view_matrix", "owned"]),
        ("tmul", &["view_view", "matrix_view", "owned"]),
        ("neg", &["ref", "owned"]),
        ("scalar", &["ref_ref", "ref_val", "val_ref", "val_val"]),
        ("diag", &["iter", "reference", "reference_mut"]),
    ];
    for (kind, vias) in kinds {
        let via = *g.rng.pick(vias);
        g.op(format!("consume {} via={}", kind, via));
        g.count(&format!("consume.{}.{}", kind, via));
    }
    if rows != cols || rows <= 4 {
        let via = *g.rng.pick(&["tensor", "tensor_method", "map"]);
        g.op(format!("consume det via={}", via));
        g.count(if rows == cols { "consume.det.square" } else { "consume.det.non_square" });
    }
}

/// producer → consumer: the objects other operations leave behind (tensors transposed in place,
/// matrices with spare capacity, parts, transposed-through-tensor views, stacks of depth ≤ 3) fed
/// to every reader of a view
fn gen_producers_consumers(g: &mut Gen) {
    let rounds = if g.thorough { 8000 } else { 330 };
    for round in 0..rounds {
        let large = round % 10 == 9;
        let square = g.rng.chance(1, 3);
        let (rows, cols) = if large {
            (g.rng.range(6, 10), g.rng.range(6, 10))
        } else {
            let r = g.rng.range(1, 4);
            (r, if square { r } else { g.rng.range(1, 5) })
        };
        let (line, mut vr, mut vc) = any_leaf_line(g, rows, cols);
        g.op(line);
        let depth = g.rng.below(4);
        let mut kinds = vec![];
        for _ in 0..depth {
            kinds.push(any_step(g, &mut vr, &mut vc));
        }
        g.count(&format!("producer_consumer.depth={}", depth));
        if depth > 0 {
            g.count(&format!("producer_consumer.top={}", kinds[depth - 1]));
        }
        if vr == 0 || vc == 0 {
            g.count("producer_consumer.empty_view");
        }
        // the view itself, then its consumers
        gen_queries(g, vr, vc, "producer", depth == 0 && !large);
        gen_consume(g, vr, vc, round % 5 == 0 && !large);
    }
}

fn sublists(n: usize) -> Vec<Vec<usize>> {
    // all ascending lists over 0..=n (every subset, sorted)
    let mut out = vec![];
    for mask in 0u32..(1 << (n + 1)) {
        out.push((0..=n).filter(|i| mask & (1 << i) != 0).collect());
    }
    out
}

fn gen_partition_case(g: &mut Gen, rows: usize, cols: usize, rp: &[usize], cp: &[usize], valid: bool) {
    let via = if rp.len() == 1 && cp.len() == 1 && g.rng.chance(1, 2) { "quadrants" } else { "partition" };
    g.op(format!("@ partition {} {} {} {} via={}", rows, cols, show_usizes(rp), show_usizes(cp), via));
    g.count(if valid { "partition.accepted" } else { "partition.rejected" });
    if !valid {
        return;
    }
    let scan_via = *g.rng.pick(&["owned", "reference"]);
    g.op(format!("partscan via={}", scan_via));
    if via == "quadrants" {
        g.op("partscan via=display".to_string());
        g.count("partition.quadrants_display");
    }
    let mut rb = rp.to_vec();
    rb.push(rows);
    let mut cb = cp.to_vec();
    cb.push(cols);
    let nparts = rb.len() * cb.len();
    g.count_n("partition.parts", nparts as u64);
    for k in 0..nparts {
        let (ri, ci) = (k / cb.len(), k % cb.len());
        let pr = rb[ri] - if ri == 0 { 0 } else { rb[ri - 1] };
        let pc = cb[ci] - if ci == 0 { 0 } else { cb[ci - 1] };
        let (pr, pc) = if pr == 0 || pc == 0 { (0, 0) } else { (pr, pc) };
        if pr == 0 {
            g.count("partition.empty_part");
        }
        for r in ring(pr) {
            for c in ring(pc) {
                if r < pr && c < pc || g.rng.chance(1, 3) {
                    let via = if r < pr && c < pc && g.rng.chance(1, 4) {
                        "unchecked"
                    } else {
                        *g.rng.pick(&["view", "mut", "source", "source_mut"])
                    };
                    g.op(format!("partget {} {} {} via={}", k, r, c, via));
                    g.count(if r < pr && c < pc { "partget.in" } else { "partget.out" });
                }
            }
        }
        // a write through this part, then a scan of the whole matrix
        if pr > 0 {
            let (r, c) = (g.rng.below(pr), g.rng.below(pc));
            let via = *g.rng.pick(&["mut", "set", "map_mut"]);
            g.op(format!("partset {} {} {} via={}", k, r, c, via));
            g.count("partset.in");
        }
        if g.rng.chance(1, 2) {
            g.op(format!("partset {} {} {} via=mut", k, pr, 0));
            g.count("partset.out");
        }
    }
}

fn gen_partitions(g: &mut Gen) {
    // exhaustive ascending lists for small matrices
    let small: Vec<(usize, usize)> = if g.thorough { vec![(1, 1), (2, 2), (3, 2), (2, 3), (3, 3)] } else { vec![(1, 1), (2, 2), (3, 2)] };
    for (rows, cols) in small {
        for rp in sublists(rows) {
            for cp in sublists(cols) {
                gen_partition_case(g, rows, cols, &rp, &cp, true);
            }
        }
    }
    // sampled ascending lists for the larger sizes
    let rounds = if g.thorough { 4000 } else { 150 };
    for _ in 0..rounds {
        let (rows, cols) = (g.rng.range(1, 4), g.rng.range(1, 5));
        let rps = sublists(rows);
        let cps = sublists(cols);
        let rp = g.rng.pick(&rps).clone();
        let cp = g.rng.pick(&cps).clone();
        gen_partition_case(g, rows, cols, &rp, &cp, true);
    }
    // repeated boundaries: accepted when they do not repeat the first one
    for (rp, cp, valid) in [
        (vec![2usize, 3, 3], vec![], true),
        (vec![1, 2, 2, 3], vec![0, 1, 1], true),
        (vec![0, 1, 1, 1, 4], vec![2, 5, 5], true),
        (vec![3, 3], vec![], false),
        (vec![], vec![0, 0], false),
        (vec![1, 3, 2], vec![], false),
        (vec![], vec![1, 4, 2, 5], false),
        (vec![2, 1], vec![], false),
        (vec![5], vec![], false),
        (vec![], vec![6], false),
        (vec![0, MAX], vec![], false),
        (vec![MAX], vec![MAX], false),
        (vec![1, 2], vec![3, 2], false),
        (vec![1, 3, 2], vec![1, 4, 2], false),
    ] {
        gen_partition_case(g, 4, 5, &rp, &cp, valid);
    }
    // random, mostly malformed lists
    let rounds = if g.thorough { 4000 } else { 150 };
    for _ in 0..rounds {
        let (rows, cols) = (g.rng.range(1, 4), g.rng.range(1, 5));
        let mk = |g: &mut Gen, n: usize| -> Vec<usize> {
            let len = g.rng.below(4);
            (0..len).map(|_| g.rng.below(n + 2)).collect()
        };
        let (rp, cp) = (mk(g, rows), mk(g, cols));
        let ok = |l: &[usize], n: usize| {
            l.iter().all(|&x| x <= n) && l.iter().skip(1).all(|&x| x > l[0]) && l.windows(2).all(|w| w[0] <= w[1])
        };
        let valid = ok(&rp, rows) && ok(&cp, cols);
        gen_partition_case(g, rows, cols, &rp, &cp, valid);
    }
}


/// a source operation that is (mostly) valid at the given size; returns the line and the size after
fn live_source_op(g: &mut Gen, rows: usize, cols: usize, counter: &mut u64) -> (String, usize, usize) {
    let mut fresh = |n: usize| -> Vec<u64> {
        (0..n)
            .map(|_| {
                *counter += 1;
                *counter
            })
            .collect()
    };
    let show = |v: &[u64]| v.iter().map(|x| x.to_string()).collect::<Vec<_>>().join(",");
    loop {
        match g.rng.below(12) {
            0 | 1 => {
                let p = g.rng.below(rows + 1);
                return (format!("insert_row {} {}", p, fresh(1)[0]), rows + 1, cols);
            }
            2 => {
                let p = g.rng.below(rows + 1);
                return (format!("insert_row_with {} {}", p, show(&fresh(cols))), rows + 1, cols);
            }
            3 | 4 => {
                let p = g.rng.below(cols + 1);
                return (format!("insert_column {} {}", p, fresh(1)[0]), rows, cols + 1);
            }
            5 => {
                let p = g.rng.below(cols + 1);
                return (format!("insert_column_with {} {}", p, show(&fresh(rows))), rows, cols + 1);
            }
            6 if rows > 1 => {
                let p = g.rng.below(rows);
                return (format!("remove_row {}", p), rows - 1, cols);
            }
            7 if cols > 1 => {
                let p = g.rng.below(cols);
                return (format!("remove_column {}", p), rows, cols - 1);
            }
            8 if rows > 1 => {
                let k = g.rng.below(rows);
                return (format!("retain_mut rows=not(single({})) cols=all", k), rows - 1, cols);
            }
            9 if cols > 2 => {
                return (format!("retain_mut rows=all cols=range(1,{})", cols), rows, cols - 1);
            }
            10 => {
                let (r, c) = (g.rng.below(rows), g.rng.below(cols));
                return (format!("set {} {} {}", r, c, fresh(1)[0]), rows, cols);
            }
            11 => {
                // a rejected operation: the matrix (and so the view) must stay as it is
                return match g.rng.below(3) {
                    0 => (format!("remove_row {}", rows + 1), rows, cols),
                    1 => (format!("insert_column {} 7", cols + 2), rows, cols),
                    _ => ("transpose_mut".to_string(), cols, rows),
                };
            }
            _ => continue,
        }
    }
}

/// every question about the live view of the given size
fn gen_live_queries(g: &mut Gen, rows: usize, cols: usize, depth: usize) {
    let via = *g.rng.pick(&["row_major", "reference", "index"]);
    g.op(format!("lscan via={}", via));
    for r in ring(rows) {
        for c in ring(cols) {
            let inside = r < rows && c < cols;
            if inside || g.rng.chance(1, 2) {
                g.count(if inside { "live.lget.in" } else { "live.lget.out" });
                let via = *g.rng.pick(&MGET_VIAS);
                g.op(format!("lget {} {} via={}", r, c, via));
            }
        }
    }
    for r in 0..rows {
        for c in 0..cols {
            let via = if g.rng.chance(1, 2) { "unchecked" } else { "unchecked_mut" };
            g.op(format!("luget {} {} via={}", r, c, via));
            g.count("live.luget");
            if g.rng.chance(1, 3) {
                let via = *g.rng.pick(&["mut", "view", "unchecked"]);
                g.op(format!("lset {} {} via={}", r, c, via));
                g.count("live.lset");
            }
        }
    }
    let k = g.rng.below(depth + 1);
    let (sr, sc) = (g.rng.below(rows), g.rng.below(cols));
    g.op(format!("srcget {} {} {}", k, sr, sc));
    g.count("live.srcget");
}

fn gen_live(g: &mut Gen) {
    let rounds = if g.thorough { 4000 } else { 260 };
    let mut counter: u64 = 100;
    for round in 0..rounds {
        let (mut rows, mut cols) = (g.rng.range(1, 3), g.rng.range(1, 4));
        let mut depth = g.rng.range(1, 3);
        let flags: Vec<String> =
            (0..depth).map(|_| format!("{}:{}", g.rng.below(2), g.rng.below(2))).collect();
        let src = ["owned", "mut", "boxed"][round % 3];
        g.op(format!("@ live {} {} {} src={}", rows, cols, flags.join(","), src));
        g.count(&format!("live.depth={}", depth));
        g.count(&format!("live.src={}", src));
        if round % 4 == 0 {
            gen_live_queries(g, rows, cols, depth);
        }
        let steps = g.rng.range(1, 4);
        for _ in 0..steps {
            match g.rng.below(8) {
                0 if depth < 3 => {
                    let (a, b) = (g.rng.below(2), g.rng.below(2));
                    g.op(format!("wrap {} {}", a, b));
                    depth += 1;
                    g.count("live.wrap");
                }
                1 if depth > 1 => {
                    g.op("unwrap".to_string());
                    depth -= 1;
                    g.count("live.unwrap");
                }
                _ => {
                    let (line, r2, c2) = live_source_op(g, rows, cols, &mut counter);
                    let via = if g.rng.chance(1, 3) { "view" } else { "direct" };
                    let name = line.split(' ').next().unwrap().to_string();
                    g.op(format!("src {} via={}", line, via));
                    g.count(&format!("live.src_op.{}", name));
                    if (r2, c2) != (rows, cols) {
                        g.count("live.source_resized");
                    }
                    rows = r2;
                    cols = c2;
                }
            }
            gen_live_queries(g, rows, cols, depth);
        }
    }
}


/// "Large cases": sides 8–12, 1×70 / 70×1, stacks of depth 4–5, partitions into up to 7×7 parts,
/// live views over larger matrices — so that code that only runs from some size on is executed.
fn gen_large(g: &mut Gen) {
    let sizes = [(8usize, 9usize), (12, 12), (1, 70), (70, 1), (10, 11), (9, 8)];
    for (k, &(rows, cols)) in sizes.iter().enumerate() {
        for leaf in ["matrix", "cmatrix"] {
            // the bare source
            g.op(format!("@ {} {} {}", leaf, rows, cols));
            g.count(&format!("large.leaf.{}", leaf));
            gen_queries(g, rows, cols, "large", true);
            for via in SCAN_VIAS {
                g.op(format!("scan via={}", via));
            }
            // the four reversals
            let (rr, rc) = (k % 2, (k / 2) % 2);
            g.op(format!("@ {} {} {}", leaf, rows, cols));
            let via = *g.rng.pick(&REVERSE_VIAS);
            g.op(format!("mreverse {} {} via={}", 1 - rr, 1 - rc.min(rr), via));
            gen_queries(g, rows, cols, "large.mreverse", true);
            // interior, clipped and overflowing ranges
            for (r, c) in [((1usize, rows.saturating_sub(2)), (1usize, cols.saturating_sub(2))), ((rows / 2, MAX), (0, MAX - 1)), ((0, rows), (cols / 3, cols))] {
                g.op(format!("@ {} {} {}", leaf, rows, cols));
                let via = range_via(g, r, c);
                g.op(format!("mrange {}:{} {}:{} via={}", r.0, r.1, c.0, c.1, via));
                g.count("large.mrange");
                gen_queries(g, clipped(r.0, r.1, rows), clipped(c.0, c.1, cols), "large.mrange", true);
            }
            // a stack of depth 4–5
            g.op(format!("@ {} {} {}", leaf, rows, cols));
            let (mut vr, mut vc) = (rows, cols);
            let depth = 4 + k % 2;
            for d in 0..depth {
                match d % 3 {
                    0 => {
                        let r = (if vr > 3 { 1 } else { 0 }, if d == 0 { MAX } else { vr });
                        let c = (if vc > 3 { 1 } else { 0 }, vc);
                        let via = range_via(g, r, c);
                        g.op(format!("mrange {}:{} {}:{} via={}", r.0, r.1, c.0, c.1, via));
                        vr = clipped(r.0, r.1, vr);
                        vc = clipped(c.0, c.1, vc);
                    }
                    1 => {
                        let via = *g.rng.pick(&REVERSE_VIAS);
                        g.op(format!("mreverse {} {} via={}", (d + k) % 2, 1, via));
                    }
                    _ => g.op("roundtrip".to_string()),
                }
            }
            g.count(&format!("large.stack_depth={}", depth));
            gen_queries(g, vr, vc, "large.stack", true);
        }
    }
    // partitions with many parts
    for (rows, cols, rp, cp) in [
        (12usize, 12usize, vec![1usize, 3, 4, 6, 9, 11], vec![2usize, 3, 5, 8, 10, 12]),
        (12, 12, vec![0, 2, 2, 7, 12], vec![6]),
        (10, 11, vec![5], vec![1, 2, 3, 4, 5, 6]),
        (1, 70, vec![], vec![1, 9, 17, 33, 34, 69]),
        (70, 1, vec![8, 16, 32, 33, 64, 70], vec![]),
        (9, 8, vec![3, 6], vec![2, 4, 6]),
    ] {
        gen_partition_case(g, rows, cols, &rp, &cp, true);
        g.count("large.partition");
    }
    gen_partition_case(g, 12, 12, &[1, 3, 4, 6, 5, 11], &[2], false);
    gen_partition_case(g, 12, 12, &[4, 5, 6, 7, 8, 4], &[], false);
    // live reversal views over larger matrices, resized through source_ref_mut()
    let mut counter: u64 = 10_000;
    for (round, &(rows0, cols0)) in [(8usize, 9usize), (12, 12), (1, 33), (33, 1)].iter().enumerate() {
        let (mut rows, mut cols) = (rows0, cols0);
        let src = ["owned", "mut", "boxed"][round % 3];
        g.op(format!("@ live {} {} 1:0,0:1,1:1 src={}", rows, cols, src));
        g.count("large.live");
        gen_live_queries(g, rows, cols, 3);
        for _ in 0..4 {
            let (line, r2, c2) = live_source_op(g, rows, cols, &mut counter);
            g.op(format!("src {} via=direct", line));
            rows = r2;
            cols = c2;
            gen_live_queries(g, rows, cols, 3);
        }
    }
}


/// name pairs that would matter to code treating dimension names other than as opaque labels
fn name_pairs(g: &mut Gen) -> Vec<(String, String)> {
    let mut v: Vec<(&str, &str)> = vec![
        ("column", "row"), ("row", "column"), ("x", "row"), ("column", "y"), ("rows", "columns"),
        ("columns", "rows"), (EMPTY_NAME, "row"), ("column", EMPTY_NAME), ("r", "c"), ("c", "r"),
        ("row", "rows"), ("i", "j"), ("samples", "features"), ("features", "samples"),
    ];
    let mut out: Vec<(String, String)> = v.drain(..).map(|(a, b)| (a.to_string(), b.to_string())).collect();
    for _ in 0..6 {
        let n = adversarial_names(&mut g.rng, 2);
        out.push((n[0].to_string(), n[1].to_string()));
    }
    out
}

/// "Adversarial names": every tensor→matrix and matrix→tensor wrapper and conversion with the
/// library's own interop names ("row", "column", …), prefixes of one another, the empty name,
/// in unconventional positions, on non-square sizes so that a swap is visible.
fn gen_adversarial_names(g: &mut Gen) {
    let sizes = [(2usize, 3usize), (3, 2), (1, 4), (3, 5)];
    let pairs = name_pairs(g);
    for (k, (n1, n2)) in pairs.iter().enumerate() {
        let (l1, l2) = sizes[k % sizes.len()];
        // a tensor with these names seen as a matrix: directly, through the conversions, and
        // through a TensorAccess in the swapped order
        for (order, vias) in [("direct", &["ref_tensor", "into_matrix", "matrix_from", "from_matrix"][..]), ("swapped", &["ref_tensor", "index_by"][..])] {
            for via in vias {
                g.op(format!("@ tmatrix {}:{},{}:{} order={} via={}", n1, l1, n2, l2, order, via));
                g.count(&format!("names.tmatrix.{}.{}", order, via));
                let (rows, cols) = if order == "direct" { (l1, l2) } else { (l2, l1) };
                gen_queries(g, rows, cols, "names.tmatrix", true);
                if k % 3 == 0 {
                    g.op("mreverse 1 0".to_string());
                    g.op(format!("mrange 0:{} 1:{}", MAX, MAX));
                    gen_queries(g, rows, cols - 1, "names.nested", false);
                }
            }
        }
        // matrix → tensor → matrix with these names, over a matrix and over a view of it
        for leaf in ["matrix", "cmatrix"] {
            g.op(format!("@ {} {} {}", leaf, l1, l2));
            g.op(format!("roundtrip {} {}", n1, n2));
            g.count("names.roundtrip");
            gen_queries(g, l1, l2, "names.roundtrip", true);
            g.op(format!("mreverse 0 1"));
            g.op(format!("roundtrip {} {}", n2, n1));
            gen_queries(g, l1, l2, "names.roundtrip2", false);
            // equal names are refused, the view stays usable
            g.op(format!("roundtrip {} {}", n1, n1));
            g.count("names.roundtrip.equal_names");
            gen_queries(g, l1, l2, "names.after_refusal", false);
        }
    }
}

/// "Degenerate data": the cells hold equal values (all 0, all 7, alternating 0/1), so that code
/// keyed on element equality shows in `eq`, the scans and write-then-scan.
fn gen_degenerate_data(g: &mut Gen) {
    for fill in ["zero", "const", "parity"] {
        for (rows, cols) in [(1usize, 1usize), (2, 3), (3, 3), (4, 2), (9, 8)] {
            for leaf in ["matrix", "cmatrix", "tmatrix"] {
                let start = |g: &mut Gen| {
                    if leaf == "tmatrix" {
                        g.op(format!("@ tmatrix column:{},row:{} order=direct via=ref_tensor fill={}", rows, cols, fill));
                    } else {
                        g.op(format!("@ {} {} {} fill={}", leaf, rows, cols, fill));
                    }
                };
                start(g);
                g.count(&format!("degenerate.{}", fill));
                gen_queries(g, rows, cols, "degenerate", rows * cols <= 12);
                start(g);
                let via = *g.rng.pick(&REVERSE_VIAS);
                g.op(format!("mreverse 1 1 via={}", via));
                g.op(format!("roundtrip column row"));
                gen_queries(g, rows, cols, "degenerate.nested", rows * cols <= 12);
                if rows > 1 {
                    g.op(format!("mrange 1:{} 0:{}", MAX, cols));
                    gen_queries(g, rows - 1, cols, "degenerate.range", false);
                }
            }
        }
    }
}

pub fn gen(g: &mut Gen) {
    gen_adversarial_names(g);
    gen_degenerate_data(g);
    gen_large(g);
    gen_live(g);
    gen_ranges(g);
    gen_nested(g);
    gen_partitions(g);
    gen_part_views(g);
    gen_swaps(g);
    gen_producers_consumers(g);
    let _ = bset(1);
}
