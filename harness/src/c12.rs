//! C12 — matrix views and partitions.  See lean/Driver/C12.lean for the protocol.
//!
//! A composition is kept as a recipe (leaf size + adaptor list) and as a live
//! `Box<dyn MatrixMut<u64>>`; operations that need the leaf afterwards (writes followed by a scan
//! of the matrix) rebuild the recipe over a leaked leaf and reclaim it after the view is gone.

use crate::c16::{bset, MDyn};
use crate::util::*;
use easy_ml::differentiation::RecordMatrix;
use easy_ml::interop::{MatrixRefTensor, TensorRefMatrix};
use easy_ml::matrices::views::{
    IndexRange, MatrixMut, MatrixPart, MatrixRange, MatrixRef, MatrixReverse, MatrixView, Reverse,
};
use easy_ml::matrices::Matrix;

const SENTINEL: u64 = 999_999_999;
const MAX: usize = usize::MAX;

#[derive(Clone, Debug)]
enum Op {
    Range((usize, usize), (usize, usize), String),
    Reverse(bool, bool, String),
    Roundtrip,
}

fn ids(n: usize) -> Vec<u64> {
    (0..n as u64).collect()
}

/// Applies one adaptor to a boxed view over elements of type `T`.
fn apply<T: 'static>(m: Box<dyn MatrixMut<T>>, op: &Op) -> Result<Box<dyn MatrixMut<T>>, String> {
    Ok(match op {
        Op::Range(r, c, via) => match via.as_str() {
            "tuple" => Box::new(MatrixRange::from(m, *r, *c)),
            "array" => Box::new(MatrixRange::from(m, [r.0, r.1], [c.0, c.1])),
            "range" => Box::new(MatrixRange::from(m, r.0..(r.0 + r.1), c.0..(c.0 + c.1))),
            "view" => Box::new(
                MatrixView::from(m).range_owned(IndexRange::new(r.0, r.1), IndexRange::new(c.0, c.1)).source(),
            ),
            _ => Box::new(MatrixRange::from(m, IndexRange::new(r.0, r.1), IndexRange::new(c.0, c.1))),
        },
        Op::Reverse(r, c, via) => {
            let reverse = Reverse { rows: *r, columns: *c };
            match via.as_str() {
                "view" => Box::new(MatrixView::from(m).reverse_owned(reverse).source()),
                _ => Box::new(MatrixReverse::from(m, reverse)),
            }
        }
        Op::Roundtrip => {
            // try on a reference first: with_names consumes its source
            if let Err(e) = TensorRefMatrix::from(&m) {
                return Err(format!("err {}", show_shape(&e.shape())));
            }
            let t = TensorRefMatrix::from(m).ok().unwrap();
            Box::new(MatrixRefTensor::from(t))
        }
    })
}

fn build<T: 'static>(leaf: Box<dyn MatrixMut<T>>, ops: &[Op]) -> Box<dyn MatrixMut<T>> {
    let mut v = leaf;
    for op in ops {
        v = apply(v, op).expect("recipe was accepted before");
    }
    v
}

fn show_opt(v: Option<u64>) -> String {
    match v {
        Some(x) => format!("some({})", x),
        None => "none".into(),
    }
}

fn show_ids(v: &[u64]) -> String {
    if v.is_empty() {
        "-".into()
    } else {
        v.iter().map(|x| x.to_string()).collect::<Vec<_>>().join(",")
    }
}

fn changed(before: &[u64], after: &[u64]) -> String {
    let ch: Vec<String> =
        (0..before.len()).filter(|&i| before[i] != after[i]).map(|i| i.to_string()).collect();
    if ch.is_empty() {
        "none".into()
    } else {
        format!("changed={}", ch.join(","))
    }
}


// ---------------------------------------------------------------------------------------------
// views whose source is changed after construction
// ---------------------------------------------------------------------------------------------

/// An object from which `source_ref_mut()` (repeated) reaches the `Matrix` at the bottom.
trait LiveNode: MatrixMut<u64> {
    fn matrix_mut(&mut self) -> &mut Matrix<u64>;
    fn matrix_ref(&self) -> &Matrix<u64>;
    /// `source_ref()` k times, then the checked getter (`None`: no such inner object)
    fn get_at(&self, k: usize, r: usize, c: usize) -> Option<Option<u64>>;
}

impl LiveNode for Matrix<u64> {
    fn matrix_mut(&mut self) -> &mut Matrix<u64> {
        self
    }
    fn matrix_ref(&self) -> &Matrix<u64> {
        self
    }
    fn get_at(&self, k: usize, r: usize, c: usize) -> Option<Option<u64>> {
        if k == 0 { Some(MatrixRef::try_get_reference(self, r, c).copied()) } else { None }
    }
}

impl LiveNode for &'static mut Matrix<u64> {
    fn matrix_mut(&mut self) -> &mut Matrix<u64> {
        &mut **self
    }
    fn matrix_ref(&self) -> &Matrix<u64> {
        &**self
    }
    fn get_at(&self, k: usize, r: usize, c: usize) -> Option<Option<u64>> {
        if k == 0 { Some(MatrixRef::try_get_reference(self, r, c).copied()) } else { None }
    }
}

impl LiveNode for Box<Matrix<u64>> {
    fn matrix_mut(&mut self) -> &mut Matrix<u64> {
        &mut **self
    }
    fn matrix_ref(&self) -> &Matrix<u64> {
        &**self
    }
    fn get_at(&self, k: usize, r: usize, c: usize) -> Option<Option<u64>> {
        if k == 0 { Some(MatrixRef::try_get_reference(self, r, c).copied()) } else { None }
    }
}

impl<S: LiveNode> LiveNode for MatrixReverse<u64, S> {
    fn matrix_mut(&mut self) -> &mut Matrix<u64> {
        self.source_ref_mut().matrix_mut()
    }
    fn matrix_ref(&self) -> &Matrix<u64> {
        self.source_ref().matrix_ref()
    }
    fn get_at(&self, k: usize, r: usize, c: usize) -> Option<Option<u64>> {
        if k == 0 {
            Some(self.try_get_reference(r, c).copied())
        } else {
            self.source_ref().get_at(k - 1, r, c)
        }
    }
}

type R1<S> = MatrixReverse<u64, S>;

/// zero to three `MatrixReverse`s around a source of type `S`
enum Chain<S> {
    D0(S),
    D1(R1<S>),
    D2(R1<R1<S>>),
    D3(R1<R1<R1<S>>>),
}

impl<S: LiveNode> Chain<S> {
    fn wrap(self, reverse: Reverse) -> Chain<S> {
        match self {
            Chain::D0(s) => Chain::D1(MatrixReverse::from(s, reverse)),
            Chain::D1(s) => Chain::D2(MatrixReverse::from(s, reverse)),
            Chain::D2(s) => Chain::D3(MatrixReverse::from(s, reverse)),
            Chain::D3(_) => panic!("unsupported depth"),
        }
    }
    fn unwrap(self) -> Chain<S> {
        match self {
            Chain::D0(_) => panic!("nothing to unwrap"),
            Chain::D1(s) => Chain::D0(s.source()),
            Chain::D2(s) => Chain::D1(s.source()),
            Chain::D3(s) => Chain::D2(s.source()),
        }
    }
}

enum AnyLive {
    Owned(Chain<Matrix<u64>>),
    MutRef(Chain<&'static mut Matrix<u64>>),
    Boxed(Chain<Box<Matrix<u64>>>),
}

macro_rules! with_chain {
    ($chain:expr, $n:ident => $body:expr) => {
        match $chain {
            Chain::D0($n) => $body,
            Chain::D1($n) => $body,
            Chain::D2($n) => $body,
            Chain::D3($n) => $body,
        }
    };
}

macro_rules! with_node {
    ($any:expr, $n:ident => $body:expr) => {
        match $any {
            AnyLive::Owned(ch) => with_chain!(ch, $n => $body),
            AnyLive::MutRef(ch) => with_chain!(ch, $n => $body),
            AnyLive::Boxed(ch) => with_chain!(ch, $n => $body),
        }
    };
}

impl AnyLive {
    fn map_chain(self, wrap: Option<Reverse>) -> AnyLive {
        match (self, wrap) {
            (AnyLive::Owned(c), Some(r)) => AnyLive::Owned(c.wrap(r)),
            (AnyLive::MutRef(c), Some(r)) => AnyLive::MutRef(c.wrap(r)),
            (AnyLive::Boxed(c), Some(r)) => AnyLive::Boxed(c.wrap(r)),
            (AnyLive::Owned(c), None) => AnyLive::Owned(c.unwrap()),
            (AnyLive::MutRef(c), None) => AnyLive::MutRef(c.unwrap()),
            (AnyLive::Boxed(c), None) => AnyLive::Boxed(c.unwrap()),
        }
    }
}

fn live_size<N: LiveNode>(n: &N) -> String {
    format!("size={}x{}", n.view_rows(), n.view_columns())
}

fn live_step<N: LiveNode>(n: &mut N, toks: &[&str], via: &str) -> String {
    match toks[0] {
        "src" => {
            // `source_ref_mut()` … down to the matrix (optionally entering through a MatrixView)
            let r = if via == "view" {
                let mut view = MatrixView::from(&mut *n);
                crate::c11::apply(view.source_ref_mut().matrix_mut(), &toks[1..])
            } else {
                crate::c11::apply(n.matrix_mut(), &toks[1..])
            };
            match r {
                None => "bad-op".into(),
                Some(Ok(())) => format!("ok {}", live_size(n)),
                Some(Err(k)) => format!("{} {}", panic_str(k), live_size(n)),
            }
        }
        "lget" | "luget" => {
            let (r, c): (usize, usize) = (toks[1].parse().unwrap(), toks[2].parse().unwrap());
            let unchecked = toks[0] == "luget";
            let res = catch(|| {
                if unchecked {
                    Some(unsafe {
                        if via == "unchecked_mut" {
                            *n.get_reference_unchecked_mut(r, c)
                        } else {
                            *n.get_reference_unchecked(r, c)
                        }
                    })
                } else {
                    match via {
                        "mut" => n.try_get_reference_mut(r, c).map(|x| *x),
                        "view" => MatrixView::from(&*n).try_get_reference(r, c).copied(),
                        "view_mut" => MatrixView::from(&mut *n).try_get_reference_mut(r, c).map(|x| *x),
                        _ => n.try_get_reference(r, c).copied(),
                    }
                }
            });
            answer(res, |o| if unchecked { o.unwrap().to_string() } else { show_opt(o) })
        }
        "lscan" => {
            let (rows, cols) = (n.view_rows(), n.view_columns());
            let res = catch(|| -> Vec<u64> {
                let view = MatrixView::from(&*n);
                match via {
                    "reference" => view.row_major_reference_iter().copied().collect(),
                    "index" => {
                        let mut out = vec![];
                        for r in 0..rows {
                            for c in 0..cols {
                                out.push(view.get(r, c));
                            }
                        }
                        out
                    }
                    _ => view.row_major_iter().collect(),
                }
            });
            answer(res, |v| format!("{}x{}:{}", rows, cols, show_ids(&v)))
        }
        "lset" => {
            let (r, c): (usize, usize) = (toks[1].parse().unwrap(), toks[2].parse().unwrap());
            let before: Vec<u64> = n.matrix_ref().row_major_iter().collect();
            let res = catch(|| match via {
                "unchecked" => unsafe {
                    // only emitted for indexes inside the view
                    *n.get_reference_unchecked_mut(r, c) = SENTINEL;
                },
                "view" => {
                    if let Some(x) = MatrixView::from(&mut *n).try_get_reference_mut(r, c) {
                        *x = SENTINEL;
                    }
                }
                _ => {
                    if let Some(x) = n.try_get_reference_mut(r, c) {
                        *x = SENTINEL;
                    }
                }
            });
            let after: Vec<u64> = n.matrix_ref().row_major_iter().collect();
            // put the old elements back: the model does not record this write
            let cols = n.matrix_ref().columns();
            for (i, (b, a)) in before.iter().zip(after.iter()).enumerate() {
                if b != a {
                    n.matrix_mut().set(i / cols, i % cols, *b);
                }
            }
            answer(res, |_| changed(&before, &after))
        }
        "srcget" => {
            let k: usize = toks[1].parse().unwrap();
            let (r, c): (usize, usize) = (toks[2].parse().unwrap(), toks[3].parse().unwrap());
            match catch(|| n.get_at(k, r, c)) {
                Ok(Some(o)) => show_opt(o),
                Ok(None) => "bad-op".into(),
                Err(k) => panic_str(k),
            }
        }
        _ => "bad-op".into(),
    }
}

fn new_live(rows: usize, cols: usize, flags: &[(bool, bool)], src: &str) -> AnyLive {
    let m = Matrix::from_flat_row_major((rows, cols), (1..=(rows * cols) as u64).collect());
    let mut any = match src {
        "mut" => AnyLive::MutRef(Chain::D0(Box::leak(Box::new(m)))),
        "boxed" => AnyLive::Boxed(Chain::D0(Box::new(m))),
        _ => AnyLive::Owned(Chain::D0(m)),
    };
    for (r, c) in flags {
        any = any.map_chain(Some(Reverse { rows: *r, columns: *c }));
    }
    any
}

pub struct Runner {
    live: Option<AnyLive>,
    leaf: (usize, usize),
    ops: Vec<Op>,
    view: Option<MDyn>,
    mapped: bool,
    parts: Vec<MatrixView<u64, MatrixPart<'static, u64>>>,
    part_matrix: *mut Matrix<u64>,
    partition_args: Option<(usize, usize, Vec<usize>, Vec<usize>, String)>,
}

fn answer<T>(r: Result<T, PanicKind>, f: impl FnOnce(T) -> String) -> String {
    match r {
        Ok(v) => f(v),
        Err(k) => panic_str(k),
    }
}

impl Runner {
    pub fn new() -> Runner {
        Runner {
            live: None,
            leaf: (0, 0),
            ops: vec![],
            view: None,
            mapped: false,
            parts: vec![],
            part_matrix: std::ptr::null_mut(),
            partition_args: None,
        }
    }

    fn drop_parts(&mut self) {
        self.parts.clear();
        if !self.part_matrix.is_null() {
            // the parts (the only borrowers) are gone: reclaim the leaked matrix
            unsafe { drop(Box::from_raw(self.part_matrix)) };
            self.part_matrix = std::ptr::null_mut();
        }
    }

    fn make_parts(&mut self) -> Result<(), PanicKind> {
        self.drop_parts();
        let (r, c, rp, cp, via) = self.partition_args.clone().unwrap();
        let ptr: *mut Matrix<u64> = Box::into_raw(Box::new(Matrix::from_flat_row_major((r, c), ids(r * c))));
        self.part_matrix = ptr;
        let m: &'static mut Matrix<u64> = unsafe { &mut *ptr };
        let res = catch(move || match via.as_str() {
            "quadrants" if rp.len() == 1 && cp.len() == 1 => {
                let q = m.partition_quadrants(rp[0], cp[0]);
                vec![q.top_left, q.top_right, q.bottom_left, q.bottom_right]
            }
            _ => m.partition(&rp, &cp),
        });
        match res {
            Ok(parts) => {
                self.parts = parts;
                Ok(())
            }
            Err(k) => {
                self.drop_parts();
                Err(k)
            }
        }
    }

    pub fn step(&mut self, toks: &[&str]) -> String {
        if toks.is_empty() {
            return "bad-op".into();
        }
        let via = opt_arg("via", toks).unwrap_or("").to_string();
        if toks[0] == "@" {
            self.view = None;
            self.ops.clear();
            self.mapped = false;
            self.drop_parts();
            self.partition_args = None;
            self.live = None;
            return match toks[1] {
                "live" => {
                    let (r, c): (usize, usize) = (toks[2].parse().unwrap(), toks[3].parse().unwrap());
                    let flags: Vec<(bool, bool)> = split_comma(toks[4])
                        .iter()
                        .map(|p| {
                            let (a, b) = p.split_once(':').unwrap();
                            (a == "1", b == "1")
                        })
                        .collect();
                    let src = opt_arg("src", toks).unwrap_or("owned");
                    let mut any = new_live(r, c, &flags, src);
                    let s = with_node!(&mut any, n => live_size(n));
                    self.live = Some(any);
                    format!("ok {}", s)
                }
                "matrix" => {
                    let (r, c): (usize, usize) = (toks[2].parse().unwrap(), toks[3].parse().unwrap());
                    self.leaf = (r, c);
                    self.view = Some(Box::new(Matrix::from_flat_row_major((r, c), ids(r * c))));
                    format!("ok size={}x{}", r, c)
                }
                "partition" => {
                    let (r, c): (usize, usize) = (toks[2].parse().unwrap(), toks[3].parse().unwrap());
                    self.partition_args = Some((r, c, parse_usizes(toks[4]), parse_usizes(toks[5]), via));
                    match self.make_parts() {
                        Ok(()) => format!(
                            "ok sizes={}",
                            self.parts.iter().map(|p| format!("{}x{}", p.rows(), p.columns())).collect::<Vec<_>>().join(";")
                        ),
                        Err(k) => panic_str(k),
                    }
                }
                _ => "bad-op".into(),
            };
        }
        match toks[0] {
            "src" | "lget" | "luget" | "lscan" | "lset" | "srcget" => match self.live.as_mut() {
                None => "no-view".into(),
                Some(any) => with_node!(any, n => live_step(n, toks, &via)),
            },
            "wrap" | "unwrap" => match self.live.take() {
                None => "no-view".into(),
                Some(any) => {
                    let wrap = if toks[0] == "wrap" {
                        Some(Reverse { rows: toks[1] == "1", columns: toks[2] == "1" })
                    } else {
                        None
                    };
                    let mut any = any.map_chain(wrap);
                    let s = with_node!(&mut any, n => live_size(n));
                    self.live = Some(any);
                    format!("ok {}", s)
                }
            },
            "mrange" | "mreverse" | "roundtrip" => {
                let op = match toks[0] {
                    "mrange" => {
                        let p = |s: &str| -> (usize, usize) {
                            let (a, b) = s.split_once(':').unwrap();
                            (a.parse().unwrap(), b.parse().unwrap())
                        };
                        Op::Range(p(toks[1]), p(toks[2]), via)
                    }
                    "mreverse" => Op::Reverse(toks[1] == "1", toks[2] == "1", via),
                    _ => Op::Roundtrip,
                };
                let v = match self.view.take() {
                    Some(v) => v,
                    None => return "no-view".into(),
                };
                let r = catch(|| apply(v, &op));
                match r {
                    Err(k) => panic_str(k),
                    Ok(Err(e)) => {
                        // the refused source was consumed by the attempt on a reference only
                        let leaf: MDyn =
                            Box::new(Matrix::from_flat_row_major(self.leaf, ids(self.leaf.0 * self.leaf.1)));
                        self.view = Some(build(leaf, &self.ops));
                        e
                    }
                    Ok(Ok(w)) => {
                        self.ops.push(op);
                        let s = format!("ok size={}x{}", w.view_rows(), w.view_columns());
                        self.view = Some(w);
                        s
                    }
                }
            }
            "mmap" => match &self.view {
                // MatrixMap is crate-private: it is exercised by `scan via=display`
                Some(v) => {
                    self.mapped = true;
                    format!("ok size={}x{}", v.view_rows(), v.view_columns())
                }
                None => "no-view".into(),
            },
            "mget" | "uget" => {
                let (r, c): (usize, usize) = (toks[1].parse().unwrap(), toks[2].parse().unwrap());
                let unchecked = toks[0] == "uget";
                match self.view.as_mut() {
                    None => "no-view".into(),
                    Some(m) => {
                        let res = catch(|| {
                            if unchecked {
                                // only emitted for indexes inside the view
                                Some(unsafe {
                                    if via == "unchecked_mut" {
                                        *m.get_reference_unchecked_mut(r, c)
                                    } else {
                                        *m.get_reference_unchecked(r, c)
                                    }
                                })
                            } else {
                                match via.as_str() {
                                    "mut" => m.try_get_reference_mut(r, c).map(|x| *x),
                                    "view" => MatrixView::from(&*m).try_get_reference(r, c).copied(),
                                    "view_mut" => MatrixView::from(&mut *m).try_get_reference_mut(r, c).map(|x| *x),
                                    _ => m.try_get_reference(r, c).copied(),
                                }
                            }
                        });
                        answer(res, |o| if unchecked { o.unwrap().to_string() } else { show_opt(o) })
                    }
                }
            }
            "scan" => match self.view.as_ref() {
                None => "no-view".into(),
                Some(m) => {
                    let (rows, cols) = (m.view_rows(), m.view_columns());
                    let leaf = self.leaf;
                    let ops = self.ops.clone();
                    let res = catch(|| -> Vec<u64> {
                        let view = MatrixView::from(&*m);
                        match via.as_str() {
                            "column_major" => {
                                let cm: Vec<u64> = view.column_major_iter().collect();
                                let mut rm = vec![0; cm.len()];
                                for (k, x) in cm.iter().enumerate() {
                                    let (c, r) = (k / rows.max(1), k % rows.max(1));
                                    rm[r * cols + c] = *x;
                                }
                                rm
                            }
                            "reference" => view.row_major_reference_iter().copied().collect(),
                            // row_iter requires the row to have a first element (C09's business)
                            "rows" if cols > 0 => (0..rows).flat_map(|r| view.row_iter(r).collect::<Vec<_>>()).collect(),
                            "rows" => vec![],
                            "index" => {
                                let mut out = vec![];
                                for r in 0..rows {
                                    for c in 0..cols {
                                        out.push(view.get(r, c));
                                    }
                                }
                                out
                            }
                            "display" => {
                                // Display of a RecordMatrix goes through MatrixMap
                                let data: Vec<(f64, usize)> = (0..leaf.0 * leaf.1).map(|i| (i as f64, 0usize)).collect();
                                let lf: Box<dyn MatrixMut<(f64, usize)>> =
                                    Box::new(Matrix::from_flat_row_major(leaf, data));
                                let v = build(lf, &ops);
                                let rm: RecordMatrix<f64, _> = RecordMatrix::from_existing(None, MatrixView::from(v));
                                let text = format!("{}", rm);
                                if std::env::var("EMLV_DEBUG").is_ok() { eprintln!("DISPLAY {:?}", text); }
                                text.replace(['[', ']'], " ")
                                    .split([',', '\n'])
                                    .map(|t| t.trim())
                                    .filter(|t| !t.is_empty())
                                    .map(|t| t.parse::<f64>().expect("number") as u64)
                                    .collect()
                            }
                            _ => view.row_major_iter().collect(),
                        }
                    });
                    answer(res, |v| format!("{}x{}:{}", rows, cols, show_ids(&v)))
                }
            },
            "set" => {
                let (r, c): (usize, usize) = (toks[1].parse().unwrap(), toks[2].parse().unwrap());
                let n = self.leaf.0 * self.leaf.1;
                let ptr: *mut Matrix<u64> = Box::into_raw(Box::new(Matrix::from_flat_row_major(self.leaf, ids(n))));
                let leaf: MDyn = Box::new(unsafe { &mut *ptr });
                let ops = self.ops.clone();
                let res = catch(move || {
                    let mut v = build(leaf, &ops);
                    match via.as_str() {
                        "view" => {
                            if let Some(x) = MatrixView::from(&mut v).try_get_reference_mut(r, c) {
                                *x = SENTINEL;
                            }
                        }
                        "unchecked" => unsafe {
                            // only emitted for indexes inside the view
                            *v.get_reference_unchecked_mut(r, c) = SENTINEL;
                        },
                        _ => {
                            if let Some(x) = v.try_get_reference_mut(r, c) {
                                *x = SENTINEL;
                            }
                        }
                    }
                });
                // the view is gone (dropped or unwound): read the leaf back and free it
                let after: Vec<u64> = unsafe { (*ptr).row_major_iter().collect() };
                unsafe { drop(Box::from_raw(ptr)) };
                answer(res, |_| changed(&ids(n), &after))
            }
            "partget" => {
                let k: usize = toks[1].parse().unwrap();
                let (r, c): (usize, usize) = (toks[2].parse().unwrap(), toks[3].parse().unwrap());
                match self.parts.get_mut(k) {
                    None => "no-part".into(),
                    Some(p) => {
                        let res = catch(|| match via.as_str() {
                            "mut" => p.try_get_reference_mut(r, c).map(|x| *x),
                            "source" => p.source_ref().try_get_reference(r, c).copied(),
                            "source_mut" => p.source_ref_mut().try_get_reference_mut(r, c).map(|x| *x),
                            "unchecked" => Some(unsafe { *p.source_ref().get_reference_unchecked(r, c) }),
                            _ => p.try_get_reference(r, c).copied(),
                        });
                        answer(res, show_opt)
                    }
                }
            }
            "partscan" => {
                let res = catch(|| {
                    self.parts
                        .iter()
                        .map(|p| {
                            let v: Vec<u64> = match via.as_str() {
                                "reference" => p.row_major_reference_iter().copied().collect(),
                                _ => p.row_major_iter().collect(),
                            };
                            format!("{}x{}:{}", p.rows(), p.columns(), show_ids(&v))
                        })
                        .collect::<Vec<_>>()
                        .join(";")
                });
                answer(res, |s| s)
            }
            "partset" => {
                let k: usize = toks[1].parse().unwrap();
                let (r, c): (usize, usize) = (toks[2].parse().unwrap(), toks[3].parse().unwrap());
                if k >= self.parts.len() {
                    return "no-part".into();
                }
                let n = {
                    let a = self.partition_args.as_ref().unwrap();
                    a.0 * a.1
                };
                let parts = &mut self.parts;
                let res = catch(|| {
                    let p = &mut parts[k];
                    match via.as_str() {
                        "set" => {
                            if r < p.rows() && c < p.columns() {
                                p.set(r, c, SENTINEL);
                            }
                        }
                        "map_mut" => {
                            if r < p.rows() && c < p.columns() {
                                p.map_mut_with_index(|x, i, j| if (i, j) == (r, c) { SENTINEL } else { x });
                            }
                        }
                        _ => {
                            if let Some(x) = p.try_get_reference_mut(r, c) {
                                *x = SENTINEL;
                            }
                        }
                    }
                });
                // drop every part, then look at the matrix itself
                self.parts.clear();
                let after: Vec<u64> = unsafe { (*self.part_matrix).row_major_iter().collect() };
                let ans = answer(res, |_| changed(&ids(n), &after));
                // fresh parts for the following lines of the case
                let _ = self.make_parts();
                ans
            }
            _ => "bad-op".into(),
        }
    }
}

impl Drop for Runner {
    fn drop(&mut self) {
        self.drop_parts();
    }
}

// ---------------------------------------------------------------------------------------------
// generation
// ---------------------------------------------------------------------------------------------

const MGET_VIAS: [&str; 4] = ["ref", "mut", "view", "view_mut"];
const SCAN_VIAS: [&str; 6] = ["row_major", "column_major", "reference", "rows", "index", "display"];
const RANGE_VIAS: [&str; 5] = ["indexrange", "tuple", "array", "range", "view"];

fn ring(len: usize) -> Vec<usize> {
    let mut v = vec![0, len.saturating_sub(1), len, len + 1, MAX - 1, MAX];
    v.sort();
    v.dedup();
    v
}

/// start / length values of the design: 0..size+2, usize::MAX−1, usize::MAX
fn range_values(size: usize) -> Vec<usize> {
    let mut v: Vec<usize> = (0..=size + 2).collect();
    v.push(MAX - 1);
    v.push(MAX);
    v
}

fn clipped(start: usize, len: usize, size: usize) -> usize {
    start.saturating_add(len).min(size).saturating_sub(start)
}

fn range_via(g: &mut Gen, r: (usize, usize), c: (usize, usize)) -> &'static str {
    let v = *g.rng.pick(&RANGE_VIAS);
    if v == "range" && (r.0.checked_add(r.1).is_none() || c.0.checked_add(c.1).is_none()) {
        "indexrange"
    } else {
        v
    }
}

/// questions about the current view of the given size
fn gen_queries(g: &mut Gen, rows: usize, cols: usize, tag: &str, full: bool) {
    let via = *g.rng.pick(&SCAN_VIAS);
    g.op(format!("scan via={}", via));
    g.count(&format!("scan.{}", via));
    if rows == 0 || cols == 0 {
        g.count("view.empty");
    }
    let rs = if full { ring(rows) } else { vec![*g.rng.pick(&ring(rows)), rows.saturating_sub(1)] };
    let cs = if full { ring(cols) } else { vec![*g.rng.pick(&ring(cols)), 0] };
    for &r in &rs {
        for &c in &cs {
            let inside = r < rows && c < cols;
            g.count(&format!("mget.{}.{}", tag, if inside { "in" } else { "out" }));
            if !inside && (rows == 0 || cols == 0) {
                g.count("mget.out_of_range_on_empty_view");
            }
            let via = *g.rng.pick(&MGET_VIAS);
            g.op(format!("mget {} {} via={}", r, c, via));
        }
    }
    // every cell: unchecked access, and a write followed by a scan of the leaf for a few
    for r in 0..rows {
        for c in 0..cols {
            if full || g.rng.chance(1, 3) {
                let via = if g.rng.chance(1, 2) { "unchecked" } else { "unchecked_mut" };
                g.op(format!("uget {} {} via={}", r, c, via));
                g.count("uget");
            }
            if g.rng.chance(1, if full { 2 } else { 6 }) {
                let via = *g.rng.pick(&["mut", "view", "unchecked"]);
                g.op(format!("set {} {} via={}", r, c, via));
                g.count("set.in");
            }
        }
    }
    let (r, c) = (*g.rng.pick(&ring(rows)), *g.rng.pick(&ring(cols)));
    if !(r < rows && c < cols) {
        g.op(format!("set {} {} via=mut", r, c));
        g.count("set.out");
    }
}

fn sizes(g: &Gen) -> Vec<(usize, usize)> {
    if g.thorough {
        let mut v = vec![];
        for r in 1..=4 {
            for c in 1..=5 {
                v.push((r, c));
            }
        }
        v
    } else {
        vec![(1, 1), (1, 3), (2, 2), (3, 2), (4, 5)]
    }
}

fn gen_ranges(g: &mut Gen) {
    for (rows, cols) in sizes(g) {
        // every row range with a few column ranges, and vice versa
        let col_choices = [(0usize, cols), (1, MAX), (cols, 1)];
        let row_choices = [(0usize, rows), (1, MAX), (rows + 1, 0)];
        let mut cases: Vec<((usize, usize), (usize, usize))> = vec![];
        for s in range_values(rows) {
            for l in range_values(rows) {
                for cc in col_choices {
                    cases.push(((s, l), cc));
                }
            }
        }
        for s in range_values(cols) {
            for l in range_values(cols) {
                for rc in row_choices {
                    cases.push((rc, (s, l)));
                }
            }
        }
        for (k, (r, c)) in cases.into_iter().enumerate() {
            if !g.thorough && k % 3 != 0 && (rows, cols) == (4, 5) {
                continue;
            }
            g.op(format!("@ matrix {} {}", rows, cols));
            let via = range_via(g, r, c);
            g.op(format!("mrange {}:{} {}:{} via={}", r.0, r.1, c.0, c.1, via));
            g.count("mrange");
            if r.0 >= rows || c.0 >= cols {
                g.count("mrange.fully_out_of_range");
            } else if r.0.saturating_add(r.1) > rows || c.0.saturating_add(c.1) > cols {
                g.count("mrange.clipped");
            }
            if r.0.checked_add(r.1).is_none() || c.0.checked_add(c.1).is_none() {
                g.count("mrange.start+length_overflows");
            }
            let (vr, vc) = (clipped(r.0, r.1, rows), clipped(c.0, c.1, cols));
            gen_queries(g, vr, vc, "mrange", false);
        }
        // the four reversal settings
        for rr in 0..2 {
            for rc in 0..2 {
                g.op(format!("@ matrix {} {}", rows, cols));
                g.op(format!("mreverse {} {} via={}", rr, rc, if rr == rc { "view" } else { "direct" }));
                g.count("mreverse");
                gen_queries(g, rows, cols, "mreverse", true);
                g.op("mmap".to_string());
                g.op("scan via=display".to_string());
            }
        }
        g.op(format!("@ matrix {} {}", rows, cols));
        gen_queries(g, rows, cols, "matrix", true);
        g.op("roundtrip".to_string());
        g.count("roundtrip");
        gen_queries(g, rows, cols, "roundtrip", true);
    }
}

fn gen_nested(g: &mut Gen) {
    let rounds = if g.thorough { 20000 } else { 800 };
    for _ in 0..rounds {
        let (rows, cols) = (g.rng.range(1, 4), g.rng.range(1, 5));
        g.op(format!("@ matrix {} {}", rows, cols));
        let (mut vr, mut vc) = (rows, cols);
        let depth = g.rng.range(1, 3);
        let mut kinds = vec![];
        for _ in 0..depth {
            match g.rng.below(5) {
                0 | 1 => {
                    let pick = |g: &mut Gen, size: usize| -> (usize, usize) {
                        match g.rng.below(4) {
                            0 => (*g.rng.pick(&range_values(size)), *g.rng.pick(&range_values(size))),
                            1 => (g.rng.below(size + 1), MAX),
                            _ => {
                                let s = g.rng.below(size + 1);
                                (s, g.rng.range(0, size + 1 - s))
                            }
                        }
                    };
                    let (r, c) = (pick(g, vr), pick(g, vc));
                    let via = range_via(g, r, c);
                    g.op(format!("mrange {}:{} {}:{} via={}", r.0, r.1, c.0, c.1, via));
                    vr = clipped(r.0, r.1, vr);
                    vc = clipped(c.0, c.1, vc);
                    kinds.push("range");
                }
                2 | 3 => {
                    let (a, b) = (g.rng.below(2), g.rng.below(2));
                    g.op(format!("mreverse {} {}", a, b));
                    kinds.push("reverse");
                }
                _ => {
                    g.op("roundtrip".to_string());
                    if vr == 0 || vc == 0 {
                        g.count("roundtrip.refused_on_empty_view");
                    }
                    kinds.push("roundtrip");
                }
            }
        }
        g.count(&format!("nested.depth={}", depth));
        g.count(&format!("nested.{}", kinds.join("_of_")));
        if g.rng.chance(1, 4) {
            g.op("mmap".to_string());
        }
        gen_queries(g, vr, vc, "nested", false);
    }
}

fn sublists(n: usize) -> Vec<Vec<usize>> {
    // all ascending lists over 0..=n (every subset, sorted)
    let mut out = vec![];
    for mask in 0u32..(1 << (n + 1)) {
        out.push((0..=n).filter(|i| mask & (1 << i) != 0).collect());
    }
    out
}

fn gen_partition_case(g: &mut Gen, rows: usize, cols: usize, rp: &[usize], cp: &[usize], valid: bool) {
    let via = if rp.len() == 1 && cp.len() == 1 && g.rng.chance(1, 2) { "quadrants" } else { "partition" };
    g.op(format!("@ partition {} {} {} {} via={}", rows, cols, show_usizes(rp), show_usizes(cp), via));
    g.count(if valid { "partition.accepted" } else { "partition.rejected" });
    if !valid {
        return;
    }
    let scan_via = *g.rng.pick(&["owned", "reference"]);
    g.op(format!("partscan via={}", scan_via));
    let mut rb = rp.to_vec();
    rb.push(rows);
    let mut cb = cp.to_vec();
    cb.push(cols);
    let nparts = rb.len() * cb.len();
    g.count_n("partition.parts", nparts as u64);
    for k in 0..nparts {
        let (ri, ci) = (k / cb.len(), k % cb.len());
        let pr = rb[ri] - if ri == 0 { 0 } else { rb[ri - 1] };
        let pc = cb[ci] - if ci == 0 { 0 } else { cb[ci - 1] };
        let (pr, pc) = if pr == 0 || pc == 0 { (0, 0) } else { (pr, pc) };
        if pr == 0 {
            g.count("partition.empty_part");
        }
        for r in ring(pr) {
            for c in ring(pc) {
                if r < pr && c < pc || g.rng.chance(1, 3) {
                    let via = if r < pr && c < pc && g.rng.chance(1, 4) {
                        "unchecked"
                    } else {
                        *g.rng.pick(&["view", "mut", "source", "source_mut"])
                    };
                    g.op(format!("partget {} {} {} via={}", k, r, c, via));
                    g.count(if r < pr && c < pc { "partget.in" } else { "partget.out" });
                }
            }
        }
        // a write through this part, then a scan of the whole matrix
        if pr > 0 {
            let (r, c) = (g.rng.below(pr), g.rng.below(pc));
            let via = *g.rng.pick(&["mut", "set", "map_mut"]);
            g.op(format!("partset {} {} {} via={}", k, r, c, via));
            g.count("partset.in");
        }
        if g.rng.chance(1, 2) {
            g.op(format!("partset {} {} {} via=mut", k, pr, 0));
            g.count("partset.out");
        }
    }
}

fn gen_partitions(g: &mut Gen) {
    // exhaustive ascending lists for small matrices
    let small: Vec<(usize, usize)> = if g.thorough { vec![(1, 1), (2, 2), (3, 2), (2, 3), (3, 3)] } else { vec![(1, 1), (2, 2), (3, 2)] };
    for (rows, cols) in small {
        for rp in sublists(rows) {
            for cp in sublists(cols) {
                gen_partition_case(g, rows, cols, &rp, &cp, true);
            }
        }
    }
    // sampled ascending lists for the larger sizes
    let rounds = if g.thorough { 4000 } else { 150 };
    for _ in 0..rounds {
        let (rows, cols) = (g.rng.range(1, 4), g.rng.range(1, 5));
        let rps = sublists(rows);
        let cps = sublists(cols);
        let rp = g.rng.pick(&rps).clone();
        let cp = g.rng.pick(&cps).clone();
        gen_partition_case(g, rows, cols, &rp, &cp, true);
    }
    // repeated boundaries: accepted when they do not repeat the first one
    for (rp, cp, valid) in [
        (vec![2usize, 3, 3], vec![], true),
        (vec![1, 2, 2, 3], vec![0, 1, 1], true),
        (vec![0, 1, 1, 1, 4], vec![2, 5, 5], true),
        (vec![3, 3], vec![], false),
        (vec![], vec![0, 0], false),
        (vec![1, 3, 2], vec![], false),
        (vec![], vec![1, 4, 2, 5], false),
        (vec![2, 1], vec![], false),
        (vec![5], vec![], false),
        (vec![], vec![6], false),
        (vec![0, MAX], vec![], false),
        (vec![MAX], vec![MAX], false),
        (vec![1, 2], vec![3, 2], false),
        (vec![1, 3, 2], vec![1, 4, 2], false),
    ] {
        gen_partition_case(g, 4, 5, &rp, &cp, valid);
    }
    // random, mostly malformed lists
    let rounds = if g.thorough { 4000 } else { 150 };
    for _ in 0..rounds {
        let (rows, cols) = (g.rng.range(1, 4), g.rng.range(1, 5));
        let mk = |g: &mut Gen, n: usize| -> Vec<usize> {
            let len = g.rng.below(4);
            (0..len).map(|_| g.rng.below(n + 2)).collect()
        };
        let (rp, cp) = (mk(g, rows), mk(g, cols));
        let ok = |l: &[usize], n: usize| {
            l.iter().all(|&x| x <= n) && l.iter().skip(1).all(|&x| x > l[0]) && l.windows(2).all(|w| w[0] <= w[1])
        };
        let valid = ok(&rp, rows) && ok(&cp, cols);
        gen_partition_case(g, rows, cols, &rp, &cp, valid);
    }
}


/// a source operation that is (mostly) valid at the given size; returns the line and the size after
fn live_source_op(g: &mut Gen, rows: usize, cols: usize, counter: &mut u64) -> (String, usize, usize) {
    let mut fresh = |n: usize| -> Vec<u64> {
        (0..n)
            .map(|_| {
                *counter += 1;
                *counter
            })
            .collect()
    };
    let show = |v: &[u64]| v.iter().map(|x| x.to_string()).collect::<Vec<_>>().join(",");
    loop {
        match g.rng.below(12) {
            0 | 1 => {
                let p = g.rng.below(rows + 1);
                return (format!("insert_row {} {}", p, fresh(1)[0]), rows + 1, cols);
            }
            2 => {
                let p = g.rng.below(rows + 1);
                return (format!("insert_row_with {} {}", p, show(&fresh(cols))), rows + 1, cols);
            }
            3 | 4 => {
                let p = g.rng.below(cols + 1);
                return (format!("insert_column {} {}", p, fresh(1)[0]), rows, cols + 1);
            }
            5 => {
                let p = g.rng.below(cols + 1);
                return (format!("insert_column_with {} {}", p, show(&fresh(rows))), rows, cols + 1);
            }
            6 if rows > 1 => {
                let p = g.rng.below(rows);
                return (format!("remove_row {}", p), rows - 1, cols);
            }
            7 if cols > 1 => {
                let p = g.rng.below(cols);
                return (format!("remove_column {}", p), rows, cols - 1);
            }
            8 if rows > 1 => {
                let k = g.rng.below(rows);
                return (format!("retain_mut rows=not(single({})) cols=all", k), rows - 1, cols);
            }
            9 if cols > 2 => {
                return (format!("retain_mut rows=all cols=range(1,{})", cols), rows, cols - 1);
            }
            10 => {
                let (r, c) = (g.rng.below(rows), g.rng.below(cols));
                return (format!("set {} {} {}", r, c, fresh(1)[0]), rows, cols);
            }
            11 => {
                // a rejected operation: the matrix (and so the view) must stay as it is
                return match g.rng.below(3) {
                    0 => (format!("remove_row {}", rows + 1), rows, cols),
                    1 => (format!("insert_column {} 7", cols + 2), rows, cols),
                    _ => ("transpose_mut".to_string(), cols, rows),
                };
            }
            _ => continue,
        }
    }
}

/// every question about the live view of the given size
fn gen_live_queries(g: &mut Gen, rows: usize, cols: usize, depth: usize) {
    let via = *g.rng.pick(&["row_major", "reference", "index"]);
    g.op(format!("lscan via={}", via));
    for r in ring(rows) {
        for c in ring(cols) {
            let inside = r < rows && c < cols;
            if inside || g.rng.chance(1, 2) {
                g.count(if inside { "live.lget.in" } else { "live.lget.out" });
                let via = *g.rng.pick(&MGET_VIAS);
                g.op(format!("lget {} {} via={}", r, c, via));
            }
        }
    }
    for r in 0..rows {
        for c in 0..cols {
            let via = if g.rng.chance(1, 2) { "unchecked" } else { "unchecked_mut" };
            g.op(format!("luget {} {} via={}", r, c, via));
            g.count("live.luget");
            if g.rng.chance(1, 3) {
                let via = *g.rng.pick(&["mut", "view", "unchecked"]);
                g.op(format!("lset {} {} via={}", r, c, via));
                g.count("live.lset");
            }
        }
    }
    let k = g.rng.below(depth + 1);
    let (sr, sc) = (g.rng.below(rows), g.rng.below(cols));
    g.op(format!("srcget {} {} {}", k, sr, sc));
    g.count("live.srcget");
}

fn gen_live(g: &mut Gen) {
    let rounds = if g.thorough { 4000 } else { 260 };
    let mut counter: u64 = 100;
    for round in 0..rounds {
        let (mut rows, mut cols) = (g.rng.range(1, 3), g.rng.range(1, 4));
        let mut depth = g.rng.range(1, 3);
        let flags: Vec<String> =
            (0..depth).map(|_| format!("{}:{}", g.rng.below(2), g.rng.below(2))).collect();
        let src = ["owned", "mut", "boxed"][round % 3];
        g.op(format!("@ live {} {} {} src={}", rows, cols, flags.join(","), src));
        g.count(&format!("live.depth={}", depth));
        g.count(&format!("live.src={}", src));
        if round % 4 == 0 {
            gen_live_queries(g, rows, cols, depth);
        }
        let steps = g.rng.range(1, 4);
        for _ in 0..steps {
            match g.rng.below(8) {
                0 if depth < 3 => {
                    let (a, b) = (g.rng.below(2), g.rng.below(2));
                    g.op(format!("wrap {} {}", a, b));
                    depth += 1;
                    g.count("live.wrap");
                }
                1 if depth > 1 => {
                    g.op("unwrap".to_string());
                    depth -= 1;
                    g.count("live.unwrap");
                }
                _ => {
                    let (line, r2, c2) = live_source_op(g, rows, cols, &mut counter);
                    let via = if g.rng.chance(1, 3) { "view" } else { "direct" };
                    let name = line.split(' ').next().unwrap().to_string();
                    g.op(format!("src {} via={}", line, via));
                    g.count(&format!("live.src_op.{}", name));
                    if (r2, c2) != (rows, cols) {
                        g.count("live.source_resized");
                    }
                    rows = r2;
                    cols = c2;
                }
            }
            gen_live_queries(g, rows, cols, depth);
        }
    }
}

pub fn gen(g: &mut Gen) {
    gen_live(g);
    gen_ranges(g);
    gen_nested(g);
    gen_partitions(g);
    let _ = bset(1);
}
