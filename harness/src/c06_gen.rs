//! C06 — generator: random histories of container operations over one or two tapes, the four
//! variable/constant pairings, every ownership form of every operator (catalogue checked against
//! the operator macros of the source tree), every source kind; a systematic section with the
//! cross-tape pairing of every container binary operation form (C15's container part); a
//! malformed stream (shape mismatches, inconsistent histories, wrong `from_iter` shapes).

use super::{show_view, view_of, Sh, ViewSpec, BFNS};
use crate::c04::{pick_form, BINARY_FNS, FORMS2, FORMS4, UNARY_FNS};
use crate::exact::P;
use crate::util::*;

/// The dimension names of the case being generated: five of util's adversarial names (names the
/// library uses internally, prefixes of one another, one-letter names, the empty name), in an
/// order drawn from the PRNG.
static NAMES: std::sync::Mutex<Vec<&'static str>> = std::sync::Mutex::new(Vec::new());

fn case_names() -> Vec<&'static str> {
    let n = NAMES.lock().unwrap();
    if n.is_empty() { vec!["a", "b", "c", "d", "e"] } else { n.clone() }
}

fn new_case_names(g: &mut Gen) {
    *NAMES.lock().unwrap() = adversarial_names(&mut g.rng, 5);
}

#[derive(Clone)]
struct CInfo {
    name: String,
    is_matrix: bool,
    shape: Sh,
    /// `None`: constants
    tape: Option<usize>,
    /// epoch of its tape when it was created / last reset
    epoch: usize,
    /// may later operations use it (false once its tape state is not known to the generator)
    usable: bool,
    /// Rat cases: 0 = input values, 1 = went through an operation (bounds the size of the
    /// fractions: multiplying operations take level-0 operands only)
    level: u8,
}

struct St {
    ntapes: usize,
    conts: Vec<CInfo>,
    epochs: Vec<usize>,
    next: usize,
    derivs: usize,
    /// rough number of entries on each tape (bounds the cost of derivative requests)
    load: Vec<usize>,
    /// Rat cases: highest level an operand may have in the step being generated, and whether
    /// the step may multiply
    allow_level: u8,
    heavy: bool,
    /// may the step being generated take a 0-dimensional tensor as an operand
    allow_t0: bool,
}

fn elems(shape: &Sh) -> usize {
    shape.iter().map(|x| x.1).product()
}

fn shape_str(shape: &Sh) -> String {
    show_shape(shape)
}

/// element type of the case being generated: `Rat` values are small (the harness's rationals are
/// i128 fractions), `Fp` values are arbitrary
static RAT: std::sync::atomic::AtomicBool = std::sync::atomic::AtomicBool::new(false);

fn rat_mode() -> bool {
    RAT.load(std::sync::atomic::Ordering::Relaxed)
}

fn value(g: &mut Gen) -> String {
    if rat_mode() {
        g.count("c06.value.rat");
        let n = g.rng.range(0, 10) as i64 - 5;
        return if g.rng.chance(1, 4) {
            format!("{}", crate::exact::Rat::new(n as i128, g.rng.range(2, 4) as i128))
        } else {
            format!("{}", n)
        };
    }
    if g.rng.chance(1, 8) {
        g.count("c06.value.small");
        format!("{}", *g.rng.pick(&[0u64, 1, 2, 3, P - 1, P - 2]))
    } else {
        g.count("c06.value.random");
        format!("{}", g.rng.next() % P)
    }
}

/// the numbers of a container: now and then all equal / all zero / all one, and single values
/// repeating their neighbour, so that behaviour keyed on particular or equal values is reached
fn values(g: &mut Gen, n: usize) -> String {
    let roll = g.rng.below(20);
    let all = |v: String| vec![v; n].join(",");
    match roll {
        0 => {
            g.count("c06.values.all_zero");
            all("0".to_string())
        }
        1 => {
            g.count("c06.values.all_one");
            all("1".to_string())
        }
        2 | 3 => {
            g.count("c06.values.all_equal");
            let v = value(g);
            all(v)
        }
        _ => {
            g.count("c06.values.mixed");
            let mut out: Vec<String> = vec![];
            for k in 0..n {
                if k > 0 && g.rng.chance(1, 6) {
                    g.count("c06.values.equal_to_neighbour");
                    out.push(out[k - 1].clone());
                } else if g.rng.chance(1, 8) {
                    g.count("c06.values.zero_or_one");
                    out.push(if g.rng.chance(1, 2) { "0".into() } else { "1".into() });
                } else {
                    out.push(value(g));
                }
            }
            out.join(",")
        }
    }
}

impl St {
    fn new(ntapes: usize) -> St {
        St { ntapes, conts: vec![], epochs: vec![0; ntapes], next: 0, derivs: 0, load: vec![0; ntapes], allow_level: 1, heavy: true, allow_t0: false }
    }

    fn fresh_name(&mut self) -> String {
        self.next += 1;
        format!("c{}", self.next - 1)
    }

    fn live(&self, k: usize) -> bool {
        let c = &self.conts[k];
        c.usable
            && c.level <= self.allow_level
            && (self.allow_t0 || !c.shape.is_empty())
            && c.tape.map(|t| c.epoch == self.epochs[t]).unwrap_or(true)
    }

    fn live_ids(&self) -> Vec<usize> {
        (0..self.conts.len()).filter(|&k| self.live(k)).collect()
    }

    fn push(&mut self, name: String, is_matrix: bool, shape: Sh, tape: Option<usize>, usable: bool) -> usize {
        let epoch = tape.map(|t| self.epochs[t]).unwrap_or(0);
        if let Some(t) = tape {
            self.load[t] += elems(&shape);
        }
        self.conts.push(CInfo { name, is_matrix, shape, tape, epoch, usable, level: 1 });
        self.conts.len() - 1
    }

    /// emits a `vars` / `consts` line
    fn create(&mut self, g: &mut Gen, is_matrix: bool, shape: Sh, tape: Option<usize>) -> usize {
        let name = self.fresh_name();
        let vals = values(g, elems(&shape));
        let kind = if is_matrix { "M" } else { "T" };
        g.count(&format!("c06.create.{}.{}.d{}", if tape.is_some() { "vars" } else { "consts" }, kind, shape.len()));
        g.count(&format!("c06.create.elems.{:02}", elems(&shape)));
        match tape {
            Some(t) => g.op(format!("vars {} {} {} {} t={}", name, kind, shape_str(&shape), vals, t)),
            None => g.op(format!("consts {} {} {} {}", name, kind, shape_str(&shape), vals)),
        }
        let k = self.push(name, is_matrix, shape, tape, true);
        self.conts[k].level = 0;
        k
    }

    fn random_shape(&self, g: &mut Gen, is_matrix: bool) -> Sh {
        if is_matrix {
            return vec![("r", g.rng.range(1, 3)), ("c", g.rng.range(1, 3))];
        }
        let d = *g.rng.pick(&[1usize, 2, 2, 2, 2, 3]);
        let mut names: Vec<&'static str> = case_names();
        g.rng.shuffle(&mut names);
        (0..d).map(|k| (names[k], if d == 3 { g.rng.range(1, 2) } else { g.rng.range(1, 3) })).collect()
    }
}

/// the views the harness can build of a container of this shape
fn candidate_views(g: &mut Gen, c: &CInfo) -> Vec<ViewSpec> {
    let mut v = vec![ViewSpec::Own, ViewSpec::Ref];
    if c.shape.len() != 2 {
        return v;
    }
    let (r, k) = (c.shape[0].1, c.shape[1].1);
    if !c.is_matrix {
        for p in [vec![0, 1], vec![1, 0]] {
            v.push(ViewSpec::Acc(p.clone()));
            v.push(ViewSpec::Tr(p));
        }
        let mut names: Vec<&'static str> = case_names();
        g.rng.shuffle(&mut names);
        v.push(ViewSpec::Rn(vec![names[0], names[1]]));
    }
    for f in [[true, false], [false, true], [true, true]] {
        v.push(ViewSpec::Rev(f.to_vec()));
    }
    // a few ranges
    for _ in 0..3 {
        let r0 = g.rng.below(r);
        let rl = g.rng.range(1, r - r0);
        let c0 = g.rng.below(k);
        let cl = g.rng.range(1, k - c0);
        v.push(ViewSpec::Rg(vec![(r0, rl), (c0, cl)]));
    }
    v
}

fn view_kind(v: &ViewSpec) -> &'static str {
    match v {
        ViewSpec::Own => "own",
        ViewSpec::Ref => "ref",
        ViewSpec::Acc(_) => "acc",
        ViewSpec::Tr(_) => "tr",
        ViewSpec::Rg(_) => "rg",
        ViewSpec::Rev(_) => "rev",
        ViewSpec::Rn(_) => "rn",
    }
}

fn covers_all(v: &ViewSpec, c: &CInfo) -> bool {
    match v {
        ViewSpec::Rg(r) => (0..r.len()).all(|k| r[k].0 == 0 && r[k].1 == c.shape[k].1),
        _ => true,
    }
}

/// picks a view of `c`; half of the time the kind hit least often so far
fn pick_view(g: &mut Gen, c: &CInfo, role: &str, basic_only: bool) -> (ViewSpec, Sh) {
    let mut cands = candidate_views(g, c);
    if basic_only {
        cands.retain(|v| v.is_basic());
    }
    if ["assign_target", "mapmut", "reset"].contains(&role) {
        cands.retain(|v| !v.is_shared_only());
    }
    let kinds: Vec<&'static str> = {
        let mut k: Vec<&'static str> = cands.iter().map(view_kind).collect();
        k.dedup();
        k.sort();
        k.dedup();
        k
    };
    let prefix = format!("c06.view.{}.{}", role, if c.is_matrix { "M" } else { "T" });
    let kind = pick_form(g, &prefix, "kind", &kinds);
    let of_kind: Vec<&ViewSpec> = cands.iter().filter(|v| view_kind(v) == kind).collect();
    let v = (*g.rng.pick(&of_kind)).clone();
    let (vs, _) = view_of(&c.shape, &v, c.is_matrix).expect("candidate view is valid");
    (v, vs)
}

fn operand_tok(c: &CInfo, v: &ViewSpec) -> String {
    format!("{}{}", c.name, show_view(v))
}

/// an operand whose view has the wanted shape, among the live containers of the wanted kind and
/// tape class; creates a fresh container when there is none
fn operand_with_shape(
    st: &mut St,
    g: &mut Gen,
    is_matrix: bool,
    shape: &Sh,
    tape: Option<usize>,
    basic_only: bool,
    role: &str,
) -> (usize, ViewSpec) {
    let mut found: Vec<(usize, ViewSpec)> = vec![];
    for k in st.live_ids() {
        let c = st.conts[k].clone();
        if c.is_matrix != is_matrix || c.tape != tape {
            continue;
        }
        for v in candidate_views(g, &c) {
            if basic_only && !v.is_basic() {
                continue;
            }
            if let Some((vs, _)) = view_of(&c.shape, &v, c.is_matrix) {
                if &vs == shape {
                    found.push((k, v));
                }
            }
        }
    }
    if !found.is_empty() && g.rng.chance(4, 5) {
        // prefer the source kinds hit least often
        let prefix = format!("c06.view.{}.{}", role, if is_matrix { "M" } else { "T" });
        let kinds: Vec<&'static str> = {
            let mut k: Vec<&'static str> = found.iter().map(|(_, v)| view_kind(v)).collect();
            k.sort();
            k.dedup();
            k
        };
        let kind = pick_form(g, &prefix, "kind", &kinds);
        let of_kind: Vec<&(usize, ViewSpec)> = found.iter().filter(|(_, v)| view_kind(v) == kind).collect();
        return (*g.rng.pick(&of_kind)).clone();
    }
    let k = st.create(g, is_matrix, shape.clone(), tape);
    g.count(&format!("c06.view.{}.{}.kind.own", role, if is_matrix { "M" } else { "T" }));
    (k, ViewSpec::Own)
}

fn pick_pairing(g: &mut Gen, op: &str) -> (bool, bool) {
    let p = pick_form(g, "c06.pairing", op, &["var_var", "var_const", "const_var", "const_const"]);
    match p {
        "var_var" => (true, true),
        "var_const" => (true, false),
        "const_var" => (false, true),
        _ => (false, false),
    }
}

fn result_tape(a: Option<usize>, b: Option<usize>) -> Option<usize> {
    a.or(b)
}

/// a live container of the wanted tape class (created when there is none)
fn some_container(st: &mut St, g: &mut Gen, want_var: Option<bool>, tape: usize) -> usize {
    let ids: Vec<usize> = st
        .live_ids()
        .into_iter()
        .filter(|&k| match want_var {
            Some(true) => st.conts[k].tape == Some(tape),
            Some(false) => st.conts[k].tape.is_none(),
            None => st.conts[k].tape.is_none() || st.conts[k].tape == Some(tape),
        })
        .collect();
    if ids.is_empty() || g.rng.chance(1, 10) {
        let is_matrix = g.rng.chance(1, 3);
        let shape = st.random_shape(g, is_matrix);
        let t = match want_var {
            Some(false) => None,
            Some(true) => Some(tape),
            None => if g.rng.chance(2, 3) { Some(tape) } else { None },
        };
        return st.create(g, is_matrix, shape, t);
    }
    // prefer recent results
    if g.rng.chance(1, 2) {
        ids[ids.len() - 1 - g.rng.below(ids.len().min(3))]
    } else {
        *g.rng.pick(&ids)
    }
}

/// now and then the derivatives of a fresh result w.r.t. the variable operands it was made from
fn follow_derivs(st: &mut St, g: &mut Gen, result: &str, tape: Option<usize>, operands: &[(&CInfo, String)]) {
    let t = match tape {
        Some(t) => t,
        None => return,
    };
    let wrt: Vec<String> = operands.iter().filter(|(c, _)| c.tape == Some(t)).map(|(_, tok)| tok.clone()).collect();
    if wrt.is_empty() || st.load[t] > 300 || !g.rng.chance(1, 3) {
        return;
    }
    let via = pick_form(g, "c06.form", "derivs", &["all", "for"]);
    g.count("c06.derivs.directly_after_operation");
    g.op(format!("derivs {} wrt={} via={}", result, wrt.join(","), via));
}

const UOPS_NUM: [&str; 6] = ["addn", "subn", "muln", "divn", "subsw", "divsw"];
const UOPS_REAL_NUM: [&str; 2] = ["pown", "npow"];
const UOPS_PLAIN: [&str; 1] = ["neg"];
const UOPS_REAL: [&str; 5] = ["sin", "cos", "exp", "ln", "sqrt"];

fn step_unary(st: &mut St, g: &mut Gen, tape: usize) {
    let k = some_container(st, g, None, tape);
    let c = st.conts[k].clone();
    let (v, vs) = pick_view(g, &c, "unary", false);
    let mut ops: Vec<&'static str> = vec![];
    if rat_mode() {
        ops.extend_from_slice(&["addn", "subn", "subsw", "neg"]);
        if st.heavy {
            ops.extend_from_slice(&["muln", "divn", "divsw", "unary"]);
        }
    } else {
        ops.extend_from_slice(&UOPS_NUM);
        ops.extend_from_slice(&UOPS_REAL_NUM);
        ops.extend_from_slice(&UOPS_PLAIN);
        ops.extend_from_slice(&UOPS_REAL);
        ops.push("unary");
        ops.push("unary");
    }
    let op = *g.rng.pick(&ops);
    let kind = if c.is_matrix { "M" } else { "T" };
    g.count(&format!("c06.op.{}.{}.{}", op, kind, if c.tape.is_some() { "var" } else { "const" }));
    let name = st.fresh_name();
    let a = operand_tok(&c, &v);
    let line = match op {
        "unary" => {
            let f = *g.rng.pick(&UNARY_FNS);
            g.count(&format!("c06.unary.fn.{}", f));
            format!("unary {} {} fn={}", name, a, f)
        }
        "neg" | "sin" | "cos" | "exp" | "ln" | "sqrt" => {
            let via = if v.is_basic() { pick_form(g, &format!("c06.form.{}", kind), op, &FORMS2) } else { "ref" };
            format!("{} {} {} via={}", op, name, a, via)
        }
        "npow" => {
            let via = if v.is_basic() { pick_form(g, &format!("c06.form.{}", kind), op, &FORMS4) } else { "ref_ref" };
            format!("npow {} {} {} via={}", name, value(g), a, via)
        }
        _ => {
            let via = if v.is_basic() { pick_form(g, &format!("c06.form.{}", kind), op, &FORMS4) } else { "ref_ref" };
            format!("{} {} {} {} via={}", op, name, a, value(g), via)
        }
    };
    g.op(line);
    st.push(name.clone(), c.is_matrix, vs, c.tape, true);
    follow_derivs(st, g, &name, c.tape, &[(&c, a)]);
}

/// operands for an elementwise binary operation in the wanted pairing; `cross`: the two
/// variables are taken from different tapes (the operation must panic)
fn binary_operands(st: &mut St, g: &mut Gen, op: &str, tape: usize, cross: bool, b_basic: bool) -> ((usize, ViewSpec), (usize, ViewSpec), Sh) {
    let (va, vb) = if cross { (true, true) } else { pick_pairing(g, op) };
    let ka = some_container(st, g, Some(va), tape);
    let ca = st.conts[ka].clone();
    let (av, shape) = pick_view(g, &ca, "left", false);
    let tb = if !vb {
        None
    } else if cross {
        Some(1 - tape)
    } else {
        Some(tape)
    };
    // now and then both operands are one and the same container (object)
    if !cross && va == vb && g.rng.chance(1, 5) {
        g.count(&format!("c06.same_container_twice.{}", view_kind(&av)));
        let bv = if av.is_basic() { av.clone() } else { ViewSpec::Own };
        if let Some((vs, _)) = view_of(&ca.shape, &bv, ca.is_matrix) {
            if vs == shape {
                return ((ka, av), (ka, bv), shape);
            }
        }
    }
    let (kb, bv) = operand_with_shape(st, g, ca.is_matrix, &shape, tb, b_basic || !av.is_basic(), "right");
    ((ka, av), (kb, bv), shape)
}

fn step_binary(st: &mut St, g: &mut Gen, tape: usize, cross: bool) {
    let op = if rat_mode() && !st.heavy { *g.rng.pick(&["add", "sub"]) } else { *g.rng.pick(&["add", "sub", "emul", "ediv", "binary", "add", "sub"]) };
    let ((ka, av), (kb, bv), shape) = binary_operands(st, g, op, tape, cross, false);
    let (ca, cb) = (st.conts[ka].clone(), st.conts[kb].clone());
    let kind = if ca.is_matrix { "M" } else { "T" };
    let name = st.fresh_name();
    let (a, b) = (operand_tok(&ca, &av), operand_tok(&cb, &bv));
    let both_basic = av.is_basic() && bv.is_basic();
    let line = match op {
        "binary" => {
            let f = *g.rng.pick(&BINARY_FNS);
            g.count(&format!("c06.binary.fn.{}", f));
            format!("binary {} {} {} fn={}", name, a, b, f)
        }
        "emul" | "ediv" => format!("{} {} {} {}", op, name, a, b),
        _ => {
            let via = if both_basic { pick_form(g, &format!("c06.form.{}", kind), op, &FORMS4) } else { "ref_ref" };
            format!("{} {} {} {} via={}", op, name, a, b, via)
        }
    };
    g.count(&format!("c06.op.{}.{}{}", op, kind, if cross { ".cross_tape" } else { "" }));
    g.op(line);
    if !cross {
        let t = result_tape(ca.tape, cb.tape);
        st.push(name.clone(), ca.is_matrix, shape, t, true);
        follow_derivs(st, g, &name, t, &[(&ca, a), (&cb, b)]);
    }
}

fn step_matmul(st: &mut St, g: &mut Gen, tape: usize, cross: bool) {
    let (va, vb) = if cross { (true, true) } else { pick_pairing(g, "matmul") };
    // a two dimensional left operand
    let ids: Vec<usize> = st
        .live_ids()
        .into_iter()
        .filter(|&k| st.conts[k].shape.len() == 2 && st.conts[k].tape == if va { Some(tape) } else { None })
        .collect();
    let ka = if ids.is_empty() || g.rng.chance(1, 8) {
        let is_matrix = g.rng.chance(1, 2);
        let shape: Sh = if is_matrix {
            vec![("r", g.rng.range(1, 3)), ("c", g.rng.range(1, 3))]
        } else {
            let mut names: Vec<&'static str> = case_names();
            g.rng.shuffle(&mut names);
            vec![(names[0], g.rng.range(1, 3)), (names[1], g.rng.range(1, 3))]
        };
        st.create(g, is_matrix, shape, if va { Some(tape) } else { None })
    } else {
        *g.rng.pick(&ids)
    };
    let ca = st.conts[ka].clone();
    let (av, ashape) = pick_view(g, &ca, "left", false);
    let n = ashape[1].1;
    let tb = if !vb {
        None
    } else if cross {
        Some(1 - tape)
    } else {
        Some(tape)
    };
    // a right operand with `n` rows (and, for tensors, a second name different from the left's first)
    let mut found: Vec<(usize, ViewSpec, Sh)> = vec![];
    for k in st.live_ids() {
        let c = st.conts[k].clone();
        if c.is_matrix != ca.is_matrix || c.tape != tb || c.shape.len() != 2 {
            continue;
        }
        for v in candidate_views(g, &c) {
            if !av.is_basic() && !v.is_basic() {
                continue;
            }
            if let Some((vs, _)) = view_of(&c.shape, &v, c.is_matrix) {
                if vs[0].1 == n && (c.is_matrix || vs[1].0 != ashape[0].0) {
                    found.push((k, v, vs));
                }
            }
        }
    }
    let (kb, bv, bshape) = if !found.is_empty() && g.rng.chance(4, 5) {
        let kinds: Vec<&'static str> = {
            let mut k: Vec<&'static str> = found.iter().map(|(_, v, _)| view_kind(v)).collect();
            k.sort();
            k.dedup();
            k
        };
        let kind = pick_form(g, &format!("c06.view.right.{}", if ca.is_matrix { "M" } else { "T" }), "kind", &kinds);
        let of_kind: Vec<&(usize, ViewSpec, Sh)> = found.iter().filter(|(_, v, _)| view_kind(v) == kind).collect();
        (*g.rng.pick(&of_kind)).clone()
    } else {
        let l = g.rng.range(1, 3);
        let shape: Sh = if ca.is_matrix {
            vec![("r", n), ("c", l)]
        } else {
            let free: Vec<&'static str> = case_names().into_iter().filter(|x| *x != ashape[0].0).collect();
            let n0 = *g.rng.pick(&free);
            let free2: Vec<&'static str> = free.iter().cloned().filter(|x| *x != n0).collect();
            vec![(n0, n), (*g.rng.pick(&free2), l)]
        };
        let k = st.create(g, ca.is_matrix, shape.clone(), tb);
        (k, ViewSpec::Own, shape)
    };
    let cb = st.conts[kb].clone();
    let kind = if ca.is_matrix { "M" } else { "T" };
    let name = st.fresh_name();
    let via = if av.is_basic() && bv.is_basic() { pick_form(g, &format!("c06.form.{}", kind), "matmul", &FORMS4) } else { "ref_ref" };
    g.count(&format!("c06.op.matmul.{}{}", kind, if cross { ".cross_tape" } else { "" }));
    g.count(&format!("c06.matmul.inner.{}", n));
    g.op(format!("matmul {} {} {} via={}", name, operand_tok(&ca, &av), operand_tok(&cb, &bv), via));
    if !cross {
        let shape: Sh = if ca.is_matrix { vec![("r", ashape[0].1), ("c", bshape[1].1)] } else { vec![ashape[0], bshape[1]] };
        let t = result_tape(ca.tape, cb.tape);
        if let Some(t) = t {
            st.load[t] += elems(&shape) * 2 * n;
        }
        st.push(name.clone(), ca.is_matrix, shape, t, true);
        follow_derivs(st, g, &name, t, &[(&ca, operand_tok(&ca, &av)), (&cb, operand_tok(&cb, &bv))]);
    }
}

fn step_uassign(st: &mut St, g: &mut Gen, tape: usize) {
    let k = some_container(st, g, None, tape);
    let c = st.conts[k].clone();
    let (v, _) = pick_view(g, &c, "assign_target", false);
    let f = *g.rng.pick(&UNARY_FNS);
    let via = if matches!(v, ViewSpec::Own) { pick_form(g, "c06.form", "uassign", &["assign", "do"]) } else { "assign" };
    g.count(&format!("c06.op.uassign.{}.{}", if c.is_matrix { "M" } else { "T" }, if c.tape.is_some() { "var" } else { "const" }));
    g.op(format!("uassign {} fn={} via={}", operand_tok(&c, &v), f, via));
    if let Some(t) = c.tape {
        st.load[t] += elems(&c.shape);
    }
    st.conts[k].level = 1;
}

fn step_bassign(st: &mut St, g: &mut Gen, tape: usize, cross: bool) {
    let left = g.rng.chance(1, 2);
    let op = if left { "lassign" } else { "rassign" };
    // target first: when it is written through a view its tape must not change
    let (va, vb) = if cross { (true, true) } else { pick_pairing(g, op) };
    let (vt, vo) = if left { (va, vb) } else { (vb, va) };
    let kt = some_container(st, g, Some(vt), tape);
    let ct = st.conts[kt].clone();
    let only_own = !vt && vo; // a constant target that becomes a variable
    let (tv, shape) = if only_own { (ViewSpec::Own, ct.shape.clone()) } else { pick_view(g, &ct, "assign_target", false) };
    if only_own {
        g.count(&format!("c06.view.assign_target.{}.kind.own", if ct.is_matrix { "M" } else { "T" }));
    }
    let to = if !vo {
        None
    } else if cross {
        Some(1 - tape)
    } else {
        Some(tape)
    };
    let (ko, ov) = operand_with_shape(st, g, ct.is_matrix, &shape, to, !tv.is_basic(), "assign_other");
    let co = st.conts[ko].clone();
    let f = if rat_mode() && !st.heavy { *g.rng.pick(&["add", "sub"]) } else { *g.rng.pick(&BFNS) };
    let via = if tv.is_basic() && ov.is_basic() { pick_form(g, "c06.form", op, &["assign", "do"]) } else { "assign" };
    let (ttok, otok) = (operand_tok(&ct, &tv), operand_tok(&co, &ov));
    g.count(&format!("c06.op.{}.{}{}", op, if ct.is_matrix { "M" } else { "T" }, if cross { ".cross_tape" } else { "" }));
    g.count(&format!("c06.assign.fn.{}", f));
    if left {
        g.op(format!("lassign {} {} fn={} via={}", ttok, otok, f, via));
    } else {
        g.op(format!("rassign {} {} fn={} via={}", otok, ttok, f, via));
    }
    if !cross {
        let t = result_tape(ct.tape, co.tape);
        if let Some(t) = t {
            st.load[t] += elems(&shape);
        }
        if matches!(tv, ViewSpec::Own) {
            st.conts[kt].tape = t;
            st.conts[kt].epoch = t.map(|t| st.epochs[t]).unwrap_or(0);
        }
        st.conts[kt].level = 1;
    }
}

fn step_map(st: &mut St, g: &mut Gen, tape: usize) {
    let k = some_container(st, g, None, tape);
    let c = st.conts[k].clone();
    let mutate = g.rng.chance(1, 2);
    let (v, vs) = pick_view(g, &c, if mutate { "mapmut" } else { "map" }, false);
    let indexed = g.rng.chance(1, 3);
    let mut fns: Vec<String> = vec!["id".into()];
    if !rat_mode() || st.heavy {
        fns.extend(["sq".to_string(), "aff".into(), "sq".into(), "aff".into()]);
    }
    if indexed {
        fns.push("alt".into());
        if !rat_mode() || st.heavy {
            fns.push("scale".into());
            fns.push("scale".into());
        }
    }
    // functions that change the tape: through a view only for the allocating form
    if !mutate || matches!(v, ViewSpec::Own) {
        fns.push("konst".into());
        fns.push(format!("lift.{}", tape));
        fns.push("half".into());
    }
    let f = g.rng.pick(&fns).clone();
    let fkind = f.split('.').next().unwrap().to_string();
    g.count(&format!("c06.op.{}.{}.fn.{}", if mutate { "mapmut" } else { "map" }, if c.is_matrix { "M" } else { "T" }, fkind));
    let via = match (mutate, indexed) {
        (false, false) => "map",
        (true, false) => "map_mut",
        _ => "with_index",
    };
    g.count(&format!("c06.form.{}.{}", if mutate { "mapmut" } else { "map" }, via));
    // what the generator knows of the result's tape
    let is_var = c.tape.is_some();
    let n = elems(&vs);
    let (tape_after, usable): (Option<usize>, bool) = match fkind.as_str() {
        "konst" => (None, true),
        "lift" => (Some(tape), true),
        "half" => (c.tape, !is_var),
        "alt" => (c.tape, !is_var || n == 1),
        _ => (c.tape, true),
    };
    if let Some(t) = tape_after.or(c.tape) {
        st.load[t] += 2 * n;
    }
    if mutate {
        g.op(format!("mapmut {} fn={} via={}", operand_tok(&c, &v), f, via));
        if matches!(v, ViewSpec::Own) {
            st.conts[k].tape = tape_after;
            st.conts[k].epoch = tape_after.map(|t| st.epochs[t]).unwrap_or(0);
        }
        if !usable {
            st.conts[k].usable = false;
        }
        st.conts[k].level = 1;
    } else {
        let name = st.fresh_name();
        g.op(format!("map {} {} fn={} via={}", name, operand_tok(&c, &v), f, via));
        // an inconsistent result is an `Err`: no container
        st.push(name, c.is_matrix, vs, tape_after, usable);
    }
}

/// shapes with `n` elements for a tensor / matrix built from an iterator
fn reshape(g: &mut Gen, to_matrix: bool, n: usize, like: &Sh) -> Sh {
    let mut divisors: Vec<usize> = (1..=n).filter(|d| n % d == 0).collect();
    g.rng.shuffle(&mut divisors);
    let r = divisors[0];
    if to_matrix {
        return vec![("r", r), ("c", n / r)];
    }
    match g.rng.below(3) {
        0 if elems(like) == n && like.iter().all(|x| x.0 != "r" && x.0 != "c") => like.clone(),
        1 => vec![("a", n)],
        _ => vec![("a", r), ("b", n / r)],
    }
}

fn step_fromiter(st: &mut St, g: &mut Gen, tape: usize) {
    let k = some_container(st, g, None, tape);
    let c = st.conts[k].clone();
    let (v, vs) = pick_view(g, &c, "iter", false);
    let to_matrix = g.rng.chance(1, 3);
    let mut n = elems(&vs);
    let mut opts: Vec<String> = vec![];
    let order = if c.is_matrix && g.rng.chance(1, 2) { "cm" } else if g.rng.chance(1, 4) { "rev" } else { "rm" };
    g.count(&format!("c06.fromiter.order.{}", order));
    opts.push(format!("order={}", order));
    let mut tape_after = c.tape;
    let mut consistent = true;
    // chain a second container: same tape / constants / another tape
    if g.rng.chance(1, 4) {
        let other_var = g.rng.chance(1, 2);
        let other_tape = if other_var && st.ntapes == 2 && g.rng.chance(1, 3) { 1 - tape } else { tape };
        let ko = some_container(st, g, Some(other_var), other_tape);
        let co = st.conts[ko].clone();
        consistent = co.tape == c.tape;
        g.count(&format!("c06.fromiter.chain.{}", if consistent { "consistent" } else { "inconsistent" }));
        n += elems(&co.shape);
        opts.push(format!("chain={}", co.name));
    }
    let mut f = if rat_mode() && !st.heavy { g.rng.pick(&["id", "id", "konst", "lift"]).to_string() } else { g.rng.pick(&["id", "id", "sq", "aff", "konst", "lift"]).to_string() };
    // iteration with indexes: in row-major order and without a chained second iterator
    if order == "rm" && opts.len() == 1 && g.rng.chance(1, 3) {
        let via = pick_form(g, "c06.form", "fromiter", &["with_index", "into", "from_with_index"]);
        opts.push(format!("via={}", via));
        if g.rng.chance(1, 2) {
            f = if rat_mode() && !st.heavy { "alt".to_string() } else { g.rng.pick(&["alt", "scale"]).to_string() };
        }
    } else {
        g.count("c06.form.fromiter.plain");
    }
    let f = if f == "lift" { format!("lift.{}", tape) } else { f };
    match f.split('.').next().unwrap() {
        "alt" => {
            consistent = consistent && (c.tape.is_none() || n == 1);
        }
        "konst" => {
            tape_after = None;
            consistent = true;
        }
        "lift" => {
            tape_after = Some(tape);
            consistent = true;
        }
        _ => {}
    }
    g.count(&format!("c06.fromiter.fn.{}", f.split('.').next().unwrap()));
    opts.push(format!("fn={}", f));
    // malformed: wrong element count / empty iterator
    let mut ok = consistent;
    let roll = g.rng.below(12);
    if roll == 0 {
        opts.push("take=0".into());
        g.count("c06.fromiter.malformed.empty");
        ok = false;
    } else if roll == 1 && n > 1 {
        opts.push(format!("take={}", n - 1));
        g.count("c06.fromiter.malformed.short");
        ok = false;
    }
    let shape = if roll == 2 {
        g.count("c06.fromiter.malformed.duplicate_names");
        ok = ok && to_matrix;
        if to_matrix { reshape(g, true, n, &vs) } else { vec![("a", 1), ("a", n)] }
    } else {
        reshape(g, to_matrix, n, &vs)
    };
    let name = st.fresh_name();
    g.count(&format!("c06.op.fromiter.{}_to_{}", if c.is_matrix { "M" } else { "T" }, if to_matrix { "M" } else { "T" }));
    g.op(format!(
        "fromiter {} {} to={} shape={} {}",
        name,
        operand_tok(&c, &v),
        if to_matrix { "M" } else { "T" },
        shape_str(&shape),
        opts.join(" ")
    ));
    if let Some(t) = tape_after.or(c.tape) {
        st.load[t] += 2 * n;
    }
    if ok {
        st.push(name, to_matrix, shape, tape_after, true);
    }
}

fn step_fromiters(st: &mut St, g: &mut Gen, tape: usize) {
    let k = some_container(st, g, None, tape);
    let c = st.conts[k].clone();
    let (v, vs) = pick_view(g, &c, "iter", false);
    let to_matrix = g.rng.chance(1, 3);
    let n = elems(&vs);
    let shape = reshape(g, to_matrix, n, &vs);
    let pairs = [("id", "sq"), ("aff", "konst"), ("sq", "aff"), ("konst", "id"), ("id", "half")];
    let light_pairs = [("id", "konst"), ("konst", "id"), ("id", "half")];
    let (f1, f2) = if rat_mode() && !st.heavy { *g.rng.pick(&light_pairs) } else { *g.rng.pick(&pairs) };
    let (n1, n2) = (st.fresh_name(), st.fresh_name());
    g.count(&format!("c06.op.fromiters.{}.{}_{}", if to_matrix { "M" } else { "T" }, f1, f2));
    g.op(format!(
        "fromiters {},{} {} to={} shape={} fn={},{}",
        n1,
        n2,
        operand_tok(&c, &v),
        if to_matrix { "M" } else { "T" },
        shape_str(&shape),
        f1,
        f2
    ));
    if let Some(t) = c.tape {
        st.load[t] += 3 * n;
    }
    for (name, f) in [(n1, f1), (n2, f2)] {
        let (t, usable) = match f {
            "konst" => (None, true),
            "half" => (c.tape, c.tape.is_none()),
            _ => (c.tape, true),
        };
        st.push(name, to_matrix, shape.clone(), t, usable);
    }
}

fn step_reset(st: &mut St, g: &mut Gen, tape: usize) {
    let k = some_container(st, g, Some(true), tape);
    let c = st.conts[k].clone();
    let (v, _) = pick_view(g, &c, "reset", false);
    let via = if matches!(v, ViewSpec::Own) { pick_form(g, "c06.form", "reset", &["reset", "do_reset"]) } else { "reset" };
    g.count("c06.reset.without_clear");
    g.op(format!("reset {} via={}", operand_tok(&c, &v), via));
    st.load[tape] += elems(&c.shape);
}

/// one element of a container as a record (kept as a 0-dimensional tensor), in or out of range
fn step_elem(st: &mut St, g: &mut Gen, tape: usize) {
    let k = some_container(st, g, None, tape);
    let c = st.conts[k].clone();
    let kind = if c.is_matrix { "M" } else { "T" };
    let d = c.shape.len();
    // an ordering of the dimensions (tensors), the access flavour
    let mut perm: Vec<usize> = (0..d).collect();
    let access = if c.is_matrix { "matrix" } else { pick_form(g, "c06.form", "elem.access", &["index_by", "owned", "mut"]) };
    if !c.is_matrix && g.rng.chance(2, 3) {
        g.rng.shuffle(&mut perm);
    }
    let identity = (0..d).all(|i| perm[i] == i);
    let v = if identity { ViewSpec::Own } else { ViewSpec::Acc(perm.clone()) };
    let form = pick_form(g, "c06.form", &format!("elem.{}", kind), &["get", "try"]);
    let conv = pick_form(g, "c06.form", "elem.from_record", &["val", "ref"]);
    let out_of_range = d > 0 && g.rng.chance(1, 6);
    let mut idx: Vec<usize> = perm.iter().map(|&p| g.rng.below(c.shape[p].1)).collect();
    if out_of_range {
        let j = g.rng.below(d);
        idx[j] = c.shape[perm[j]].1 + g.rng.below(2);
    }
    g.count(&format!("c06.op.elem.{}.{}.{}", kind, access, if out_of_range { "out_of_range" } else { "in_range" }));
    g.count(&format!("c06.elem.ordering.{}", if identity { "source_order" } else { "reordered" }));
    let name = st.fresh_name();
    g.op(format!("elem {} {} {} via={}.{}.{}", name, operand_tok(&c, &v), show_usizes(&idx), access, form, conv));
    if !out_of_range {
        let z = st.push(name.clone(), false, vec![], c.tape, true);
        st.conts[z].level = c.level;
        let a = operand_tok(&c, &ViewSpec::Own);
        follow_derivs(st, g, &name, c.tape, &[(&c, a)]);
    }
}

/// a 0-dimensional tensor to a `Record` and back
fn step_scalar(st: &mut St, g: &mut Gen, tape: usize) {
    let ids: Vec<usize> = st.live_ids().into_iter().filter(|&k| st.conts[k].shape.is_empty() && !st.conts[k].is_matrix).collect();
    if ids.is_empty() {
        return step_elem(st, g, tape);
    }
    let c = st.conts[*g.rng.pick(&ids)].clone();
    let a = pick_form(g, "c06.form", "scalar.to_record", &["val", "ref"]);
    let b = pick_form(g, "c06.form", "scalar.from_record", &["val", "ref"]);
    let name = st.fresh_name();
    g.count("c06.op.scalar");
    g.op(format!("scalar {} {} via={}.{}", name, c.name, a, b));
    let z = st.push(name, false, vec![], c.tape, true);
    st.conts[z].level = c.level;
}

/// two elements exchanged in place, then the layout of the container as a source
fn step_swap(st: &mut St, g: &mut Gen, tape: usize) {
    let k = some_container(st, g, None, tape);
    let c = st.conts[k].clone();
    let pick = |g: &mut Gen, bad: bool| -> Vec<usize> {
        let mut i: Vec<usize> = c.shape.iter().map(|d| g.rng.below(d.1)).collect();
        if bad {
            let j = g.rng.below(i.len());
            i[j] = c.shape[j].1;
        }
        i
    };
    let bad = g.rng.chance(1, 8);
    let (i, j) = (pick(g, false), pick(g, bad));
    g.count(&format!("c06.op.swap.{}.{}", if c.is_matrix { "M" } else { "T" }, if bad { "out_of_range" } else { "in_range" }));
    g.op(format!("swap {} {} {}", c.name, show_usizes(&i), show_usizes(&j)));
    if g.rng.chance(1, 2) {
        g.count("c06.op.layout");
        g.op(format!("layout {}", c.name));
    }
}

fn step_derivs(st: &mut St, g: &mut Gen, tape: usize) {
    let on_tape: Vec<usize> = st.live_ids().into_iter().filter(|&k| st.conts[k].tape == Some(tape)).collect();
    if on_tape.is_empty() || st.load[tape] > 400 {
        return;
    }
    // prefer a recent result as the output
    let out = if g.rng.chance(2, 3) { on_tape[on_tape.len() - 1 - g.rng.below(on_tape.len().min(2))] } else { *g.rng.pick(&on_tape) };
    let co = st.conts[out].clone();
    let (ov, _) = pick_view(g, &co, "derivs_out", false);
    let mut wrt = vec![];
    for _ in 0..g.rng.range(1, 2) {
        let k = *g.rng.pick(&on_tape);
        let c = st.conts[k].clone();
        let (v, _) = pick_view(g, &c, "derivs_wrt", false);
        wrt.push(operand_tok(&c, &v));
    }
    let via = pick_form(g, "c06.form", "derivs", &["all", "for"]);
    g.count(&format!("c06.derivs.{}", if co.is_matrix { "M" } else { "T" }));
    g.op(format!("derivs {} wrt={} via={}", operand_tok(&co, &ov), wrt.join(","), via));
    st.derivs += 1;
}

fn step_derivs_of_constant(st: &mut St, g: &mut Gen) {
    let consts: Vec<usize> = st.live_ids().into_iter().filter(|&k| st.conts[k].tape.is_none()).collect();
    if consts.is_empty() {
        return;
    }
    let c = st.conts[*g.rng.pick(&consts)].clone();
    g.count("c06.derivs.of_constants");
    let via = *g.rng.pick(&["all", "for"]);
    g.op(format!("derivs {} wrt=- via={}", c.name, via));
}

fn step_shape_mismatch(st: &mut St, g: &mut Gen, tape: usize) {
    let ka = some_container(st, g, None, tape);
    let ca = st.conts[ka].clone();
    // a container of the same kind and dimensionality with another shape
    let mut shape = ca.shape.clone();
    let d = g.rng.below(shape.len());
    shape[d].1 += 1;
    let tb = if g.rng.chance(1, 2) { Some(tape) } else { None };
    let kb = st.create(g, ca.is_matrix, shape, tb);
    let cb = st.conts[kb].clone();
    let name = st.fresh_name();
    g.count("c06.malformed.shape_mismatch");
    let (x, y) = if g.rng.chance(1, 2) { (&ca, &cb) } else { (&cb, &ca) };
    match g.rng.below(4) {
        0 => g.op(format!("add {} {} {} via=ref_ref", name, x.name, y.name)),
        1 => g.op(format!("ediv {} {} {}", name, x.name, y.name)),
        2 => g.op(format!("lassign {} {} fn=sub via=assign", x.name, y.name)),
        _ => g.op(format!("binary {} {} {} fn=psq", name, x.name, y.name)),
    }
}

fn step_clear_cycle(st: &mut St, g: &mut Gen, tape: usize) {
    g.op(format!("clear t={}", tape));
    g.count("c06.clear");
    st.epochs[tape] += 1;
    st.load[tape] = 0;
    let mut on_tape: Vec<usize> = (0..st.conts.len()).filter(|&k| st.conts[k].usable && st.conts[k].tape == Some(tape)).collect();
    g.rng.shuffle(&mut on_tape);
    let keep = match g.rng.below(4) {
        0 => g.rng.below(on_tape.len() + 1),
        _ => on_tape.len(),
    }
    .min(4);
    g.count(if keep == on_tape.len() { "c06.reset.all_live" } else { "c06.reset.subset" });
    for &k in on_tape.iter().take(keep) {
        let c = st.conts[k].clone();
        // after a clear every element has to be reset: views that show all of the container
        let (v, _) = loop {
            let (v, vs) = pick_view(g, &c, "reset", false);
            if covers_all(&v, &c) {
                break (v, vs);
            }
        };
        let via = if matches!(v, ViewSpec::Own) { pick_form(g, "c06.form", "reset", &["reset", "do_reset"]) } else { "reset" };
        g.op(format!("reset {} via={}", operand_tok(&c, &v), via));
        st.conts[k].epoch = st.epochs[tape];
        st.load[tape] += elems(&c.shape);
    }
}

fn gen_case(g: &mut Gen, rat: bool) {
    RAT.store(rat, std::sync::atomic::Ordering::Relaxed);
    let ntapes = if g.rng.chance(1, 3) { 2 } else { 1 };
    g.count(&format!("c06.case.{}.tapes.{}", if rat { "rat" } else { "fp" }, ntapes));
    g.op(format!("@ tapes {} {}", ntapes, if rat { "rat" } else { "fp" }));
    let mut st = St::new(ntapes);
    new_case_names(g);
    let steps = if rat { g.rng.range(3, 8) } else { g.rng.range(3, 12) };
    g.count(&format!("c06.case.steps.{:02}", (steps + 2) / 3 * 3));
    for _ in 0..steps {
        let tape = g.rng.below(ntapes);
        let roll = g.rng.below(100);
        // Rat: a multiplying step takes input containers only, the others take anything
        let heavy = !rat || g.rng.chance(1, 2);
        let set = |st: &mut St, heavy: bool| {
            st.heavy = heavy;
            st.allow_level = if rat && heavy { 0 } else { 1 };
        };
        set(&mut st, heavy);
        // 0-dimensional tensors take part in the elementwise operations, in iteration and in
        // derivative requests
        st.allow_t0 = roll < 36 || (71..80).contains(&roll) || (83..89).contains(&roll);
        if g.rng.chance(1, 12) {
            st.allow_t0 = true;
            match g.rng.below(3) {
                0 => step_elem(&mut st, g, tape),
                1 => step_scalar(&mut st, g, tape),
                _ => {
                    st.allow_t0 = false;
                    step_swap(&mut st, g, tape)
                }
            }
        } else if roll < 18 {
            step_unary(&mut st, g, tape);
        } else if roll < 36 {
            step_binary(&mut st, g, tape, false);
        } else if roll < 48 {
            set(&mut st, true);
            step_matmul(&mut st, g, tape, false);
        } else if roll < 53 {
            set(&mut st, true);
            step_uassign(&mut st, g, tape);
        } else if roll < 63 {
            step_bassign(&mut st, g, tape, false);
        } else if roll < 71 {
            step_map(&mut st, g, tape);
        } else if roll < 77 {
            step_fromiter(&mut st, g, tape);
        } else if roll < 80 {
            step_fromiters(&mut st, g, tape);
        } else if roll < 83 {
            set(&mut st, false);
            step_reset(&mut st, g, tape);
        } else if roll < 89 {
            set(&mut st, false);
            if st.derivs < 3 {
                step_derivs(&mut st, g, tape);
            }
        } else if roll < 90 {
            set(&mut st, false);
            step_derivs_of_constant(&mut st, g);
        } else if roll < 92 {
            step_shape_mismatch(&mut st, g, tape);
        } else if roll < 96 {
            set(&mut st, false);
            step_clear_cycle(&mut st, g, tape);
        } else if ntapes == 2 {
            match g.rng.below(3) {
                0 => step_binary(&mut st, g, tape, true),
                1 => {
                    set(&mut st, true);
                    step_matmul(&mut st, g, tape, true)
                }
                _ => step_bassign(&mut st, g, tape, true),
            }
        }
    }
    // final derivatives on every tape
    st.heavy = false;
    st.allow_level = 1;
    st.allow_t0 = true;
    for t in 0..ntapes {
        if st.derivs < 4 {
            step_derivs(&mut st, g, t);
        }
    }
    RAT.store(false, std::sync::atomic::Ordering::Relaxed);
}

// ---------------------------------------------------------------------------------------------
// systematic sections
// ---------------------------------------------------------------------------------------------

/// Every ownership form of every operator family (and every entry point of the assigning /
/// mapping / reset families) once per container kind and variable/constant pairing, each followed
/// by the derivatives of every output element w.r.t. every element of the variable operands — so
/// that a wrong local derivative in one single impl body cannot go unobserved.  Counters
/// `c06.forms.<kind>.<op>.<form>` (each stands for one derivative-checked execution).
fn gen_every_form(g: &mut Gen) {
    for kind in ["T", "M"] {
        let (sx, sy, sm) = if kind == "T" { ("a:1,b:2", "a:1,b:2", "b:2,c:1") } else { ("r:1,c:2", "r:1,c:2", "r:2,c:1") };
        let head = |g: &mut Gen, ys: &str, pairing: &str| {
            g.op("@ tapes 1 fp".into());
            let (vx, vy) = (values(g, 2), values(g, 2));
            let (xv, yv) = match pairing {
                "var_var" => (true, true),
                "var_const" => (true, false),
                _ => (false, true),
            };
            g.op(if xv { format!("vars x {} {} {} t=0", kind, sx, vx) } else { format!("consts x {} {} {}", kind, sx, vx) });
            g.op(if yv { format!("vars y {} {} {} t=0", kind, ys, vy) } else { format!("consts y {} {} {}", kind, ys, vy) });
            match pairing {
                "var_var" => "x,y",
                "var_const" => "x",
                _ => "y",
            }
        };
        let pairings = ["var_var", "var_const", "const_var"];
        // two-container operators
        for op in ["add", "sub", "matmul"] {
            for form in FORMS4 {
                for pairing in pairings {
                    g.count(&format!("c06.forms.{}.{}.{}", kind, op, form));
                    let wrt = head(g, if op == "matmul" { sm } else { sy }, pairing);
                    g.op(format!("{} z x y via={}", op, form));
                    g.op(format!("derivs z wrt={} via=all", wrt));
                }
            }
        }
        for op in ["emul", "ediv"] {
            for pairing in pairings {
                g.count(&format!("c06.forms.{}.{}.ref_ref", kind, op));
                let wrt = head(g, sy, pairing);
                g.op(format!("{} z x y", op));
                g.op(format!("derivs z wrt={} via=for", wrt));
            }
        }
        for f in BFNS {
            for pairing in pairings {
                g.count(&format!("c06.forms.{}.binary.{}", kind, f));
                let wrt = head(g, sy, pairing);
                g.op(format!("binary z x y fn={}", f));
                g.op(format!("derivs z wrt={} via=all", wrt));
                for (op, vias) in [("lassign", ["assign", "do"]), ("rassign", ["assign", "do"])] {
                    for via in vias {
                        g.count(&format!("c06.forms.{}.{}.{}", kind, op, via));
                        let _ = head(g, sy, pairing);
                        g.op(format!("{} x y fn={} via={}", op, f, via));
                        // the overwritten container w.r.t. the untouched variable operand (the other
                        // one no longer holds its old positions)
                        let (target, other, other_var) = if op == "lassign" { ("x", "y", pairing != "var_const") } else { ("y", "x", pairing != "const_var") };
                        if other_var {
                            g.op(format!("derivs {} wrt={} via=all", target, other));
                        } else {
                            g.op(format!("derivs {} wrt={} via=all", target, target));
                        }
                    }
                }
            }
        }
        // one container and a number, both orders; one container
        let one = |g: &mut Gen, line: String| {
            g.op("@ tapes 1 fp".into());
            let vx = values(g, 2);
            g.op(format!("vars x {} {} {} t=0", kind, sx, vx));
            g.op(line);
            g.op("derivs z wrt=x via=all".into());
        };
        for op in ["addn", "subn", "muln", "divn", "subsw", "divsw", "pown"] {
            for form in FORMS4 {
                g.count(&format!("c06.forms.{}.{}.{}", kind, op, form));
                let k = value(g);
                one(g, format!("{} z x {} via={}", op, k, form));
            }
        }
        for form in FORMS4 {
            g.count(&format!("c06.forms.{}.npow.{}", kind, form));
            let k = value(g);
            one(g, format!("npow z {} x via={}", k, form));
        }
        for op in ["neg", "sin", "cos", "exp", "ln", "sqrt"] {
            for form in FORMS2 {
                g.count(&format!("c06.forms.{}.{}.{}", kind, op, form));
                one(g, format!("{} z x via={}", op, form));
            }
        }
        for f in UNARY_FNS {
            g.count(&format!("c06.forms.{}.unary.{}", kind, f));
            one(g, format!("unary z x fn={}", f));
            for via in ["assign", "do"] {
                g.count(&format!("c06.forms.{}.uassign.{}", kind, via));
                g.op("@ tapes 1 fp".into());
                let vx = values(g, 2);
                g.op(format!("vars x {} {} {} t=0", kind, sx, vx));
                g.op("neg x0 x via=ref".into());
                g.op(format!("uassign x0 fn={} via={}", f, via));
                g.op("derivs x0 wrt=x via=for".into());
            }
        }
        for (via, f) in [("map", "sq"), ("map", "aff"), ("with_index", "scale"), ("with_index", "sq")] {
            g.count(&format!("c06.forms.{}.map.{}", kind, via));
            one(g, format!("map z x fn={} via={}", f, via));
        }
        for (via, f) in [("map_mut", "sq"), ("map_mut", "aff"), ("with_index", "scale"), ("with_index", "aff")] {
            g.count(&format!("c06.forms.{}.mapmut.{}", kind, via));
            g.op("@ tapes 1 fp".into());
            let vx = values(g, 2);
            g.op(format!("vars x {} {} {} t=0", kind, sx, vx));
            g.op("neg x0 x via=ref".into());
            g.op(format!("mapmut x0 fn={} via={}", f, via));
            g.op("derivs x0 wrt=x via=all".into());
        }
    }
}

/// Element access as a record, systematically: every access flavour × `get`/`try` × both
/// `From<Record>` forms × every ordering of the dimensions (D = 1, 2, 3) and matrices, every
/// in-range index and the out-of-range neighbours, each in-range record differentiated; the four
/// `Record` ↔ 0-dimensional tensor conversions; element swaps; layouts; renamed views.
fn gen_element_access(g: &mut Gen) {
    let accesses = ["index_by", "owned", "mut"];
    let mut n = 0usize;
    for (shape, perms) in [
        ("a:3", vec![vec![0]]),
        ("a:2,b:3", vec![vec![0, 1], vec![1, 0]]),
        ("a:2,b:1,c:2", permutations(3)),
    ] {
        let sh = parse_shape(shape);
        for perm in perms {
            for var in [true, false] {
                g.op("@ tapes 1 fp".into());
                let total: usize = sh.iter().map(|d| d.1).product();
                let vals = values(g, total);
                if var {
                    g.op(format!("vars x T {} {} t=0", shape, vals));
                    g.op("muln y x 3 via=ref_ref".into());
                } else {
                    g.op(format!("consts y T {} {}", shape, vals));
                }
                let identity = (0..perm.len()).all(|i| perm[i] == i);
                let tok = if identity { "y".to_string() } else { format!("y/acc.{}", perm.iter().map(|p| p.to_string()).collect::<Vec<_>>().join(".")) };
                let lens: Vec<usize> = perm.iter().map(|&p| sh[p].1).collect();
                // every index with coordinates 0..=len
                let mut idxs: Vec<Vec<usize>> = vec![vec![]];
                for &l in &lens {
                    idxs = idxs.iter().flat_map(|p| (0..=l).map(move |i| { let mut q = p.clone(); q.push(i); q })).collect();
                }
                for idx in idxs {
                    let access = accesses[n % 3];
                    let form = ["get", "try"][(n / 3) % 2];
                    let conv = ["val", "ref"][(n / 6) % 2];
                    n += 1;
                    let inr = idx.iter().zip(lens.iter()).all(|(i, l)| i < l);
                    g.count(&format!("c06.forms.T.elem.{}.{}.{}", access, form, if inr { "in_range" } else { "out_of_range" }));
                    g.op(format!("elem e{} {} {} via={}.{}.{}", n, tok, show_usizes(&idx), access, form, conv));
                    if inr && var {
                        g.op(format!("derivs e{} wrt=x via={}", n, if n % 2 == 0 { "all" } else { "for" }));
                    }
                }
            }
        }
    }
    for var in [true, false] {
        g.op("@ tapes 1 fp".into());
        let vals = values(g, 6);
        if var {
            g.op(format!("vars x M r:2,c:3 {} t=0", vals));
            g.op("subsw y x 5 via=ref_ref".into());
        } else {
            g.op(format!("consts y M r:2,c:3 {}", vals));
        }
        for r in 0..=2 {
            for c in 0..=3 {
                for form in ["get", "try"] {
                    n += 1;
                    let inr = r < 2 && c < 3;
                    g.count(&format!("c06.forms.M.elem.matrix.{}.{}", form, if inr { "in_range" } else { "out_of_range" }));
                    g.op(format!("elem e{} y {},{} via=matrix.{}.{}", n, r, c, form, if n % 2 == 0 { "val" } else { "ref" }));
                    if inr && var {
                        g.op(format!("derivs e{} wrt=x via=all", n));
                    }
                }
            }
        }
    }
    // Record <-> 0-dimensional tensor, the records then take part in operations
    for a in ["val", "ref"] {
        for b in ["val", "ref"] {
            g.count(&format!("c06.forms.T.scalar.{}.{}", a, b));
            g.op("@ tapes 1 fp".into());
            let vals = values(g, 2);
            g.op(format!("vars x T a:2 {} t=0", vals));
            g.op("elem p x 0 via=index_by.get.val".into());
            g.op("elem q x 1 via=mut.try.ref".into());
            g.op(format!("scalar p2 p via={}.{}", a, b));
            g.op("emul z p2 q".into());
            g.op("sin s z via=ref".into());
            g.op("derivs s wrt=x,p,q via=all".into());
            g.op("fromiter v s to=T shape=a:1 order=rm fn=sq via=with_index".into());
            g.op("derivs v wrt=x via=for".into());
        }
    }
    // elements moved inside a container, its layout as a source, renamed / re-indexed views
    for kind in ["T", "M"] {
        g.count(&format!("c06.forms.{}.swap", kind));
        g.op("@ tapes 1 fp".into());
        let vals = values(g, 4);
        let shape = if kind == "T" { "a:2,b:2" } else { "r:2,c:2" };
        g.op(format!("vars x {} {} {} t=0", kind, shape, vals));
        g.op("neg y x via=ref".into());
        g.op("swap y 0,1 1,0".into());
        g.op("swap y 0,0 2,0".into());
        g.op("layout y".into());
        g.op("derivs y wrt=x via=all".into());
        g.op("emul z y x".into());
        g.op("derivs z wrt=x via=for".into());
        if kind == "T" {
            g.count("c06.forms.T.rename_view");
            g.op("exp yr y/rn.p.q via=ref".into());
            g.op("add w yr x/rn.p.q via=ref_ref".into());
            g.op("derivs w wrt=x,y/rn.b.a via=all".into());
            g.op("matmul m y/rn.p.q x via=ref_ref".into());
            g.op("add bad y/rn.p.q x via=ref_ref".into());
            g.op("fromiter f y/acc.1.0 to=T shape=a:4 order=rm fn=scale via=into".into());
            g.op("fromiter f2 y to=M shape=r:2,c:2 order=rm fn=alt via=from_with_index".into());
            g.op("derivs f wrt=x via=all".into());
        } else {
            g.op("fromiter f y to=M shape=r:1,c:4 order=rm fn=scale via=with_index".into());
            g.op("fromiter f2 y/rev.1.0 to=T shape=a:4 order=rm fn=scale via=into".into());
            g.op("derivs f2 wrt=x via=all".into());
        }
    }
}

/// Sizes beyond the small random shapes: matrix multiplication with inner / outer lengths 8..12
/// in non-square shapes (left and right operand tall and wide), containers of 33..70 elements
/// created with `variables()` and `reset()` on a tape that already holds entries, elementwise
/// operations on them.  Single elements are differentiated (`elem` + `derivs`), so the lines stay
/// short while every parent position matters.
fn gen_large(g: &mut Gen) {
    // (m, n, l): m×n times n×l
    let dims = [(3usize, 9usize, 2usize), (2, 8, 3), (2, 8, 10), (9, 2, 8), (1, 12, 2), (3, 10, 9), (2, 11, 1)];
    for kind in ["T", "M"] {
        for &(m, n, l) in &dims {
            for pairing in ["var_var", "var_const", "const_var"] {
                g.count(&format!("c06.large.matmul.{}.{}x{}x{}", kind, m, n, l));
                g.op("@ tapes 1 fp".into());
                let (sa, sb) = if kind == "T" { (format!("a:{},b:{}", m, n), format!("b:{},c:{}", n, l)) } else { (format!("r:{},c:{}", m, n), format!("r:{},c:{}", n, l)) };
                let pv = values(g, 2);
                g.op(format!("vars p T a:2 {} t=0", pv));
                let (va, vb) = (values(g, m * n), values(g, n * l));
                let (av, bv) = (pairing != "const_var", pairing != "var_const");
                g.op(if av { format!("vars x {} {} {} t=0", kind, sa, va) } else { format!("consts x {} {} {}", kind, sa, va) });
                g.op(if bv { format!("vars y {} {} {} t=0", kind, sb, vb) } else { format!("consts y {} {} {}", kind, sb, vb) });
                let via = *g.rng.pick(&FORMS4);
                g.op(format!("matmul z x y via={}", via));
                let wrt = match pairing {
                    "var_var" => "x,y",
                    "var_const" => "x",
                    _ => "y",
                };
                for _ in 0..2 {
                    let (i, j) = (g.rng.below(m), g.rng.below(l));
                    let access = if kind == "M" { "matrix" } else { "index_by" };
                    g.op(format!("elem e z {},{} via={}.get.val", i, j, access));
                    g.op(format!("derivs e wrt={} via=all", wrt));
                }
            }
        }
    }
    let shapes: [(&str, &str, Vec<usize>); 8] = [
        ("T", "a:6,b:6", vec![6, 6]),
        ("T", "a:7,b:7", vec![7, 7]),
        ("T", "a:3,b:11", vec![3, 11]),
        ("T", "a:2,b:3,c:7", vec![2, 3, 7]),
        ("T", "a:35", vec![35]),
        ("M", "r:6,c:6", vec![6, 6]),
        ("M", "r:3,c:11", vec![3, 11]),
        ("M", "r:17,c:4", vec![17, 4]),
    ];
    for (kind, shape, lens) in shapes.iter() {
        let total: usize = lens.iter().product();
        g.count(&format!("c06.large.container.{}.{:02}", kind, total));
        g.op("@ tapes 1 fp".into());
        let pv = values(g, 3);
        g.op(format!("vars p T a:3 {} t=0", pv));
        let vx = values(g, total);
        g.op(format!("vars x {} {} {} t=0", kind, shape, vx));
        let k = value(g);
        g.op(format!("addn y x {} via=ref_ref", k));
        g.op("emul z y x".into());
        let access = if *kind == "M" { "matrix" } else { "index_by" };
        let pick = |g: &mut Gen| lens.iter().map(|&l| g.rng.below(l).to_string()).collect::<Vec<_>>().join(",");
        let last = lens.iter().map(|&l| (l - 1).to_string()).collect::<Vec<_>>().join(",");
        for idx in [pick(g), last.clone()] {
            g.op(format!("elem e z {} via={}.get.val", idx, access));
            g.op("derivs e wrt=x,p via=all".into());
        }
        // reset onto the non-empty tape, then again after a clear that is followed by new entries
        g.op("reset x via=reset".into());
        g.op("sub w x y via=ref_ref".into());
        let idx = pick(g);
        g.op(format!("elem e w {} via={}.try.ref", idx, access));
        g.op("derivs e wrt=x,p via=for".into());
        g.op("clear t=0".into());
        let qv = values(g, 2);
        g.op(format!("vars q T a:2 {} t=0", qv));
        g.op("reset x via=do_reset".into());
        g.op("unary u x fn=cube".into());
        for idx in [pick(g), last.clone()] {
            g.op(format!("elem e u {} via={}.get.ref", idx, access));
            g.op("derivs e wrt=x,q via=all".into());
        }
    }
}

/// `f64` at points where a partial derivative is not finite (`sqrt`, `ln`, `k / x`, `x / y`,
/// `x^0.5` at 0.0), with the offending element at every position of the container: the container
/// computation against the same computation on scalar `Record`s inside the harness (the Lean model
/// only answers shapes, constness and positions for these cases; numbers are compared by the
/// harness, NaN = NaN, bit patterns otherwise).
fn gen_f64_boundary(g: &mut Gen) {
    let ops: [(&str, &str); 8] = [
        ("sqrt", "sqrt y x via=ref"),
        ("ln", "ln y x via=val"),
        ("divsw", "divsw y x 2.5 via=ref_ref"),
        ("pown", "pown y x 0.5 via=ref_ref"),
        ("ediv", "ediv y c x"),
        ("binary_div", "binary y c x fn=div"),
        ("npow", "npow y 0.0 x via=ref_ref"),
        ("divn", "divn y x 0.0 via=ref_ref"),
    ];
    for (kind, shape, n) in [("T", "a:3", 3usize), ("M", "r:2,c:2", 4), ("T", "a:2,b:2", 4)] {
        for (name, line) in ops.iter() {
            for pos in 0..n {
                for after_reset in [false, true] {
                    g.count(&format!("c06.f64.{}.{}.position{}", kind, name, pos));
                    g.op("@ tapes 1 f64".into());
                    let vals: Vec<String> = (0..n).map(|i| if i == pos { "0.0".to_string() } else { format!("{}.5", i + 1) }).collect();
                    g.op(format!("vars x {} {} {} t=0", kind, shape, vals.join(",")));
                    g.op(format!("vars c {} {} {} t=0", kind, shape, (0..n).map(|i| format!("{}.25", i + 2)).collect::<Vec<_>>().join(",")));
                    if after_reset {
                        g.op("clear t=0".into());
                        g.op("reset c via=reset".into());
                        g.op("reset x via=do_reset".into());
                    }
                    g.op(line.to_string());
                    g.op("derivs y wrt=x,c via=all".into());
                    g.op("emul z y y".into());
                    g.op("derivs z wrt=x via=for".into());
                }
            }
        }
    }
}

/// Degenerate data and closures: user closures that panic at the k-th element (then the
/// survivors and the tape are used again), closures capturing a separately created record of the
/// same tape in every `map*` entry point, containers full of zeros / ones / equal values in every
/// variable/constant mix (products with zero factors must still get their tape entries), the same
/// container on both sides of an operation.
fn gen_degenerate(g: &mut Gen) {
    for kind in ["T", "M"] {
        let (sx, n) = if kind == "T" { ("a:3", 3usize) } else { ("r:1,c:3", 3usize) };
        let mut case = |g: &mut Gen, label: &str, lines: Vec<String>| {
            g.count(&format!("c06.degenerate.{}.{}", kind, label));
            g.op("@ tapes 1 fp".into());
            let (vx, vy) = (values(g, n), values(g, n));
            g.op(format!("vars x {} {} {} t=0", kind, sx, vx));
            g.op(format!("vars y {} {} {} t=0", kind, sx, vy));
            for l in lines {
                g.op(l);
            }
            // the survivors and the tape after the panic
            g.op("derivs x wrt=x,y via=all".into());
            g.op("emul z x y".into());
            g.op("derivs z wrt=x,y via=for".into());
        };
        for k in [0usize, 1, n - 1] {
            case(g, "boom.unary", vec![format!("unary u x fn=boom.{}", k)]);
            for (tok, via) in [("x", "assign"), ("x", "do"), ("x/ref", "assign")] {
                case(g, "boom.uassign", vec![format!("uassign {} fn=boom.{} via={}", tok, k, via)]);
            }
            case(g, "boom.binary", vec![format!("binary u x y fn=boom.{}", k)]);
            for (op, via) in [("lassign", "assign"), ("lassign", "do"), ("rassign", "assign"), ("rassign", "do")] {
                case(g, &format!("boom.{}", op), vec![format!("{} x y fn=boom.{} via={}", op, k, via)]);
            }
            for via in ["map", "with_index"] {
                case(g, "boom.map", vec![format!("map u x fn=boom.{} via={}", k, via)]);
            }
            for (tok, via) in [("x", "map_mut"), ("x/ref", "map_mut"), ("x/ref", "with_index"), ("x", "with_index")] {
                case(g, "boom.mapmut", vec![format!("mapmut {} fn=boom.{} via={}", tok, k, via)]);
            }
        }
        // closures capturing a record of the same tape, in every map* entry point
        for via in ["map", "with_index"] {
            case(g, "cap.map", vec![format!("map u x fn=cap.0 via={}", via), "derivs u wrt=x via=all".into()]);
        }
        for (tok, via) in [("x", "map_mut"), ("x/ref", "with_index"), ("x", "with_index")] {
            case(g, "cap.mapmut", vec![format!("mapmut {} fn=cap.0 via={}", tok, via)]);
        }
        case(g, "cap.fromiter", vec![format!("fromiter u x to={} shape={} order=rm fn=cap.0", kind, sx), "derivs u wrt=x via=all".into()]);
        // the same container (object) on both sides
        for op in ["add", "sub"] {
            for form in FORMS4 {
                case(g, "same_container", vec![format!("{} u x x via={}", op, form), "derivs u wrt=x via=all".into()]);
            }
        }
        for l in ["emul u x x", "ediv u x x", "binary u x x fn=psq", "emul u x/ref x/ref", "lassign x x fn=sub via=assign", "rassign x x fn=div via=do"] {
            case(g, "same_container", vec![l.to_string(), "derivs x wrt=x via=all".into()]);
        }
        // zeros, ones and equal values in every variable/constant mix; matrix products with zero
        // factors and zero rows / columns
        let (s2, sm) = if kind == "T" { ("a:2,b:2", "b:2,c:2") } else { ("r:2,c:2", "r:2,c:2") };
        let fills = ["0,0,0,0", "1,1,1,1", "0,1,0,0", "0,0,3,0", "5,5,5,5", "0,7,7,0"];
        for fx in fills {
            for fy in ["0,0,0,0", "1,0,0,1", "0,0,2,0", "5,5,5,5"] {
                for pairing in ["var_var", "var_const", "const_var", "const_const"] {
                    g.count(&format!("c06.degenerate.{}.zeros.{}", kind, pairing));
                    g.op("@ tapes 1 fp".into());
                    let (xv, yv) = (pairing.starts_with("var"), pairing.ends_with("var"));
                    g.op(if xv { format!("vars x {} {} {} t=0", kind, s2, fx) } else { format!("consts x {} {} {}", kind, s2, fx) });
                    g.op(if yv { format!("vars y {} {} {} t=0", kind, sm, fy) } else { format!("consts y {} {} {}", kind, sm, fy) });
                    g.op("matmul z x y via=ref_ref".into());
                    let wrt = match (xv, yv) {
                        (true, true) => "x,y",
                        (true, false) => "x",
                        (false, true) => "y",
                        _ => "-",
                    };
                    g.op(format!("derivs z wrt={} via=all", wrt));
                    if kind == "M" {
                        g.op("emul p x y".into());
                        g.op("ediv q x y".into());
                        g.op("sub d p q via=ref_ref".into());
                        g.op(format!("derivs d wrt={} via=for", wrt));
                    } else {
                        g.op("sqrt p x via=ref".into());
                        g.op("divsw q x 0 via=ref_ref".into());
                        g.op("add d p q via=val_ref".into());
                        g.op(format!("derivs d wrt={} via=all", if xv { "x" } else { "-" }));
                    }
                }
            }
        }
    }
}

/// Dimension names: the library's internal names, prefixes / substrings of one another, the
/// empty name; matmul operands whose names are in substring relation or collide; elementwise
/// operands whose names are permutations of one another (rejected: the shapes differ).
fn gen_names(g: &mut Gen) {
    let pairs: [(&str, &str, &str, &str); 10] = [
        ("row", "rows", "rows", "row"),
        ("row", "rows", "rows", "r"),
        ("r", "rr", "rr", "c"),
        ("a", "aa", "aa", "ab"),
        ("a", "ab", "ab", "a"),
        ("_empty_", "x", "x", "xy"),
        ("x", "_empty_", "_empty_", "x"),
        ("column", "columns", "columns", "_empty_"),
        ("samples", "features", "features", "samples"),
        ("i", "j", "j", "batch"),
    ];
    for (l0, l1, r0, r1) in pairs {
        g.count("c06.names.matmul");
        g.op("@ tapes 1 fp".into());
        let (vx, vy) = (values(g, 4), values(g, 4));
        g.op(format!("vars x T {}:2,{}:2 {} t=0", l0, l1, vx));
        g.op(format!("vars y T {}:2,{}:2 {} t=0", r0, r1, vy));
        g.op("matmul z x y via=ref_ref".into());
        g.op("derivs z wrt=x,y via=all".into());
        // the names permuted: another shape
        g.op(format!("vars p T {}:2,{}:2 {} t=0", l1, l0, vx));
        g.op("add s x p via=ref_ref".into());
        g.op("emul s x p".into());
        g.op("lassign x p fn=add via=assign".into());
        g.op("add s x p/acc.1.0 via=ref_ref".into());
        g.op("derivs s wrt=x,p via=all".into());
        g.op(format!("fromiter f x to=T shape={}:4 order=rm fn=sq", l1));
        g.op(format!("fromiter f2 x to=T shape={}:2,{}:2 order=rm", l0, l0));
        g.op(format!("elem e x 1,0 via=index_by.get.val"));
        g.op(format!("elem e2 x/acc.1.0 1,0 via=mut.try.ref"));
    }
}

/// `f64` with ±0.0, ±inf, NaN among the numbers, through every operation of the reduced
/// vocabulary and every variable/constant mix: results and derivatives compared by bit pattern
/// (NaN = NaN) with the same computation on scalar `Record`s.
fn gen_f64_special(g: &mut Gen) {
    let specials = ["0.0", "-0.0", "inf", "-inf", "NaN", "1.0", "-1.0", "2.5", "0.5", "-3.25"];
    let ops: Vec<String> = {
        let mut v: Vec<String> = vec![];
        for op in ["add", "sub"] {
            v.push(format!("{} z x y via=ref_ref", op));
        }
        for op in ["emul", "ediv", "matmul"] {
            v.push(format!("{} z x y", op));
        }
        for f in ["psq", "axy", "div", "mul"] {
            v.push(format!("binary z x y fn={}", f));
        }
        for op in ["addn", "subn", "muln", "divn", "subsw", "divsw", "pown"] {
            for k in ["0.0", "-0.0", "inf", "2.5"] {
                v.push(format!("{} z x {} via=ref_ref", op, k));
            }
        }
        for k in ["0.0", "inf", "2.5"] {
            v.push(format!("npow z {} x via=ref_ref", k));
        }
        for op in ["neg", "sin", "cos", "exp", "ln", "sqrt"] {
            v.push(format!("{} z x via=ref", op));
        }
        for f in UNARY_FNS {
            v.push(format!("unary z x fn={}", f));
        }
        v
    };
    for (kind, sx, sy) in [("T", "a:2,b:2", "b:2,c:2"), ("M", "r:2,c:2", "r:2,c:2")] {
        for line in &ops {
            let is_matmul = line.starts_with("matmul");
            let binary = line.contains(" x y");
            for pairing in ["var_var", "var_const", "const_var"] {
                if !binary && pairing != "var_var" {
                    continue;
                }
                for _ in 0..2 {
                    g.count(&format!("c06.f64.special.{}.{}", kind, line.split(' ').next().unwrap()));
                    g.op("@ tapes 1 f64".into());
                    let fill = |g: &mut Gen| (0..4).map(|_| *g.rng.pick(&specials)).collect::<Vec<_>>().join(",");
                    let (vx, vy) = (fill(g), fill(g));
                    let (xv, yv) = (pairing.starts_with("var"), pairing.ends_with("var"));
                    let ys = if is_matmul { sy } else { sx };
                    g.op(if xv { format!("vars x {} {} {} t=0", kind, sx, vx) } else { format!("consts x {} {} {}", kind, sx, vx) });
                    g.op(if yv { format!("vars y {} {} {} t=0", kind, ys, vy) } else { format!("consts y {} {} {}", kind, ys, vy) });
                    g.op(line.clone());
                    let wrt = match (xv, yv) {
                        (true, true) => "x,y",
                        (true, false) => "x",
                        _ => "y",
                    };
                    g.op(format!("derivs z wrt={} via=all", wrt));
                }
            }
        }
    }
}

/// Every in-place / assigning form × all four constant/variable pairings, each followed by uses
/// of the overwritten container: its constness (`history()`), a further operation with a
/// variable of the same tape, one with a variable of ANOTHER tape (panics exactly when the
/// overwritten container is now a variable of tape 0), derivatives through it, and a
/// clear + reset cycle.
fn gen_assign_followup(g: &mut Gen) {
    // (line template with target `x` and other operand `y`, which name is overwritten)
    let forms: Vec<(String, &str)> = {
        let mut v: Vec<(String, &str)> = vec![];
        for via in ["assign", "do"] {
            for f in ["psq", "sub"] {
                v.push((format!("lassign x y fn={} via={}", f, via), "x"));
                v.push((format!("rassign y x fn={} via={}", f, via), "x"));
            }
            v.push((format!("uassign x fn=cube via={}", via), "x"));
        }
        v.push(("lassign x/ref y fn=axy via=assign".into(), "x"));
        v.push(("rassign y x/ref fn=div via=assign".into(), "x"));
        for (f, via) in [("aff", "map_mut"), ("scale", "with_index"), ("konst", "map_mut"), ("lift.0", "map_mut"), ("cap.0", "with_index")] {
            v.push((format!("mapmut x fn={} via={}", f, via), "x"));
        }
        v
    };
    for kind in ["T", "M"] {
        let shape = if kind == "T" { "a:2,b:1" } else { "r:1,c:2" };
        for (line, target) in &forms {
            for pairing in ["var_var", "var_const", "const_var", "const_const"] {
                // a view cannot change the tape of the container it writes through
                if line.contains("x/ref") && pairing == "const_var" {
                    continue;
                }
                g.count(&format!("c06.assign_followup.{}.{}.{}", kind, line.split(' ').next().unwrap(), pairing));
                g.op("@ tapes 2 fp".into());
                let (xv, yv) = (pairing.starts_with("var"), pairing.ends_with("var"));
                let (vx, vy, vv, vu) = (values(g, 2), values(g, 2), values(g, 2), values(g, 2));
                g.op(if xv { format!("vars x {} {} {} t=0", kind, shape, vx) } else { format!("consts x {} {} {}", kind, shape, vx) });
                g.op(if yv { format!("vars y {} {} {} t=0", kind, shape, vy) } else { format!("consts y {} {} {}", kind, shape, vy) });
                g.op(format!("vars v {} {} {} t=0", kind, shape, vv));
                g.op(format!("vars u {} {} {} t=1", kind, shape, vu));
                g.op(line.clone());
                // follow-up uses of the overwritten container
                g.op(format!("emul s {} v", target));
                g.op(format!("sub s2 u {} via=ref_ref", target));
                g.op(format!("add s3 {} u via=val_ref", target));
                g.op(format!("derivs s wrt={},v{} via=all", target, if yv { ",y" } else { "" }));
                g.op(format!("derivs {} wrt=v{} via=for", target, if yv { ",y" } else { "" }));
                g.op(format!("lassign v {} fn=add via=assign", target));
                g.op("clear t=0".into());
                g.op(format!("reset {} via=reset", target));
                g.op("reset v via=do_reset".into());
                g.op(format!("ediv z v {}", target));
                g.op(format!("derivs z wrt=v,{} via=all", target));
            }
        }
    }
}

/// PRODUCER → CONSUMER: a container made by each construction route is fed to each consumer
/// (every operator on either side, the assigning forms, iteration as records and back, views —
/// i.e. `from_existing` over borrowed / re-indexed / ranged / reversed / renamed sources —,
/// `reset`, element access, `derivatives_for`).
fn gen_producer_consumer(g: &mut Gen) {
    for kind in ["T", "M"] {
        let (shape, sq) = if kind == "T" { ("a:2,b:2", "a:2,b:2") } else { ("r:2,c:2", "r:2,c:2") };
        let to = kind;
        // producers of `p` from the variables `x` (and `v`)
        let producers: Vec<(&str, Vec<String>)> = vec![
            ("variables", vec![format!("vars p {} {} 3,0,1,5 t=0", kind, shape)]),
            ("constants", vec![format!("consts p {} {} 0,2,2,1", kind, shape)]),
            ("from_iter", vec![format!("fromiter p x to={} shape={} order=rm fn=aff", to, sq)]),
            ("from_iter_indexed", vec![format!("fromiter p x to={} shape={} order=rm fn=scale via=with_index", to, sq)]),
            ("from_iters", vec![format!("fromiters p,p9 x to={} shape={} fn=sq,id", to, sq)]),
            ("map", vec!["map p x fn=sq via=map".into()]),
            ("map_to_constants", vec!["map p x fn=konst via=with_index".into()]),
            ("scalar_op", vec!["subsw p x 3 via=val_ref".into()]),
            ("real_fn", vec!["exp p x via=ref".into()]),
            ("unary", vec!["unary p x fn=cube".into()]),
            ("operator", vec!["sub p x v via=ref_val".into()]),
            ("binary", vec!["binary p v x fn=psq".into()]),
            ("matmul", vec!["matmul p x v via=ref_ref".into()]),
            ("left_assign", vec!["neg p x via=ref".into(), "lassign p v fn=div via=do".into()]),
            ("right_assign_onto_constants", vec![format!("consts p {} {} 1,1,0,4", kind, shape), "rassign x p fn=psq via=assign".into()]),
            ("reset_copy", vec!["addn p x 0 via=ref_ref".into(), "reset p via=reset".into()]),
        ];
        let views: Vec<&str> = if kind == "T" {
            vec!["", "/ref", "/acc.1.0", "/tr.1.0", "/rg.0+2.0+2", "/rev.1.0", "/rn.x.xy"]
        } else {
            vec!["", "/ref", "/rg.0+2.0+2", "/rev.0.1"]
        };
        // consumers of `p` (result `r`, or `p` itself when it is overwritten)
        let mut consumers: Vec<(String, Vec<String>, &str)> = vec![];
        for (op, extra) in [("add", " via=val_ref"), ("sub", " via=ref_ref"), ("emul", ""), ("ediv", ""), ("binary", " fn=axy"), ("matmul", " via=ref_val")] {
            consumers.push((format!("{}.left", op), vec![format!("{} r p v{}", op, extra)], "r"));
            consumers.push((format!("{}.right", op), vec![format!("{} r v p{}", op, extra)], "r"));
        }
        for l in ["muln r p 3 via=ref_ref", "divsw r p 2 via=val_val", "neg r p via=val", "sqrt r p via=ref", "unary r p fn=aff"] {
            consumers.push((l.split(' ').next().unwrap().to_string(), vec![l.to_string()], "r"));
        }
        consumers.push(("lassign.target".into(), vec!["lassign p v fn=psq via=assign".into()], "p"));
        consumers.push(("lassign.other".into(), vec!["lassign v p fn=sub via=do".into()], "v"));
        consumers.push(("rassign.target".into(), vec!["rassign v p fn=axy via=do".into()], "p"));
        consumers.push(("uassign".into(), vec!["uassign p fn=cube via=assign".into()], "p"));
        consumers.push(("mapmut".into(), vec!["mapmut p fn=aff via=with_index".into()], "p"));
        consumers.push(("map".into(), vec!["map r p fn=sq via=with_index".into()], "r"));
        consumers.push(("iter_as_records".into(), vec![format!("fromiter r p to={} shape={} order=rev fn=id", if kind == "T" { "M" } else { "T" }, if kind == "T" { "r:1,c:4" } else { "a:4" })], "r"));
        consumers.push(("iter_into".into(), vec![format!("fromiter r p to={} shape={} order=rm fn=scale via=into", to, sq)], "r"));
        consumers.push(("iter_chain".into(), vec![format!("fromiter r p to=T shape=a:8 order=rm chain=v")], "r"));
        consumers.push(("reset".into(), vec!["reset p via=do_reset".into(), "emul r p v".into()], "r"));
        consumers.push(("elem".into(), vec![format!("elem r p 1,0 via={}.get.val", if kind == "T" { "mut" } else { "matrix" })], "r"));
        for view in views.iter().skip(1) {
            consumers.push((format!("view{}", view.split('.').next().unwrap()), vec![format!("cos r p{} via=ref", view)], "r"));
        }
        for (pname, plines) in &producers {
            for (cname, clines, out) in &consumers {
                g.count(&format!("c06.producer_consumer.{}.{}.{}", kind, pname, cname.replace('/', "")));
                g.op("@ tapes 1 fp".into());
                let (vx, vv) = (values(g, 4), values(g, 4));
                g.op(format!("vars x {} {} {} t=0", kind, shape, vx));
                g.op(format!("vars v {} {} {} t=0", kind, shape, vv));
                for l in plines {
                    g.op(l.clone());
                }
                for l in clines {
                    g.op(l.clone());
                }
                g.op(format!("derivs {} wrt=x,v via={}", out, if (pname.len() + cname.len()) % 2 == 0 { "all" } else { "for" }));
            }
        }
    }
}

/// the witness of defect 11 and its mirror images, for tensors and matrices
fn gen_constant_operand_matmul(g: &mut Gen) {
    for kind in ["T", "M"] {
        for const_left in [false, true] {
            g.count("c06.systematic.matmul_one_constant_operand");
            g.op("@ tapes 1 fp".into());
            let (sa, sb) = if kind == "T" { ("a:1,b:2", "b:2,c:1") } else { ("r:1,c:2", "r:2,c:1") };
            if const_left {
                g.op(format!("consts x {} {} 2,3", kind, sa));
                g.op(format!("vars y {} {} 5,7 t=0", kind, sb));
            } else {
                g.op(format!("vars x {} {} 2,3 t=0", kind, sa));
                g.op(format!("consts y {} {} 5,7", kind, sb));
            }
            g.op("matmul z x y via=ref_ref".into());
            g.op(format!("derivs z wrt={} via=all", if const_left { "y" } else { "x" }));
        }
    }
}

/// every container binary operation form with two variables of two different tapes, in both
/// operand orders; afterwards both tapes are still usable and hand out the next positions
fn gen_cross_tape(g: &mut Gen) {
    let mut forms: Vec<(String, String)> = vec![];
    for op in ["add", "sub", "matmul"] {
        for f in FORMS4 {
            forms.push((op.to_string(), format!("via={}", f)));
        }
    }
    forms.push(("emul".into(), String::new()));
    forms.push(("ediv".into(), String::new()));
    for f in BINARY_FNS {
        forms.push(("binary".into(), format!("fn={}", f)));
    }
    for op in ["lassign", "rassign"] {
        for v in ["assign", "do"] {
            forms.push((op.to_string(), format!("fn=psq via={}", v)));
        }
    }
    for kind in ["T", "M"] {
        let shape = if kind == "T" { "a:2,b:2" } else { "r:2,c:2" };
        for (op, opts) in &forms {
            for swap in [false, true] {
                g.count(&format!("c06.cross.{}.{}", op, kind));
                g.op("@ tapes 2 fp".into());
                let (vx, vy) = (values(g, 4), values(g, 4));
                g.op(format!("vars x {} {} {} t=0", kind, shape, vx));
                g.op(format!("vars y {} {} {} t=1", kind, if kind == "T" && op == "matmul" { "b:2,c:2" } else { shape }, vy));
                g.op("emul x2 x x".into());
                let (a, b) = if swap { ("y", "x2") } else { ("x2", "y") };
                if op == "lassign" || op == "rassign" {
                    g.op(format!("{} {} {} {}", op, a, b, opts));
                } else {
                    g.op(format!("{} z {} {} {}", op, a, b, opts));
                }
                g.op("derivs x2 wrt=x via=all".into());
                g.op("neg y2 y via=ref".into());
                g.op("derivs y2 wrt=y via=for".into());
                g.op("reset x via=reset".into());
            }
        }
    }
}

/// clear / reset cycles of containers: several containers on one tape, partial resets, resets
/// in another order than creation, reset through reordering views
fn gen_reset_cycles(g: &mut Gen) {
    for kind in ["T", "M"] {
        // non-square on purpose: a block of the wrong size (rows², columns²) shows
        let (s1, s2) = if kind == "T" { ("a:2,b:3", "b:3,c:1") } else { ("r:2,c:3", "r:3,c:1") };
        for variant in 0..4 {
            g.count("c06.systematic.reset_cycle");
            g.op("@ tapes 1 fp".into());
            let (vx, vy) = (values(g, 6), values(g, 3));
            g.op(format!("vars x {} {} {} t=0", kind, s1, vx));
            g.op(format!("vars y {} {} {} t=0", kind, s2, vy));
            g.op("matmul z x y via=ref_ref".into());
            g.op("derivs z wrt=x,y via=all".into());
            for cycle in 0..2 {
                g.op("clear t=0".into());
                match (variant + cycle) % 4 {
                    0 => {
                        g.op("reset x via=reset".into());
                        g.op("reset y via=do_reset".into());
                    }
                    1 => {
                        g.op("reset y via=reset".into());
                        g.op("reset x/rev.1.0 via=reset".into());
                    }
                    2 => {
                        g.op("reset y/ref via=reset".into());
                        g.op(format!("reset x{} via=reset", if kind == "T" { "/tr.1.0" } else { "/rev.0.1" }));
                    }
                    _ => {
                        g.op("reset x via=do_reset".into());
                        g.op("reset x via=reset".into());
                        g.op("reset y via=reset".into());
                    }
                }
                g.op("matmul z x y via=val_ref".into());
                g.op("sub w z z via=ref_ref".into());
                g.op("derivs z wrt=x,y via=for".into());
                g.op("derivs w wrt=x via=all".into());
            }
        }
    }
}

// ---------------------------------------------------------------------------------------------
// the operator catalogue against the source tree
// ---------------------------------------------------------------------------------------------

/// `(macro, trait, container)` of every operator macro invocation in the container sources
fn scan_operator_macros(repo: &str) -> Option<Vec<(String, String, String)>> {
    let mut out = vec![];
    for file in ["src/differentiation/container_record/container_operations.rs", "src/differentiation/container_record/container_operations/swapped.rs"] {
        let text = std::fs::read_to_string(format!("{}/{}", repo, file)).ok()?;
        // the `SwappedOperations` impl the scan is inside of: its method bodies are listed one by one
        let mut swapped_impl: Option<(String, String)> = None;
        for line in text.lines() {
            let l = line.trim_start();
            if line.starts_with("impl<") {
                swapped_impl = None;
            }
            if let Some((form, cont)) = &swapped_impl {
                for method in ["sub_swapped", "div_swapped"] {
                    if l.starts_with(&format!("fn {}(", method)) {
                        out.push((format!("{}.{}", form, method), "SwappedOperations".to_string(), cont.clone()));
                    }
                }
            }
            if line.starts_with("record_") && l.contains("!(impl ") {
                let mac = l.split('!').next().unwrap().to_string();
                let rest = l.split("!(impl ").nth(1).unwrap();
                let mut it = rest.split(' ');
                let tr = it.next().unwrap_or("").to_string();
                let _for = it.next();
                let cont = it.next().unwrap_or("").to_string();
                out.push((mac, tr, cont));
            } else if line.starts_with("impl<") && (l.contains(" Mul<") || l.contains("SwappedOperations<")) && l.contains(" for ") {
                let tr = if l.contains("SwappedOperations<") { "SwappedOperations" } else { "Mul" };
                let cont = if l.contains("RecordTensor") { "RecordTensor" } else { "RecordMatrix" };
                let form = format!(
                    "{}_{}",
                    if l.split(" for ").nth(1).unwrap_or("").starts_with('&') { "ref" } else { "val" },
                    if l.contains("<&") { "ref" } else { "val" }
                );
                if tr == "SwappedOperations" {
                    swapped_impl = Some((format!("impl_{}", form), cont.to_string()));
                }
                out.push((format!("impl_{}", form), tr.to_string(), cont.to_string()));
            }
        }
    }
    Some(out)
}

/// The operator impls the generator's catalogue of forms stands for.  An impl found in the source
/// tree that is not listed here produces a line the model does not know (a machinery error), so
/// that a new operator form cannot be missed silently.
fn check_catalogue(g: &mut Gen) {
    let repo = std::env::var("EASYML_REPO").unwrap_or_else(|_| "/repo".to_string());
    let found = match scan_operator_macros(&repo) {
        Some(f) => f,
        None => {
            g.count("c06.scan.source_not_readable");
            return;
        }
    };
    let mut known: Vec<(String, &str, &str)> = vec![];
    for cont in ["RecordTensor", "RecordMatrix"] {
        let c = if cont == "RecordTensor" { "tensor" } else { "matrix" };
        for tr in ["Add", "Sub"] {
            for form in ["value_value", "value_reference", "reference_value", "reference_reference"] {
                known.push((format!("record_{}_operator_impl_{}", c, form), tr, cont));
            }
        }
        for form in ["value", "reference"] {
            known.push((format!("record_{}_operator_impl_{}", c, form), "Neg", cont));
        }
        for tr in ["Sin", "Cos", "Exp", "Ln", "Sqrt"] {
            known.push((format!("record_real_{}_operator_impl_unary", c), tr, cont));
        }
        known.push((format!("record_real_{}_operator_impl_scalar", c), "Pow", cont));
        known.push((format!("record_real_{}_operator_impl_scalar_no_orphan_rule", c), "Pow", cont));
        for tr in ["Add", "Sub", "Mul", "Div"] {
            known.push((format!("record_{}_operator_impl_scalar", c), tr, cont));
        }
        for form in ["val_val", "val_ref", "ref_val", "ref_ref"] {
            known.push((format!("impl_{}", form), "Mul", cont));
            known.push((format!("impl_{}", form), "SwappedOperations", cont));
            known.push((format!("impl_{}.sub_swapped", form), "SwappedOperations", cont));
            known.push((format!("impl_{}.div_swapped", form), "SwappedOperations", cont));
        }
    }
    for (mac, tr, cont) in &found {
        g.count(&format!("c06.scan.{}.{}.{}", cont, tr, mac));
        if !known.iter().any(|(m, t, c)| m == mac && t == tr && c == cont) {
            g.op("@ tapes 1 fp".into());
            g.op(format!("operator-form-not-in-catalogue {} {} {}", mac, tr, cont));
        }
    }
    for (mac, tr, cont) in &known {
        if !found.iter().any(|(m, t, c)| m == mac && t == tr && c == cont) {
            g.op("@ tapes 1 fp".into());
            g.op(format!("operator-form-not-in-source {} {} {}", mac, tr, cont));
        }
    }
}


/// The API surface (scan of the source tree, table of c06_api.rs): every listed item is driven
/// by a case of its own on a non-square, mixed constant/variable configuration with differing
/// values in the two operands (`x ≠ y`; subtraction / division where a user function is asked
/// for), each result differentiated.  Returns the routes the run has to reach; an item that is
/// not in the table becomes the route `UNLISTED:<item>`, which nothing reaches.
fn gen_api_surface(g: &mut Gen) -> Vec<String> {
    use super::api::{routes, scan, Driven};
    let repo = std::env::var("EASYML_REPO").unwrap_or_else(|_| "/repo".to_string());
    let items = match scan(&repo) {
        Some(items) => items,
        None => {
            g.count("c06.api.source_not_readable");
            return vec!["UNLISTED:source-not-readable".to_string()];
        }
    };
    let mut need: Vec<String> = vec![];
    for item in &items {
        match routes(item) {
            Some(Driven::Routes(rs)) => {
                g.count(&format!("c06.api.driven.{}", item));
                for r in rs {
                    if !need.contains(&r) {
                        need.push(r);
                    }
                }
            }
            Some(Driven::No(_why)) => g.count(&format!("c06.api.undriven.{}", item)),
            None => {
                g.count(&format!("c06.api.unlisted.{}", item));
                need.push(format!("UNLISTED:{}", item));
            }
        }
    }
    g.count_n("c06.api.items", items.len() as u64);
    g.count_n("c06.api.routes", need.len() as u64);

    const XS: &str = "3,5,7,2,11,13";
    const YS: &str = "4,9,6,8,10,12";
    for kind in ["T", "M"] {
        let (shape, right, perm_names) = if kind == "T" { ("a:2,b:3", "b:3,c:1", "p.q") } else { ("r:2,c:3", "r:3,c:1", "") };
        // x and y of one shape (or y the right operand of a multiplication); exactly one of them
        // a variable, or both; returns the variables' names
        let head = |g: &mut Gen, pairing: &str, matmul: bool| -> &'static str {
            g.op("@ tapes 1 fp".into());
            let (xv, yv) = (pairing != "const_var", pairing != "var_const");
            let (ys, yvals) = if matmul { (right, "4,9,6") } else { (shape, YS) };
            g.op(if xv { format!("vars x {} {} {} t=0", kind, shape, XS) } else { format!("consts x {} {} {}", kind, shape, XS) });
            g.op(if yv { format!("vars y {} {} {} t=0", kind, ys, yvals) } else { format!("consts y {} {} {}", kind, ys, yvals) });
            match pairing {
                "var_const" => "x",
                "const_var" => "y",
                _ => "x,y",
            }
        };
        let mixed = ["var_const", "const_var"];
        // operators, every ownership form
        for op in ["add", "sub", "matmul"] {
            for form in FORMS4 {
                for pairing in mixed {
                    g.count(&format!("c06.api.case.{}.{}.{}", kind, op, form));
                    let wrt = head(g, pairing, op == "matmul");
                    g.op(format!("{} z x y via={}", op, form));
                    g.op(format!("derivs z wrt={} via=all", wrt));
                }
            }
        }
        for op in ["addn", "subn", "muln", "divn", "subsw", "divsw", "pown", "npow"] {
            for form in FORMS4 {
                g.count(&format!("c06.api.case.{}.{}.{}", kind, op, form));
                let _ = head(g, "var_const", false);
                g.op(if op == "npow" { format!("npow z 3 x via={}", form) } else { format!("{} z x 7 via={}", op, form) });
                g.op("sub w z y via=ref_ref".into());
                g.op("derivs w wrt=x via=for".into());
            }
        }
        for op in ["neg", "sin", "cos", "exp", "ln", "sqrt"] {
            for form in FORMS2 {
                g.count(&format!("c06.api.case.{}.{}.{}", kind, op, form));
                let _ = head(g, "const_var", false);
                g.op(format!("{} z y via={}", op, form));
                g.op("ediv w x z".into());
                g.op("derivs w wrt=y via=all".into());
            }
        }
        // methods taking user functions: subtraction and division
        for pairing in mixed {
            for f in ["sub", "div"] {
                g.count(&format!("c06.api.case.{}.binary", kind));
                let wrt = head(g, pairing, false);
                g.op(format!("binary z x y fn={}", f));
                g.op(format!("derivs z wrt={} via=all", wrt));
                g.op(format!("derivs z wrt={} via=for", wrt));
                for (op, via) in [("lassign", "assign"), ("lassign", "do"), ("rassign", "assign"), ("rassign", "do")] {
                    g.count(&format!("c06.api.case.{}.{}.{}", kind, op, via));
                    let wrt = head(g, pairing, false);
                    // the variable operand is kept: its copy is the one overwritten or read
                    g.op(format!("addn k {} 0 via=ref_ref", wrt));
                    let (a, b, target) = match (op, wrt) {
                        ("lassign", "x") => ("k", "y", "k"),
                        ("lassign", _) => ("x", "k", "x"),
                        (_, "x") => ("k", "y", "y"),
                        (_, _) => ("x", "k", "k"),
                    };
                    g.op(format!("{} {} {} fn={} via={}", op, a, b, f, via));
                    g.op(format!("derivs {} wrt={} via=all", target, wrt));
                }
            }
            for op in ["emul", "ediv"] {
                g.count(&format!("c06.api.case.{}.{}", kind, op));
                let wrt = head(g, pairing, false);
                g.op(format!("{} z x y", op));
                g.op(format!("derivs z wrt={} via=for", wrt));
            }
            // one-container methods on the variable operand, combined with the constant one
            let wrt = if pairing == "var_const" { "x" } else { "y" };
            let other = if wrt == "x" { "y" } else { "x" };
            let finish = |g: &mut Gen, z: &str| {
                g.op(format!("binary w {} {} fn=div", z, other));
                g.op(format!("derivs w wrt={} via=all", wrt));
            };
            g.count(&format!("c06.api.case.{}.unary", kind));
            let _ = head(g, pairing, false);
            g.op(format!("unary z {} fn=cube", wrt));
            finish(g, "z");
            for via in ["assign", "do"] {
                g.count(&format!("c06.api.case.{}.uassign.{}", kind, via));
                let _ = head(g, pairing, false);
                g.op(format!("addn z {} 0 via=ref_ref", wrt));
                g.op(format!("uassign z fn=cube via={}", via));
                finish(g, "z");
            }
            for (via, f) in [("map", "aff"), ("with_index", "scale")] {
                g.count(&format!("c06.api.case.{}.map.{}", kind, via));
                let _ = head(g, pairing, false);
                g.op(format!("map z {} fn={} via={}", wrt, f, via));
                finish(g, "z");
                g.count(&format!("c06.api.case.{}.mapmut.{}", kind, via));
                let _ = head(g, pairing, false);
                g.op(format!("addn z {} 0 via=ref_ref", wrt));
                g.op(format!("mapmut z fn={} via={}", f, if via == "map" { "map_mut" } else { "with_index" }));
                finish(g, "z");
            }
            // a function making some elements constants: `InconsistentHistory` and its `Display`
            g.count(&format!("c06.api.case.{}.map.inconsistent", kind));
            let _ = head(g, pairing, false);
            g.op(format!("map z {} fn=alt via=with_index", wrt));
            g.op(format!("addn z {} 0 via=ref_ref", wrt));
            g.op("mapmut z fn=alt via=with_index".into());
            for via in ["reset", "do_reset"] {
                g.count(&format!("c06.api.case.{}.reset.{}", kind, via));
                let _ = head(g, pairing, false);
                g.op(format!("binary z x y fn=sub"));
                g.op("clear t=0".into());
                g.op(format!("reset {} via={}", wrt, via));
                g.op(format!("reset {} via={}", other, via));
                g.op("binary z x y fn=div".into());
                g.op(format!("derivs z wrt={} via=all", wrt));
            }
            // source kinds: `from_existing` over a borrow, `index` / `index_by`, `rename_view`
            let mut views: Vec<(String, String)> = vec![("/ref".into(), "/ref".into()), ("/rg.0+2.1+2".into(), "/rg.0+2.0+2".into())];
            if kind == "T" {
                views.push(("/acc.0.1".into(), "".into()));
                views.push(("/acc.1.0".into(), "/tr.1.0".into()));
                views.push((format!("/rn.{}", perm_names), format!("/rn.{}", perm_names)));
            }
            for (vx, vy) in views {
                g.count(&format!("c06.api.case.{}.view{}", kind, vx.split('.').next().unwrap().replace('/', ".")));
                let wrt = head(g, pairing, false);
                // one of the two operands has the other source kind
                if vx.starts_with("/acc.1") {
                    // `index_by` in another order: the other operand has the transposed shape
                    // and the opposite constness
                    let x_var = pairing != "const_var";
                    g.op(if x_var { "consts y2 T b:3,a:2 4,9,6,8,10,12".to_string() } else { "vars y2 T b:3,a:2 4,9,6,8,10,12 t=0".to_string() });
                    g.op("sub z x/acc.1.0 y2 via=ref_ref".into());
                    g.op(format!("derivs z wrt={} via=all", if x_var { "x" } else { "y2" }));
                    g.op("binary z y2 x/acc.1.0 fn=div".into());
                    g.op(format!("derivs z wrt={} via=for", if x_var { "x" } else { "y2" }));
                    continue;
                } else if vx.starts_with("/rn") {
                    g.op(format!("ediv z x{} y{}", vx, ""));
                } else if vx.starts_with("/rg") {
                    g.op(format!("sub z x{} y via=ref_ref", vx));
                } else {
                    g.op(format!("sub z x{} y{} via=ref_ref", vx, vy));
                }
                g.op(format!("derivs z wrt={} via=all", wrt));
            }
            // iteration as records and back, every constructor of the iterator
            let mut iters: Vec<(&str, &str)> = vec![("rm", "plain"), ("rm", "ctor"), ("rm", "from"), ("rm", "with_index"), ("rm", "into"), ("rm", "from_with_index")];
            if kind == "M" {
                iters.extend([("cm", "plain"), ("cm", "ctor"), ("cm", "from")]);
            }
            for (order, via) in iters {
                g.count(&format!("c06.api.case.{}.fromiter.{}.{}", kind, order, via));
                let _ = head(g, pairing, false);
                let to_shape = if order == "cm" { "r:3,c:2" } else { shape };
                g.op(format!("fromiter z {} to={} shape={} order={} fn=aff via={}", wrt, kind, to_shape, order, via));
                if order == "cm" {
                    g.op(format!("derivs z wrt={} via=all", wrt));
                } else {
                    finish(g, "z");
                }
            }
            g.count(&format!("c06.api.case.{}.fromiters", kind));
            let _ = head(g, pairing, false);
            g.op(format!("fromiters z,z2 {} to={} shape={} fn=aff,sq", wrt, kind, shape));
            g.op("binary w z z2 fn=div".into());
            g.op(format!("derivs w wrt={} via=all", wrt));
            // the three errors of `from_iter` (their `Display`, `Clone`, `Debug`)
            g.count(&format!("c06.api.case.{}.fromiter.errors", kind));
            let _ = head(g, pairing, false);
            g.op(format!("fromiter z {} to={} shape={} chain={}", wrt, kind, if kind == "T" { "a:4,b:3" } else { "r:4,c:3" }, other));
            g.op(format!("fromiter z {} to={} shape={} take=5", wrt, kind, shape));
            g.op(format!("fromiter z {} to={} shape={} take=0", wrt, kind, shape));
            // element access as records, `Record` <-> 0-dimensional tensor
            let accesses: Vec<&str> = if kind == "T" { vec!["index_by", "owned", "mut"] } else { vec!["matrix"] };
            for access in accesses {
                for form in ["get", "try"] {
                    for conv in ["val", "ref"] {
                        g.count(&format!("c06.api.case.{}.elem.{}.{}.{}", kind, access, form, conv));
                        let wrt = head(g, pairing, false);
                        g.op("binary z x y fn=div".into());
                        let operand = if access == "index_by" && conv == "ref" { "z/acc.1.0" } else { "z" };
                        let idx = if operand == "z" { "1,2" } else { "2,1" };
                        g.op(format!("elem e {} {} via={}.{}.{}", operand, idx, access, form, conv));
                        g.op(format!("elem none {} {} via={}.try.{}", operand, if operand == "z" { "2,0" } else { "3,0" }, access, conv));
                        g.op(format!("scalar s e via={}.{}", conv, if form == "get" { "val" } else { "ref" }));
                        g.op(format!("derivs s wrt={} via=all", wrt));
                    }
                }
            }
            // the container as a source through the traits
            g.count(&format!("c06.api.case.{}.traits", kind));
            let _ = head(g, pairing, false);
            g.op("binary z x y fn=sub".into());
            g.op("layout z".into());
            g.op("swap z 0,1 1,2".into());
            g.op("layout z".into());
            g.op(format!("derivs z wrt={} via=for", wrt));
        }
    }
    need
}

pub fn gen(g: &mut Gen) {
    check_catalogue(g);
    let api_routes = gen_api_surface(g);
    gen_every_form(g);
    gen_element_access(g);
    gen_large(g);
    gen_degenerate(g);
    gen_assign_followup(g);
    gen_producer_consumer(g);
    gen_names(g);
    gen_f64_boundary(g);
    gen_f64_special(g);
    gen_constant_operand_matmul(g);
    gen_cross_tape(g);
    gen_reset_cycles(g);
    let (n_fp, n_rat) = if g.thorough { (60000, 10000) } else { (6000, 1000) };
    for _ in 0..n_fp {
        gen_case(g, false);
    }
    for _ in 0..n_rat {
        gen_case(g, true);
    }
    // which API items (routes of the table) the whole run reached
    g.op("@ tapes 1 fp".into());
    g.op(format!("api-report {}", api_routes.join(" ")));
}
