//! C08 — Cholesky, LDLᵀ and QR.  See lean/Driver/C08.lean for the protocol.
//!
//! Every case is one self-contained `@` line:
//!
//!   @ <chol|ldlt|qr> <fp|rat> <rows> <cols> <entries row-major> names=<n0>,<n1> via=<entry point>
//!   @ <chol|ldlt|qr> f64 <rows> <cols> <kind> <seed>          (implementation-vs-spec oracle only)
//!
//! Answers: `none`, `panic(<kind>)`, or `some <shape facts> <identity checks> ## <factor entries>`.
//! The part before `##` is what the property speaks about (presence, shapes and names, the
//! triangular structure and the defining identities — computed here from the *implementation's*
//! factors in exact arithmetic); the part after it are the factor entries themselves, compared
//! with the Lean model's (evaluated at the same `Fp`/`Rat` points).  `f64` lines never reach the
//! model's arithmetic: the model answers what the specification demands and the harness checks the
//! float result against the defining identities with a tolerance.

use crate::exact::{Fp, Rat, P};
use crate::util::*;
use easy_ml::linear_algebra;
use easy_ml::matrices::Matrix;
use easy_ml::numeric::extra::{Real, RealRef, Sqrt};
use easy_ml::numeric::{Numeric, NumericRef};
use easy_ml::tensors::views::{TensorRef, TensorView};
use easy_ml::tensors::Tensor;
use easy_ml::differentiation::Trace;
use std::fmt::Display;

// ---------------------------------------------------------------------------------------------
// element plumbing
// ---------------------------------------------------------------------------------------------

pub trait ParseElem: Sized {
    fn parse_elem(s: &str) -> Self;
}
impl ParseElem for Fp {
    fn parse_elem(s: &str) -> Fp {
        Fp::new(s.parse::<u64>().expect("fp"))
    }
}
impl ParseElem for Rat {
    fn parse_elem(s: &str) -> Rat {
        match s.split_once('/') {
            Some((n, d)) => Rat::new(n.parse().expect("rat num"), d.parse().expect("rat den")),
            None => Rat::new(s.parse().expect("rat int"), 1),
        }
    }
}

/// What the harness needs of an element beyond the library's traits: a complete rendering and
/// a complete equality (for `Trace` the library's `Display`/`==` look at the number only).
pub trait Elem: Sized {
    fn show(&self) -> String;
    fn same(&self, other: &Self) -> bool;
}
impl Elem for Fp {
    fn show(&self) -> String { self.to_string() }
    fn same(&self, other: &Fp) -> bool { self == other }
}
impl Elem for Rat {
    fn show(&self) -> String { self.to_string() }
    fn same(&self, other: &Rat) -> bool { self == other }
}
/// a forward-mode dual number over the prime field: `number~derivative` on the wire
impl Elem for Trace<Fp> {
    fn show(&self) -> String { format!("{}~{}", self.number, self.derivative) }
    fn same(&self, other: &Trace<Fp>) -> bool {
        self.number == other.number && self.derivative == other.derivative
    }
}
impl ParseElem for Trace<Fp> {
    fn parse_elem(s: &str) -> Trace<Fp> {
        let (n, d) = s.split_once('~').expect("number~derivative");
        Trace { number: Fp::parse_elem(n), derivative: Fp::parse_elem(d) }
    }
}

pub fn show_vals<T: Elem>(v: &[T]) -> String {
    if v.is_empty() {
        "-".to_string()
    } else {
        v.iter().map(|x| x.show()).collect::<Vec<_>>().join(",")
    }
}

pub fn parse_elems<T: ParseElem>(s: &str) -> Vec<T> {
    split_comma(s).iter().map(|t| T::parse_elem(t)).collect()
}

pub fn show_elems<T: Display>(v: &[T]) -> String {
    if v.is_empty() {
        "-".to_string()
    } else {
        v.iter().map(|x| x.to_string()).collect::<Vec<_>>().join(",")
    }
}

fn ok(b: bool) -> &'static str {
    if b { "ok" } else { "bad" }
}

/// A factor as the harness sees it: shape (with the names it carries or, for `Matrix`, the names
/// of the operation line) and row-major entries.
pub struct Grid<T> {
    pub shape: [(&'static str, usize); 2],
    pub data: Vec<T>,
}

impl<T: Clone> Grid<T> {
    fn at(&self, i: usize, j: usize) -> T {
        self.data[i * self.shape[1].1 + j].clone()
    }
    pub fn of_tensor(t: &Tensor<T, 2>) -> Grid<T> {
        Grid { shape: t.shape(), data: t.iter().collect() }
    }
    pub fn of_matrix(m: &Matrix<T>, names: [&'static str; 2]) -> Grid<T> {
        let (r, c) = m.size();
        Grid { shape: [(names[0], r), (names[1], c)], data: m.row_major_iter().collect() }
    }
}

/// The input in the form the chosen entry point wants it.
pub enum Input<T> {
    Matrix(Matrix<T>),
    Tensor(Tensor<T, 2>),
    /// the transposed data with swapped lengths; presented through `transpose_view`
    Transposed(Tensor<T, 2>),
    /// embedded in a larger tensor at offset (1, 2); presented through `range`
    Embedded(Tensor<T, 2>, usize, usize),
    /// stored with both dimensions reversed; presented through `reverse`
    Reversed(Tensor<T, 2>),
}

pub fn build_input<T: Clone>(
    via: &str,
    rows: usize,
    cols: usize,
    names: [&'static str; 2],
    a: &[T],
    filler: T,
) -> Input<T> {
    match via {
        "matrix" => Input::Matrix(Matrix::from_flat_row_major((rows, cols), a.to_vec())),
        "view" => {
            let mut t = Vec::with_capacity(a.len());
            for j in 0..cols {
                for i in 0..rows {
                    t.push(a[i * cols + j].clone());
                }
            }
            Input::Transposed(Tensor::from([(names[0], cols), (names[1], rows)], t))
        }
        "reverse" => {
            let mut t = Vec::with_capacity(a.len());
            for i in (0..rows).rev() {
                for j in (0..cols).rev() {
                    t.push(a[i * cols + j].clone());
                }
            }
            Input::Reversed(Tensor::from([(names[0], rows), (names[1], cols)], t))
        }
        "range" => {
            let (br, bc) = (rows + 2, cols + 3);
            let mut t = vec![filler; br * bc];
            for i in 0..rows {
                for j in 0..cols {
                    t[(i + 1) * bc + (j + 2)] = a[i * cols + j].clone();
                }
            }
            Input::Embedded(Tensor::from([(names[0], br), (names[1], bc)], t), rows, cols)
        }
        _ => Input::Tensor(Tensor::from([(names[0], rows), (names[1], cols)], a.to_vec())),
    }
}

/// Applies `$f` (a generic function over `TensorView`-convertible inputs) / `$fm` (the `Matrix`
/// entry point) to the input in the requested ownership / view form.
macro_rules! dispatch {
    ($input:expr, $via:expr, $names:expr, |$m:ident| $on_matrix:expr, |$t:ident| $on_tensor:expr) => {
        match $input {
            Input::Matrix($m) => $on_matrix,
            Input::Tensor(tensor) => match $via {
                "owned" => {
                    let $t = tensor;
                    $on_tensor
                }
                "tensor_view" => {
                    let $t = tensor.view();
                    $on_tensor
                }
                _ => {
                    let $t = &tensor;
                    $on_tensor
                }
            },
            Input::Transposed(tensor) => {
                let $t = tensor.transpose_view([$names[1], $names[0]]);
                $on_tensor
            }
            Input::Reversed(tensor) => {
                let $t = tensor.reverse(&[$names[0], $names[1]]);
                $on_tensor
            }
            Input::Embedded(tensor, rows, cols) => {
                let $t = tensor
                    .range([($names[0], 1..(rows + 1)), ($names[1], 2..(cols + 2))])
                    .expect("range");
                $on_tensor
            }
        }
    };
}

// ---------------------------------------------------------------------------------------------
// `Rat` as a `Real` element type: only `sqrt` is exact (on perfect squares).  The other real
// functions cannot be exact on rationals; reaching one is reported as a panic ("Rat
// transcendental"), which never equals a model answer.  Used by C17 for covariances that must be
// rejected by the Cholesky step before any of these functions is needed.
// ---------------------------------------------------------------------------------------------

macro_rules! rat_unreachable_unary {
    ($Trait:ident, $method:ident) => {
        impl easy_ml::numeric::extra::$Trait for Rat {
            type Output = Rat;
            fn $method(self) -> Rat {
                panic!("Rat transcendental {}", stringify!($method))
            }
        }
        impl<'a> easy_ml::numeric::extra::$Trait for &'a Rat {
            type Output = Rat;
            fn $method(self) -> Rat {
                panic!("Rat transcendental {}", stringify!($method))
            }
        }
    };
}
rat_unreachable_unary!(Exp, exp);
rat_unreachable_unary!(Ln, ln);
rat_unreachable_unary!(Sin, sin);
rat_unreachable_unary!(Cos, cos);

macro_rules! rat_unreachable_pow {
    ($L:ty, $R:ty) => {
        impl<'a, 'b> easy_ml::numeric::extra::Pow<$R> for $L {
            type Output = Rat;
            fn pow(self, _rhs: $R) -> Rat {
                panic!("Rat transcendental pow")
            }
        }
    };
}
rat_unreachable_pow!(Rat, Rat);
rat_unreachable_pow!(Rat, &'b Rat);
rat_unreachable_pow!(&'a Rat, Rat);
rat_unreachable_pow!(&'a Rat, &'b Rat);

impl easy_ml::numeric::extra::Pi for Rat {
    fn pi() -> Rat {
        panic!("Rat transcendental pi")
    }
}

// ---------------------------------------------------------------------------------------------
// exact checks of the defining identities (on the implementation's factors)
// ---------------------------------------------------------------------------------------------

fn is_lower<T: Numeric + Elem>(l: &Grid<T>) -> bool {
    let n = l.shape[0].1;
    (0..n).all(|i| ((i + 1)..l.shape[1].1).all(|j| l.at(i, j).same(&T::zero())))
}

fn is_upper<T: Numeric + Elem>(l: &Grid<T>) -> bool {
    (0..l.shape[0].1).all(|i| (0..l.shape[1].1.min(i)).all(|j| l.at(i, j).same(&T::zero())))
}

/// (L·Lᵀ)[i,j] = A[i,j] on the lower triangle (`strict`: below the diagonal only); for a symmetric
/// `A` the full lower triangle is the whole identity `L·Lᵀ = A`.
fn chol_identity<T: Numeric + Elem>(l: &Grid<T>, a: &[T], strict: bool) -> bool {
    let n = l.shape[0].1;
    for i in 0..n {
        for j in 0..=i {
            if strict && i == j {
                continue;
            }
            let mut s = T::zero();
            for k in 0..n {
                s = s + l.at(i, k) * l.at(j, k);
            }
            if !s.same(&a[i * n + j]) {
                return false;
            }
        }
    }
    true
}

fn ldlt_identity<T: Numeric + Elem>(l: &Grid<T>, d: &Grid<T>, a: &[T]) -> bool {
    let n = l.shape[0].1;
    for i in 0..n {
        for j in 0..=i {
            let mut s = T::zero();
            for k in 0..n {
                s = s + l.at(i, k) * d.at(k, k) * l.at(j, k);
            }
            if !s.same(&a[i * n + j]) {
                return false;
            }
        }
    }
    true
}

fn is_unit_lower<T: Numeric + Elem>(l: &Grid<T>) -> bool {
    is_lower(l) && (0..l.shape[0].1).all(|i| l.at(i, i).same(&T::one()))
}

fn is_diagonal<T: Numeric + Elem>(d: &Grid<T>) -> bool {
    is_lower(d) && is_upper(d)
}

// ---------------------------------------------------------------------------------------------
// the decomposition structs themselves: `from_unchecked` stores exactly the two factors it is
// given, `Display` prints the two factors under their letters (reported in the `aux` part)
// ---------------------------------------------------------------------------------------------

/// a sink that refuses everything: `Display` must hand its error on
struct ClosedSink;

impl std::fmt::Write for ClosedSink {
    fn write_str(&mut self, _s: &str) -> std::fmt::Result {
        Err(std::fmt::Error)
    }
}

fn sink_error_propagates<D: Display>(d: &D) -> bool {
    use std::fmt::Write;
    write!(ClosedSink, "{}", d).is_err()
}

fn struct_facts(roundtrip: bool, display: bool) -> String {
    format!("struct={} display={}", ok(roundtrip), ok(display))
}

fn ldlt_matrix_facts<T: Clone + PartialEq + Display>(f: &linear_algebra::LDLTDecomposition<T>) -> String {
    let again = linear_algebra::LDLTDecomposition::from_unchecked(f.l.clone(), f.d.clone());
    struct_facts(again.l == f.l && again.d == f.d, format!("{}", f) == format!("L:\n{}\nD:\n{}", f.l, f.d) && sink_error_propagates(f))
}

fn ldlt_tensor_facts<T: Clone + PartialEq + Display>(f: &linear_algebra::LDLTDecompositionTensor<T>) -> String {
    let again = linear_algebra::LDLTDecompositionTensor::from_unchecked(f.l.clone(), f.d.clone());
    struct_facts(again.l == f.l && again.d == f.d, format!("{}", f) == format!("L:\n{}\nD:\n{}", f.l, f.d) && sink_error_propagates(f))
}

fn qr_matrix_facts<T: Clone + PartialEq + Display>(f: &linear_algebra::QRDecomposition<T>) -> String {
    let again = linear_algebra::QRDecomposition::from_unchecked(f.q.clone(), f.r.clone());
    struct_facts(again.q == f.q && again.r == f.r, format!("{}", f) == format!("Q:\n{}\nR:\n{}", f.q, f.r) && sink_error_propagates(f))
}

fn qr_tensor_facts<T: Clone + PartialEq + Display>(f: &linear_algebra::QRDecompositionTensor<T>) -> String {
    let again = linear_algebra::QRDecompositionTensor::from_unchecked(f.q.clone(), f.r.clone());
    struct_facts(again.q == f.q && again.r == f.r, format!("{}", f) == format!("Q:\n{}\nR:\n{}", f.q, f.r) && sink_error_propagates(f))
}

// ---------------------------------------------------------------------------------------------
// producer → consumer: the factors are handed to the library's own transposition and product
// (both APIs, allocating and in-place transposition); the products must be the entrywise
// Σ_k L[i,k]·(D[k,k]·)L[j,k] of the very entries read off the factor (reported in `aux`)
// ---------------------------------------------------------------------------------------------

fn product_entries<T: Numeric + Elem>(l: &Grid<T>, d: Option<&Grid<T>>) -> Vec<T> {
    let n = l.shape[0].1;
    let mut out = Vec::with_capacity(n * n);
    for i in 0..n {
        for j in 0..n {
            // the library's `scalar_product` reduces without a leading zero; in the exact types
            // that is the same value
            let mut s = T::zero();
            for k in 0..n {
                let left = match d {
                    Some(d) => l.at(i, k) * d.at(k, k),
                    None => l.at(i, k),
                };
                s = s + left * l.at(j, k);
            }
            out.push(s);
        }
    }
    out
}

fn same_entries<T: Elem>(a: &[T], b: &[T]) -> bool {
    a.len() == b.len() && a.iter().zip(b.iter()).all(|(x, y)| x.same(y))
}

fn consumers_matrix<T>(l: &Matrix<T>, d: Option<&Matrix<T>>) -> bool
where
    T: Numeric + Elem,
    for<'a> &'a T: NumericRef<T>,
{
    let names = ["r", "c"];
    let want = product_entries(&Grid::of_matrix(l, names), d.map(|d| Grid::of_matrix(d, names)).as_ref());
    let left = match d {
        Some(d) => l * d,
        None => l.clone(),
    };
    let allocating = &left * l.transpose();
    let mut in_place = l.clone();
    in_place.transpose_mut();
    let through_mut = &left * &in_place;
    // the in-place transpose read in storage order, and added elementwise to the allocating one
    let g = Grid::of_matrix(l, names);
    let n = g.shape[0].1;
    let transposed: Vec<T> = (0..n * n).map(|k| g.at(k % n, k / n)).collect();
    let doubled: Vec<T> = transposed.iter().map(|x| x.clone() + x.clone()).collect();
    let sum = &in_place + l.transpose();
    same_entries(&allocating.row_major_iter().collect::<Vec<T>>(), &want)
        && same_entries(&through_mut.row_major_iter().collect::<Vec<T>>(), &want)
        && same_entries(&in_place.row_major_iter().collect::<Vec<T>>(), &transposed)
        && same_entries(&sum.row_major_iter().collect::<Vec<T>>(), &doubled)
}

fn consumers_tensor<T>(l: &Tensor<T, 2>, d: Option<&Tensor<T, 2>>) -> bool
where
    T: Numeric + Elem,
    for<'a> &'a T: NumericRef<T>,
{
    let shape = l.shape();
    let swapped = [shape[1].0, shape[0].0];
    let want = product_entries(&Grid::of_tensor(l), d.map(|d| Grid::of_tensor(d)).as_ref());
    // D carries the same names as L, so L·D needs D's row dimension renamed away and back
    let left = match d {
        Some(d) => {
            let n = shape[0].1;
            let mut ld = Tensor::empty(shape, T::zero());
            {
                let (li, di) = (l.index(), d.index());
                let mut out = ld.index_mut();
                for i in 0..n {
                    for j in 0..n {
                        *out.get_ref_mut([i, j]) = li.get_ref([i, j]) * di.get_ref([j, j]);
                    }
                }
            }
            ld
        }
        None => l.clone(),
    };
    let allocating = &left * l.transpose(swapped);
    let mut in_place = l.clone();
    in_place.transpose_mut(swapped);
    let through_mut = &left * &in_place;
    // the in-place transpose consumed in storage order: by its own iterator, converted into a
    // matrix, and added elementwise to the allocating transpose (a transposition that only permutes
    // strides is invisible to index reads, not to these)
    let g = Grid::of_tensor(l);
    let n = shape[0].1;
    let transposed: Vec<T> = (0..n * n).map(|k| g.at(k % n, k / n)).collect();
    let doubled: Vec<T> = transposed.iter().map(|x| x.clone() + x.clone()).collect();
    let sum = &in_place + l.transpose(swapped);
    let as_matrix = in_place.clone().into_matrix();
    same_entries(&allocating.iter().collect::<Vec<T>>(), &want)
        && same_entries(&through_mut.iter().collect::<Vec<T>>(), &want)
        && allocating.shape() == shape
        && in_place.shape() == shape
        && same_entries(&in_place.iter().collect::<Vec<T>>(), &transposed)
        && same_entries(&as_matrix.row_major_iter().collect::<Vec<T>>(), &transposed)
        && same_entries(&sum.iter().collect::<Vec<T>>(), &doubled)
}

// ---------------------------------------------------------------------------------------------
// running the real code
// ---------------------------------------------------------------------------------------------

fn run_chol<T>(rows: usize, cols: usize, a: Vec<T>, names: [&'static str; 2], via: &str, exact_sqrt: bool) -> String
where
    T: Numeric + Sqrt<Output = T> + Elem,
    for<'a> &'a T: NumericRef<T>,
{
    let input = build_input(via, rows, cols, names, &a, T::one() + T::one());
    let r = catch(|| {
        dispatch!(input, via, names,
            |m| linear_algebra::cholesky_decomposition::<T>(&m)
                .map(|l| (Grid::of_matrix(&l, names), consumers_matrix::<T>(&l, None))),
            |t| linear_algebra::cholesky_decomposition_tensor::<T, _, _>(t)
                .map(|l| (Grid::of_tensor(&l), consumers_tensor::<T>(&l, None))))
    });
    match r {
        Err(k) => panic_str(k),
        Ok(None) => "none".to_string(),
        Ok(Some((l, consumers))) => {
            let facts = if exact_sqrt {
                let pos = (0..rows).all(|i| l.at(i, i) > T::zero());
                format!("lower={} posdiag={} ident={}", ok(is_lower(&l)), ok(pos), ok(chol_identity(&l, &a, false)))
            } else {
                format!("lower={} offdiag={}", ok(is_lower(&l)), ok(chol_identity(&l, &a, true)))
            };
            format!(
                "some shape={} {} ## L={} consumers={}",
                show_shape(&l.shape), facts, show_vals(&l.data), ok(consumers)
            )
        }
    }
}

fn run_ldlt<T>(rows: usize, cols: usize, a: Vec<T>, names: [&'static str; 2], via: &str) -> String
where
    T: Numeric + Display + PartialEq + Elem,
    for<'a> &'a T: NumericRef<T>,
{
    let input = build_input(via, rows, cols, names, &a, T::one() + T::one());
    let r = catch(|| {
        dispatch!(input, via, names,
            |m| linear_algebra::ldlt_decomposition::<T>(&m).map(|f| {
                let facts = format!("{} consumers={}", ldlt_matrix_facts(&f), ok(consumers_matrix::<T>(&f.l, Some(&f.d))));
                (Grid::of_matrix(&f.l, names), Grid::of_matrix(&f.d, names), facts)
            }),
            |t| linear_algebra::ldlt_decomposition_tensor::<T, _, _>(t).map(|f| {
                let facts = format!("{} consumers={}", ldlt_tensor_facts(&f), ok(consumers_tensor::<T>(&f.l, Some(&f.d))));
                (Grid::of_tensor(&f.l), Grid::of_tensor(&f.d), facts)
            }))
    });
    match r {
        Err(k) => panic_str(k),
        Ok(None) => "none".to_string(),
        Ok(Some((l, d, facts))) => format!(
            "some lshape={} dshape={} unitlower={} diag={} ident={} ## L={} D={} {}",
            show_shape(&l.shape),
            show_shape(&d.shape),
            ok(is_unit_lower(&l)),
            ok(is_diagonal(&d)),
            ok(ldlt_identity(&l, &d, &a)),
            show_vals(&l.data),
            show_vals(&d.data),
            facts
        ),
    }
}

fn qr_factors<T>(rows: usize, cols: usize, a: &[T], names: [&'static str; 2], via: &str, filler: T)
    -> Result<Option<(Grid<T>, Grid<T>, String)>, PanicKind>
where
    T: Real + Display + PartialEq,
    for<'a> &'a T: RealRef<T>,
{
    let input = build_input(via, rows, cols, names, a, filler);
    catch(|| {
        dispatch!(input, via, names,
            |m| linear_algebra::qr_decomposition::<T>(&m)
                .map(|f| (Grid::of_matrix(&f.q, names), Grid::of_matrix(&f.r, names), qr_matrix_facts(&f))),
            |t| linear_algebra::qr_decomposition_tensor::<T, _, _>(t)
                .map(|f| (Grid::of_tensor(&f.q), Grid::of_tensor(&f.r), qr_tensor_facts(&f))))
    })
}

fn run_qr_fp(rows: usize, cols: usize, a: Vec<Fp>, names: [&'static str; 2], via: &str) -> String {
    match qr_factors::<Fp>(rows, cols, &a, names, via, Fp(2)) {
        Err(k) => panic_str(k),
        Ok(None) => "none".to_string(),
        Ok(Some((q, r, facts))) => format!(
            "some qshape={} rshape={} ## Q={} R={} {}",
            show_shape(&q.shape),
            show_shape(&r.shape),
            show_elems(&q.data),
            show_elems(&r.data),
            facts
        ),
    }
}

// ---------------------------------------------------------------------------------------------
// f64: implementation against the specification, with a tolerance (never against the model)
// ---------------------------------------------------------------------------------------------

fn f64_matrix(rng: &mut Rng, rows: usize, cols: usize) -> Vec<f64> {
    (0..rows * cols).map(|_| (rng.below(2001) as f64 - 1000.0) / 500.0).collect()
}

/// deterministic inputs for the `f64` lines: `spd` = B·Bᵀ + c·I, `indef` = the same with one
/// diagonal entry pushed far below zero, `semi` = B·Bᵀ of a rank-deficient integer B whose
/// pivots are exact in binary floating point up to the vanishing one, `full` = random entries.
pub fn f64_input(kind: &str, rows: usize, cols: usize, seed: u64) -> Vec<f64> {
    let mut rng = Rng::new(seed);
    let n = rows;
    match kind {
        "spd" | "indef" => {
            let b = f64_matrix(&mut rng, n, n);
            let c = 0.5 + rng.below(4) as f64;
            let mut a = vec![0.0; n * n];
            for i in 0..n {
                for j in 0..n {
                    let mut s = 0.0;
                    for k in 0..n {
                        s += b[i * n + k] * b[j * n + k];
                    }
                    a[i * n + j] = s + if i == j { c } else { 0.0 };
                }
            }
            if kind == "indef" {
                let at = rng.below(n);
                a[at * n + at] = -1.0 - a[at * n + at];
            }
            a
        }
        "semi" => {
            // first row duplicated: [[1,1],[1,1]]-like, pivot 1 is exactly 0
            let mut a = vec![0.0; n * n];
            for i in 0..n {
                for j in 0..n {
                    a[i * n + j] = if i == j { 4.0 } else { 0.0 };
                }
            }
            if n >= 2 {
                a[0] = 4.0;
                a[1] = 4.0;
                a[n] = 4.0;
                a[n + 1] = 4.0;
            } else {
                a[0] = 0.0;
            }
            a
        }
        // zero at the reflected position of the first column, something non-zero below it
        "zerolead" => {
            let mut a = f64_matrix(&mut rng, rows, cols);
            a[0] = 0.0;
            if rows >= 2 && a[cols] == 0.0 {
                a[cols] = 1.5;
            }
            a
        }
        // distinct unit vectors as columns (a permutation matrix when square): exact zeros at the
        // reflected position of the first and of later columns
        "perm" => {
            let mut order: Vec<usize> = (0..rows).collect();
            rng.shuffle(&mut order);
            let mut a = vec![0.0; rows * cols];
            for j in 0..cols {
                a[order[j] * cols + j] = 1.0 + rng.below(3) as f64;
            }
            a
        }
        // the exchange matrix (ones on the anti-diagonal of the leading square block): [[0,1],[1,0]] …
        "antidiag" => {
            let mut a = vec![0.0; rows * cols];
            for j in 0..cols {
                a[(rows - 1 - j) * cols + j] = 1.0;
            }
            a
        }
        // the first `lead` columns are positive multiples of e_0 … e_{lead-1} (their reflections are
        // exact sign flips), and the trailing block starts with an exact zero above non-zero entries:
        // the zero sits at the reflected position of column `lead`
        "stair" => {
            let mut a = f64_matrix(&mut rng, rows, cols);
            let lead = if cols >= 2 && rows >= 3 { 1 + rng.below((cols - 1).min(rows - 2)) } else { 0 };
            for j in 0..lead {
                for i in 0..rows {
                    a[i * cols + j] = if i == j { 2.0 + j as f64 } else { 0.0 };
                }
            }
            if lead < cols && lead < rows {
                a[lead * cols + lead] = 0.0;
                if lead + 1 < rows && a[(lead + 1) * cols + lead] == 0.0 {
                    a[(lead + 1) * cols + lead] = -1.25;
                }
            }
            a
        }
        _ => f64_matrix(&mut rng, rows, cols),
    }
}

fn max_abs(v: &[f64]) -> f64 {
    v.iter().fold(1.0, |m, x| m.max(x.abs()))
}

fn run_f64(alg: &str, rows: usize, cols: usize, kind: &str, seed: u64, via: &str) -> String {
    let names = ["r", "c"];
    let a = f64_input(kind, rows, cols, seed);
    let tol = 1e-9 * max_abs(&a) * (rows.max(cols) as f64);
    let close = |x: f64, y: f64| (x - y).abs() <= tol && x.is_finite();
    match alg {
        "chol" => {
            let input = build_input(via, rows, cols, names, &a, 2.0);
            let r = catch(|| {
                dispatch!(input, via, names,
                    |m| linear_algebra::cholesky_decomposition::<f64>(&m).map(|l| Grid::of_matrix(&l, names)),
                    |t| linear_algebra::cholesky_decomposition_tensor::<f64, _, _>(t).map(|l| Grid::of_tensor(&l)))
            });
            match r {
                Err(k) => panic_str(k),
                Ok(None) => "none".into(),
                Ok(Some(l)) => {
                    let n = rows;
                    let mut ident = true;
                    for i in 0..n {
                        for j in 0..n {
                            let s: f64 = (0..n).map(|k| l.at(i, k) * l.at(j, k)).sum();
                            ident &= close(s, a[i * n + j]);
                        }
                    }
                    let lower = (0..n).all(|i| ((i + 1)..n).all(|j| l.at(i, j) == 0.0));
                    let pos = (0..n).all(|i| l.at(i, i) > 0.0);
                    format!("some lower={} posdiag={} ident={}", ok(lower), ok(pos), ok(ident))
                }
            }
        }
        "ldlt" => {
            let input = build_input(via, rows, cols, names, &a, 2.0);
            let r = catch(|| {
                dispatch!(input, via, names,
                    |m| linear_algebra::ldlt_decomposition::<f64>(&m)
                        .map(|f| (Grid::of_matrix(&f.l, names), Grid::of_matrix(&f.d, names), ldlt_matrix_facts(&f))),
                    |t| linear_algebra::ldlt_decomposition_tensor::<f64, _, _>(t)
                        .map(|f| (Grid::of_tensor(&f.l), Grid::of_tensor(&f.d), ldlt_tensor_facts(&f))))
            });
            match r {
                Err(k) => panic_str(k),
                Ok(None) => "none".into(),
                Ok(Some((l, d, facts))) => {
                    let n = rows;
                    let mut ident = true;
                    for i in 0..n {
                        for j in 0..n {
                            let s: f64 = (0..n).map(|k| l.at(i, k) * d.at(k, k) * l.at(j, k)).sum();
                            ident &= close(s, a[i * n + j]);
                        }
                    }
                    let unit = (0..n).all(|i| l.at(i, i) == 1.0 && ((i + 1)..n).all(|j| l.at(i, j) == 0.0));
                    let diag = (0..n).all(|i| (0..n).all(|j| i == j || d.at(i, j) == 0.0));
                    format!("some unitlower={} diag={} ident={} ## {}", ok(unit), ok(diag), ok(ident), facts)
                }
            }
        }
        _ => match qr_factors::<f64>(rows, cols, &a, names, via, 2.0) {
            Err(k) => panic_str(k),
            Ok(None) => "none".into(),
            Ok(Some((q, r, facts))) => {
                let (m, n) = (rows, cols);
                let shapes = q.shape == [("r", m), ("c", m)] && r.shape == [("r", m), ("c", n)];
                let mut product = true;
                for i in 0..m {
                    for j in 0..n {
                        let s: f64 = (0..m).map(|k| q.at(i, k) * r.at(k, j)).sum();
                        product &= close(s, a[i * n + j]);
                    }
                }
                let mut orth = true;
                for i in 0..m {
                    for j in 0..m {
                        let s: f64 = (0..m).map(|k| q.at(k, i) * q.at(k, j)).sum();
                        orth &= (s - if i == j { 1.0 } else { 0.0 }).abs() <= 1e-9 * (m as f64) && s.is_finite();
                    }
                }
                let mut upper = true;
                for i in 0..m {
                    for j in 0..n.min(i) {
                        upper &= r.at(i, j).abs() <= tol;
                    }
                }
                format!(
                    "some shapes={} product={} orthogonal={} upper={} ## {}",
                    ok(shapes), ok(product), ok(orth), ok(upper), facts
                )
            }
        },
    }
}

// ---------------------------------------------------------------------------------------------
// API surface of the decomposition result structs (C08 scope): every public constructor and every
// trait impl, driven with factors that differ from one another in shape and in every value
// ---------------------------------------------------------------------------------------------

/// `Display` must print each factor under its own label: `<a>:\n<first>\n<b>:\n<second>`; the
/// labels are parsed out of the text and the two blocks compared with the factors' own `Display`
fn labelled_blocks(text: &str, a: &str, b: &str, first: &str, second: &str) -> bool {
    let rest = match text.strip_prefix(&format!("{}:\n", a)) {
        Some(r) => r,
        None => return false,
    };
    match rest.split_once(&format!("\n{}:\n", b)) {
        Some((x, y)) => x == first && y == second,
        None => false,
    }
}

/// `Debug` must show the type's name and each field under its own name
fn debug_fields(text: &str, ty: &str, a: &str, b: &str, first: &str, second: &str) -> bool {
    text.starts_with(ty) && text.contains(&format!("{}: {}", a, first)) && text.contains(&format!("{}: {}", b, second))
}

macro_rules! struct_surface {
    ($Struct:ident, $fa:ident, $fb:ident, $la:expr, $lb:expr, $first:expr, $second:expr, $other_first:expr, $other_second:expr) => {{
        let (first, second) = ($first, $second);
        let made = linear_algebra::$Struct::from_unchecked(first.clone(), second.clone());
        let from_unchecked = made.$fa == first && made.$fb == second;
        // the remaining facts are relative to what the struct holds, so that a constructor slip
        // is reported by `from_unchecked` alone
        let (held_a, held_b) = (made.$fa.clone(), made.$fb.clone());
        let copy = made.clone();
        let clone = copy.$fa == held_a && copy.$fb == held_b;
        // `clone_from` into a value that differs from the source in every field, directly and
        // through the containers that forward to it
        let mut target = linear_algebra::$Struct::from_unchecked($other_first, $other_second);
        target.clone_from(&made);
        let mut in_vec = vec![linear_algebra::$Struct::from_unchecked($other_first, $other_second)];
        in_vec.clone_from(&vec![made.clone()]);
        let mut in_option = Some(linear_algebra::$Struct::from_unchecked($other_first, $other_second));
        in_option.clone_from(&Some(made.clone()));
        let got = in_option.unwrap();
        let clone_from = target.$fa == held_a && target.$fb == held_b
            && in_vec[0].$fa == held_a && in_vec[0].$fb == held_b
            && got.$fa == held_a && got.$fb == held_b;
        let display = labelled_blocks(&format!("{}", made), $la, $lb, &format!("{}", held_a), &format!("{}", held_b));
        let debug = debug_fields(
            &format!("{:?}", made), stringify!($Struct), stringify!($fa), stringify!($fb),
            &format!("{:?}", held_a), &format!("{:?}", held_b),
        );
        format!(
            "from_unchecked={} clone={} clone_from={} display={} debug={}",
            ok(from_unchecked), ok(clone), ok(clone_from), ok(display), ok(debug)
        )
    }};
}

fn run_api(toks: &[&str]) -> String {
    let ids = |from: u64, n: usize| (0..n as u64).map(|i| Fp(from + i)).collect::<Vec<Fp>>();
    let m = |r: usize, c: usize, from: u64| Matrix::from_flat_row_major((r, c), ids(from, r * c));
    let t = |r: usize, c: usize, from: u64| Tensor::from([("a", r), ("b", c)], ids(from, r * c));
    let r = catch(|| match (toks[2], toks[3]) {
        ("ldlt", "matrix") => struct_surface!(LDLTDecomposition, l, d, "L", "D", m(3, 3, 1), m(2, 2, 100), m(1, 2, 500), m(2, 1, 700)),
        ("ldlt", "tensor") => struct_surface!(LDLTDecompositionTensor, l, d, "L", "D", t(3, 3, 1), t(2, 2, 100), t(1, 2, 500), t(2, 1, 700)),
        ("qr", "matrix") => struct_surface!(QRDecomposition, q, r, "Q", "R", m(3, 3, 1), m(3, 2, 100), m(1, 2, 500), m(2, 1, 700)),
        ("qr", "tensor") => struct_surface!(QRDecompositionTensor, q, r, "Q", "R", t(3, 3, 1), t(3, 2, 100), t(1, 2, 500), t(2, 1, 700)),
        _ => "bad-op".to_string(),
    });
    match r {
        Ok(s) => s,
        Err(k) => panic_str(k),
    }
}

/// The public items of the C08 result structs found in the checkout under test, against the list
/// of items the `api` lines drive; anything public that is not driven is counted as
/// `api.undriven.<item>` in the input distribution.
pub fn scan_public_items(g: &mut Gen, file: &str, types: &[&str], driven: &[&str]) {
    let repo = std::env::var("EASYML_REPO").unwrap_or_else(|_| "/repo".to_string());
    let text = match std::fs::read_to_string(format!("{}/{}", repo, file)) {
        Ok(t) => t,
        Err(_) => {
            g.count("api.scan-unavailable");
            return;
        }
    };
    let mut current: Option<String> = None; // the type of the impl block / item we are in
    let mut derives: Vec<String> = vec![];
    let mut items: Vec<String> = vec![];
    for line in text.lines() {
        let l = line.trim_start();
        if let Some(rest) = l.strip_prefix("#[derive(") {
            derives = rest.trim_end_matches(")]").split(',').map(|d| d.trim().to_string()).collect();
            continue;
        }
        let named = |l: &str| types.iter().copied().find(|t| {
            l.split(|c: char| !(c.is_alphanumeric() || c == '_')).any(|w| w == *t)
        });
        if l.starts_with("pub struct ") || l.starts_with("pub enum ") {
            if let Some(t) = named(l) {
                for d in &derives {
                    items.push(format!("{}:derive({})", t, d));
                }
            }
            derives.clear();
            continue;
        }
        if !line.starts_with(' ') && l.starts_with("impl") {
            current = named(l).map(|t| t.to_string());
            if let (Some(t), Some(pos)) = (&current, l.find(" for ")) {
                let tr = l[..pos].rsplit(|c: char| c == ' ' || c == ':').next().unwrap_or("").to_string();
                items.push(format!("{}:impl({})", t, tr));
            }
            continue;
        }
        if !line.starts_with(' ') && !l.is_empty() && !l.starts_with("//") && !l.starts_with('}') && !l.starts_with("where") && !l.starts_with('{') {
            if !l.starts_with("for<") && !l.starts_with("T:") {
                current = None;
            }
        }
        if let (Some(t), Some(rest)) = (&current, l.strip_prefix("pub fn ")) {
            let name: String = rest.chars().take_while(|c| c.is_alphanumeric() || *c == '_').collect();
            items.push(format!("{}::{}", t, name));
        }
    }
    items.sort();
    items.dedup();
    for item in items {
        if driven.contains(&item.as_str()) {
            g.count(&format!("api.driven.{}", item));
        } else {
            g.count(&format!("api.undriven.{}", item));
        }
    }
}

const C08_TYPES: [&str; 4] =
    ["LDLTDecomposition", "LDLTDecompositionTensor", "QRDecomposition", "QRDecompositionTensor"];
const C08_DRIVEN: [&str; 20] = [
    "LDLTDecomposition::from_unchecked", "LDLTDecomposition:derive(Clone)", "LDLTDecomposition:derive(Debug)",
    "LDLTDecomposition:impl(Display)", "LDLTDecompositionTensor::from_unchecked",
    "LDLTDecompositionTensor:derive(Clone)", "LDLTDecompositionTensor:derive(Debug)",
    "LDLTDecompositionTensor:impl(Display)", "QRDecomposition::from_unchecked", "QRDecomposition:derive(Clone)",
    "QRDecomposition:derive(Debug)", "QRDecomposition:impl(Display)", "QRDecompositionTensor::from_unchecked",
    "QRDecompositionTensor:derive(Clone)", "QRDecompositionTensor:derive(Debug)",
    "QRDecompositionTensor:impl(Display)",
    // a hand-written Clone would show up as impl(Clone): it is driven by the same lines
    "LDLTDecomposition:impl(Clone)", "LDLTDecompositionTensor:impl(Clone)", "QRDecomposition:impl(Clone)",
    "QRDecompositionTensor:impl(Clone)",
];

// ---------------------------------------------------------------------------------------------
// runner
// ---------------------------------------------------------------------------------------------

pub struct Runner;

impl Runner {
    pub fn new() -> Runner {
        Runner
    }

    pub fn step(&mut self, toks: &[&str]) -> String {
        if toks.len() >= 4 && toks[0] == "@" && toks[1] == "api" {
            return run_api(toks);
        }
        if toks.len() < 6 || toks[0] != "@" {
            return "bad-op".into();
        }
        let (alg, ty) = (toks[1], toks[2]);
        let rows: usize = toks[3].parse().expect("rows");
        let cols: usize = toks[4].parse().expect("cols");
        let via = opt_arg("via", toks).unwrap_or("tensor");
        if ty == "f64" {
            let seed: u64 = toks[6].parse().expect("seed");
            return run_f64(alg, rows, cols, toks[5], seed, via);
        }
        let names_v = parse_names(opt_arg("names", toks).unwrap_or("r,c"));
        let names = [names_v[0], names_v[1]];
        match (alg, ty) {
            ("chol", "fp") => run_chol::<Fp>(rows, cols, parse_elems(toks[5]), names, via, false),
            ("chol", "rat") => run_chol::<Rat>(rows, cols, parse_elems(toks[5]), names, via, true),
            ("chol", "tr") => run_chol::<Trace<Fp>>(rows, cols, parse_elems(toks[5]), names, via, false),
            ("ldlt", "tr") => run_ldlt::<Trace<Fp>>(rows, cols, parse_elems(toks[5]), names, via),
            ("ldlt", "fp") => run_ldlt::<Fp>(rows, cols, parse_elems(toks[5]), names, via),
            ("ldlt", "rat") => run_ldlt::<Rat>(rows, cols, parse_elems(toks[5]), names, via),
            ("qr", "fp") => run_qr_fp(rows, cols, parse_elems(toks[5]), names, via),
            _ => "bad-op".into(),
        }
    }
}

// ---------------------------------------------------------------------------------------------
// generation
// ---------------------------------------------------------------------------------------------

const VIAS: [&str; 7] = ["matrix", "tensor", "owned", "tensor_view", "view", "range", "reverse"];
const NAME_PAIRS: [[&str; 2]; 6] =
    [["r", "c"], ["a", "b"], ["row", "column"], ["column", "row"], ["y", "x"], ["c", "r"]];

fn rand_fp(g: &mut Gen) -> Fp {
    Fp::new(g.rng.next())
}

/// small signed integers as field elements (zero and sign edge cases)
fn small_fp(g: &mut Gen) -> Fp {
    Fp::from_i64(g.rng.below(7) as i64 - 3)
}

pub fn symmetrise<T: Clone>(n: usize, a: &mut [T]) {
    for i in 0..n {
        for j in 0..i {
            a[j * n + i] = a[i * n + j].clone();
        }
    }
}

/// Reference Cholesky used **only to steer the generator** (which pivot a candidate input fails
/// at; how to place an exactly-zero pivot).  Answers always come from easy-ml and the Lean model.
/// Returns the factor computed so far and the index of the failing pivot, if any; `stop_at`
/// returns the partial sum of that pivot instead.
pub fn steer_chol<T>(n: usize, a: &[T], stop_at: Option<usize>) -> (Option<usize>, T)
where
    T: Numeric + Sqrt<Output = T>,
    for<'a> &'a T: NumericRef<T>,
{
    let mut l = vec![T::zero(); n * n];
    for i in 0..n {
        for j in 0..=i {
            let mut s = T::zero();
            for k in 0..j {
                s = s + l[i * n + k].clone() * l[j * n + k].clone();
            }
            if i == j {
                if stop_at == Some(i) {
                    return (None, s);
                }
                let e = a[i * n + i].clone() - s;
                if e <= T::zero() {
                    return (Some(i), T::zero());
                }
                l[i * n + i] = e.sqrt();
            } else {
                l[i * n + j] = (a[i * n + j].clone() - s) / l[j * n + j].clone();
            }
        }
    }
    (None, T::zero())
}

/// the partial sum Σ_{k<j} L[j,k]² D[k,k] of LDLᵀ at pivot `j` (generator steering only)
fn steer_ldlt_sum<T>(n: usize, a: &[T], at: usize) -> T
where
    T: Numeric,
    for<'a> &'a T: NumericRef<T>,
{
    let mut l = vec![T::zero(); n * n];
    let mut d = vec![T::zero(); n];
    for j in 0..n {
        let mut s = T::zero();
        for k in 0..j {
            s = s + l[j * n + k].clone() * l[j * n + k].clone() * d[k].clone();
        }
        if j == at {
            return s;
        }
        d[j] = a[j * n + j].clone() - s;
        for i in j..n {
            let mut s = T::zero();
            for k in 0..j {
                s = s + l[i * n + k].clone() * l[j * n + k].clone() * d[k].clone();
            }
            l[i * n + j] = if i == j { T::one() } else { (a[i * n + j].clone() - s) / d[j].clone() };
        }
    }
    T::zero()
}

fn emit<T: Display>(g: &mut Gen, alg: &str, ty: &str, rows: usize, cols: usize, a: &[T], all_vias: bool) {
    let vias: Vec<&str> = if all_vias {
        VIAS.to_vec()
    } else {
        vec!["matrix", *g.rng.pick(&VIAS[1..])]
    };
    for via in vias {
        let names = if via == "matrix" { NAME_PAIRS[0] } else { *g.rng.pick(&NAME_PAIRS) };
        g.op(format!(
            "@ {} {} {} {} {} names={},{} via={}",
            alg, ty, rows, cols, show_elems(a), names[0], names[1], via
        ));
        g.count(&format!("{}.{}.via={}", alg, ty, via));
    }
    g.count(&format!("{}.{}.size={}x{}", alg, ty, rows, cols));
}

fn rat_small(g: &mut Gen) -> Rat {
    let d = *g.rng.pick(&[1i128, 1, 1, 2, 3]);
    Rat::new(g.rng.below(9) as i128 - 4, d)
}

fn rat_pos(g: &mut Gen) -> Rat {
    let d = *g.rng.pick(&[1i128, 1, 2, 3]);
    Rat::new(g.rng.below(5) as i128 + 1, d)
}

/// L·Lᵀ for a lower-triangular rational L with positive diagonal (every pivot is then the square
/// of a diagonal entry of L, so `Rat::sqrt` is exact)
fn rat_llt(g: &mut Gen, n: usize) -> (Vec<Rat>, Vec<Rat>) {
    let mut l = vec![Rat::int(0); n * n];
    for i in 0..n {
        for j in 0..i {
            l[i * n + j] = rat_small(g);
        }
        l[i * n + i] = rat_pos(g);
    }
    let mut a = vec![Rat::int(0); n * n];
    for i in 0..n {
        for j in 0..n {
            let mut s = Rat::int(0);
            for k in 0..n {
                s = s + l[i * n + k].clone() * l[j * n + k].clone();
            }
            a[i * n + j] = s;
        }
    }
    (l, a)
}

/// B·Bᵀ + c·I with small integer B
fn rat_bbt(g: &mut Gen, n: usize, c: i64) -> Vec<Rat> {
    let b: Vec<Rat> = (0..n * n).map(|_| Rat::int(g.rng.below(7) as i64 - 3)).collect();
    let mut a = vec![Rat::int(0); n * n];
    for i in 0..n {
        for j in 0..n {
            let mut s = Rat::int(0);
            for k in 0..n {
                s = s + b[i * n + k].clone() * b[j * n + k].clone();
            }
            a[i * n + j] = if i == j { s + Rat::int(c) } else { s };
        }
    }
    a
}

pub fn gen(g: &mut Gen) {
    // ---- API surface of the result structs ---------------------------------------------------------
    for alg in ["ldlt", "qr"] {
        for api in ["matrix", "tensor"] {
            g.op(format!("@ api {} {}", alg, api));
            g.count("api.struct-surface");
        }
    }
    scan_public_items(g, "src/linear_algebra.rs", &C08_TYPES, &C08_DRIVEN);

    let max_n = if g.thorough { 8 } else { 4 };
    let max_rat = if g.thorough { 6 } else { 4 };
    let reps = if g.thorough { 120 } else { 32 };

    // ---- Cholesky over Fp: all pivot paths ---------------------------------------------------
    for n in 1..=max_n {
        // for every pivot position p (and "none fails"): a random symmetric matrix that fails
        // exactly there, found by rejection with the steering reference
        for target in 0..=n {
            for _ in 0..(reps / 4).max(2) {
                let mut tries = 0;
                loop {
                    let mut a: Vec<Fp> = (0..n * n).map(|_| rand_fp(g)).collect();
                    symmetrise(n, &mut a);
                    let (fail, _) = steer_chol::<Fp>(n, &a, None);
                    tries += 1;
                    if fail == (if target == n { None } else { Some(target) }) || tries > 4000 {
                        g.count(&format!("chol.fp.pivot-path={}", match fail { None => "all-positive".to_string(), Some(p) => format!("fails-at-{}", p) }));
                        emit(g, "chol", "fp", n, n, &a, true);
                        break;
                    }
                }
            }
        }
        // an exactly-zero pivot at each position (the `<=` boundary)
        for at in 0..n {
            let mut tries = 0;
            loop {
                let mut a: Vec<Fp> = (0..n * n).map(|_| rand_fp(g)).collect();
                symmetrise(n, &mut a);
                let (_, s) = steer_chol::<Fp>(n, &a, Some(at));
                a[at * n + at] = s;
                let (fail, _) = steer_chol::<Fp>(n, &a, None);
                tries += 1;
                if fail == Some(at) || tries > 4000 {
                    g.count("chol.fp.zero-pivot");
                    emit(g, "chol", "fp", n, n, &a, false);
                    break;
                }
            }
        }
        // asymmetric and small-integer inputs
        for _ in 0..reps / 2 {
            let a: Vec<Fp> = (0..n * n).map(|_| rand_fp(g)).collect();
            g.count("chol.fp.asymmetric");
            emit(g, "chol", "fp", n, n, &a, false);
            let a: Vec<Fp> = (0..n * n).map(|_| small_fp(g)).collect();
            g.count("chol.fp.small-integers");
            emit(g, "chol", "fp", n, n, &a, false);
        }
    }

    // ---- LDLᵀ over Fp ------------------------------------------------------------------------
    for n in 1..=max_n {
        for _ in 0..reps {
            let mut a: Vec<Fp> = (0..n * n).map(|_| rand_fp(g)).collect();
            symmetrise(n, &mut a);
            g.count("ldlt.fp.symmetric");
            emit(g, "ldlt", "fp", n, n, &a, true);
        }
        for at in 0..n {
            for _ in 0..2 {
                let mut a: Vec<Fp> = (0..n * n).map(|_| rand_fp(g)).collect();
                symmetrise(n, &mut a);
                a[at * n + at] = steer_ldlt_sum::<Fp>(n, &a, at);
                g.count(&format!("ldlt.fp.zero-pivot-at={}", at));
                emit(g, "ldlt", "fp", n, n, &a, false);
            }
        }
        for _ in 0..reps / 2 {
            let a: Vec<Fp> = (0..n * n).map(|_| rand_fp(g)).collect();
            g.count("ldlt.fp.asymmetric");
            emit(g, "ldlt", "fp", n, n, &a, false);
            let mut a: Vec<Fp> = (0..n * n).map(|_| small_fp(g)).collect();
            symmetrise(n, &mut a);
            g.count("ldlt.fp.small-integers");
            emit(g, "ldlt", "fp", n, n, &a, false);
        }
    }

    // ---- non-square inputs (Cholesky, LDLᵀ) and every QR shape --------------------------------
    let max_q = if g.thorough { 8 } else { 5 };
    for rows in 1..=max_q {
        for cols in 1..=max_q {
            if rows != cols && rows <= max_n + 1 && cols <= max_n + 1 {
                let a: Vec<Fp> = (0..rows * cols).map(|_| rand_fp(g)).collect();
                g.count("chol.fp.non-square");
                emit(g, "chol", "fp", rows, cols, &a, true);
                g.count("ldlt.fp.non-square");
                emit(g, "ldlt", "fp", rows, cols, &a, true);
                let a: Vec<Rat> = (0..rows * cols).map(|_| rat_small(g)).collect();
                g.count("chol.rat.non-square");
                emit(g, "chol", "rat", rows, cols, &a, false);
                g.count("ldlt.rat.non-square");
                emit(g, "ldlt", "rat", rows, cols, &a, false);
            }
            let wide = cols > rows;
            let n_random = if wide { 1 } else { (reps / 2).max(4) };
            for k in 0..n_random {
                let a: Vec<Fp> = (0..rows * cols).map(|_| rand_fp(g)).collect();
                g.count(if wide { "qr.fp.wide" } else { "qr.fp.tall-or-square" });
                emit(g, "qr", "fp", rows, cols, &a, k == 0);
            }
            if !wide {
                // small integers: zero leading entries take the `sign > 0` = false branch with
                // a zero, whole zero columns make the reflection degenerate
                for _ in 0..(reps / 4).max(2) {
                    let a: Vec<Fp> = (0..rows * cols).map(|_| small_fp(g)).collect();
                    g.count("qr.fp.small-integers");
                    emit(g, "qr", "fp", rows, cols, &a, false);
                }
            }
        }
    }

    // ---- exact rationals ------------------------------------------------------------------------
    for n in 1..=max_rat {
        for _ in 0..reps {
            // Cholesky of L·Lᵀ returns L itself
            let (_l, a) = rat_llt(g, n);
            g.count("chol.rat.LLt");
            emit(g, "chol", "rat", n, n, &a, false);
            g.count("ldlt.rat.LLt");
            emit(g, "ldlt", "rat", n, n, &a, false);
            // semidefinite / indefinite: pivot `at` made exactly zero / negative
            let at = g.rng.below(n);
            let (l, mut a2) = rat_llt(g, n);
            let ljj = l[at * n + at].clone();
            let drop = if g.rng.chance(1, 2) {
                g.count("chol.rat.zero-pivot");
                ljj.clone() * ljj
            } else {
                g.count("chol.rat.negative-pivot");
                ljj.clone() * ljj + rat_pos(g)
            };
            a2[at * n + at] = a2[at * n + at].clone() - drop;
            emit(g, "chol", "rat", n, n, &a2, false);
            g.count("ldlt.rat.indefinite-or-semidefinite");
            emit(g, "ldlt", "rat", n, n, &a2, false);
            // asymmetric: the strict upper triangle of an L·Lᵀ perturbed
            if n >= 2 {
                let (_l, mut a3) = rat_llt(g, n);
                let (i, j) = (g.rng.below(n - 1), n - 1);
                a3[i * n + j] = a3[i * n + j].clone() + rat_pos(g);
                g.count("chol.rat.asymmetric");
                emit(g, "chol", "rat", n, n, &a3, false);
                g.count("ldlt.rat.asymmetric");
                emit(g, "ldlt", "rat", n, n, &a3, false);
            }
            // LDLᵀ on B·Bᵀ + cI, on plain symmetric integer matrices and on constructed zero pivots
            let c = g.rng.range(1, 3) as i64;
            let a = rat_bbt(g, n, c);
            g.count("ldlt.rat.BBt+cI");
            emit(g, "ldlt", "rat", n, n, &a, false);
            let mut a: Vec<Rat> = (0..n * n).map(|_| rat_small(g)).collect();
            symmetrise(n, &mut a);
            g.count("ldlt.rat.symmetric-any");
            emit(g, "ldlt", "rat", n, n, &a, false);
            let at = g.rng.below(n);
            let mut a = rat_bbt(g, n, c);
            a[at * n + at] = steer_ldlt_sum::<Rat>(n, &a, at);
            g.count(&format!("ldlt.rat.zero-pivot-at={}", at));
            emit(g, "ldlt", "rat", n, n, &a, false);
        }
    }

    // ---- f64 sanity oracle: implementation against the defining identities ------------------------
    let max_f = 8;
    let f_reps = if g.thorough { 12 } else { 4 };
    for n in 1..=max_f {
        for _ in 0..f_reps {
            for kind in ["spd", "indef", "semi"] {
                for alg in ["chol", "ldlt"] {
                    if alg == "ldlt" && kind == "indef" {
                        continue; // LDLᵀ accepts indefinite inputs; exactness is covered in Rat/Fp
                    }
                    let seed = g.rng.next() % 1_000_000_007;
                    let via = *g.rng.pick(&VIAS);
                    g.op(format!("@ {} f64 {} {} {} {} via={}", alg, n, n, kind, seed, via));
                    g.count(&format!("{}.f64.{}", alg, kind));
                }
            }
        }
    }
    for rows in 1..=max_f {
        for cols in 1..=max_f {
            let r = if cols > rows { 1 } else { f_reps };
            for _ in 0..r {
                let seed = g.rng.next() % 1_000_000_007;
                let via = *g.rng.pick(&VIAS);
                g.op(format!("@ qr f64 {} {} full {} via={}", rows, cols, seed, via));
                g.count(if cols > rows { "qr.f64.wide" } else { "qr.f64.full-rank" });
                if cols <= rows && rows >= 2 {
                    // an exact zero at the reflected position with something non-zero below it
                    for kind in ["zerolead", "perm", "antidiag", "stair"] {
                        let seed = g.rng.next() % 1_000_000_007;
                        let via = *g.rng.pick(&VIAS);
                        g.op(format!("@ qr f64 {} {} {} {} via={}", rows, cols, kind, seed, via));
                        g.count(&format!("qr.f64.zero-at-reflected-position.{}", kind));
                    }
                }
            }
        }
    }
    // ---- the top of the size ranges, in every tier ------------------------------------------------
    // (a fast path gated on a size threshold — an unrolled inner loop, a blocked product — must be
    // exercised by the quick run as well)
    if !g.thorough {
        for n in [5usize, 6, 7, 8] {
            // Cholesky over Fp: one input on which every pivot is positive (the whole factor is
            // computed), one random symmetric input
            let all_positive = loop {
                let mut a: Vec<Fp> = (0..n * n).map(|_| rand_fp(g)).collect();
                symmetrise(n, &mut a);
                if steer_chol::<Fp>(n, &a, None).0.is_none() {
                    break a;
                }
            };
            g.count(&format!("top-of-range.chol.fp.{}x{}", n, n));
            emit(g, "chol", "fp", n, n, &all_positive, false);
            let mut a: Vec<Fp> = (0..n * n).map(|_| rand_fp(g)).collect();
            symmetrise(n, &mut a);
            emit(g, "chol", "fp", n, n, &a, false);
            // LDLᵀ over Fp: two random symmetric inputs (present unless a pivot is exactly zero)
            for _ in 0..2 {
                let mut a: Vec<Fp> = (0..n * n).map(|_| rand_fp(g)).collect();
                symmetrise(n, &mut a);
                g.count(&format!("top-of-range.ldlt.fp.{}x{}", n, n));
                emit(g, "ldlt", "fp", n, n, &a, false);
            }
            // exact rationals: L·Lᵀ of an integer lower-triangular L (identities checked exactly)
            let mut l = vec![Rat::int(0); n * n];
            for i in 0..n {
                for j in 0..i {
                    l[i * n + j] = Rat::int(g.rng.below(5) as i64 - 2);
                }
                l[i * n + i] = Rat::int(g.rng.below(3) as i64 + 1);
            }
            let mut a = vec![Rat::int(0); n * n];
            for i in 0..n {
                for j in 0..n {
                    let mut sum = Rat::int(0);
                    for k in 0..n {
                        sum = sum + l[i * n + k].clone() * l[j * n + k].clone();
                    }
                    a[i * n + j] = sum;
                }
            }
            g.count(&format!("top-of-range.chol+ldlt.rat.{}x{}", n, n));
            emit(g, "chol", "rat", n, n, &a, false);
            emit(g, "ldlt", "rat", n, n, &a, false);
        }
    }
    for (rows, cols) in [(8usize, 8usize), (8, 3), (9, 2), (12, 1)] {
        if g.thorough && rows <= 8 {
            continue; // already part of the thorough sweep
        }
        for _ in 0..2 {
            let a: Vec<Fp> = (0..rows * cols).map(|_| rand_fp(g)).collect();
            g.count(&format!("top-of-range.qr.fp.{}x{}", rows, cols));
            emit(g, "qr", "fp", rows, cols, &a, false);
        }
        if rows > max_f {
            for kind in ["full", "zerolead", "perm", "stair"] {
                let seed = g.rng.next() % 1_000_000_007;
                let via = *g.rng.pick(&VIAS);
                g.op(format!("@ qr f64 {} {} {} {} via={}", rows, cols, kind, seed, via));
                g.count(&format!("top-of-range.qr.f64.{}x{}", rows, cols));
            }
        }
    }
    // ---- adversarial dimension names for the tensor entry points ------------------------------------
    // the names the library uses internally ("r" for the reflected column, "row"/"column" of the
    // matrix interop, "samples"/"features"), prefixes of one another, one-letter names and the empty
    // name, in both positions; the factors must carry exactly the input's names
    {
        let mut pairs: Vec<[&'static str; 2]> = vec![
            ["r", "c"], ["c", "r"], ["x", "r"], ["r", "x"], ["x", "c"], ["c", "x"], ["row", "x"], ["x", "row"],
            ["column", "row"], ["x", "column"], ["column", "x"], ["i", "j"], ["j", "i"], ["_empty_", "x"],
            ["x", "_empty_"], ["r", "_empty_"], ["samples", "features"], ["features", "samples"],
            ["rows", "row"], ["row", "rows"], ["rr", "r"], ["a", "aa"],
        ];
        for _ in 0..(if g.thorough { 30 } else { 10 }) {
            let two = adversarial_names(&mut g.rng, 2);
            pairs.push([two[0], two[1]]);
        }
        let tensor_vias = ["tensor", "owned", "tensor_view", "view", "range", "reverse"];
        for names in pairs {
            let n = g.rng.range(2, 3);
            let spd = loop {
                let mut a: Vec<Fp> = (0..n * n).map(|_| rand_fp(g)).collect();
                symmetrise(n, &mut a);
                if steer_chol::<Fp>(n, &a, None).0.is_none() {
                    break a;
                }
            };
            let (rows, cols) = *g.rng.pick(&[(2usize, 1usize), (2, 2), (3, 2), (3, 3)]);
            let tall: Vec<Fp> = (0..rows * cols).map(|_| rand_fp(g)).collect();
            for (alg, r, c, a) in [("chol", n, n, &spd), ("ldlt", n, n, &spd), ("qr", rows, cols, &tall)] {
                let via = *g.rng.pick(&tensor_vias);
                g.op(format!(
                    "@ {} fp {} {} {} names={},{} via={}",
                    alg, r, c, show_elems(a), names[0], names[1], via
                ));
                g.count(&format!("adversarial-names.{}", alg));
            }
        }
    }
    // ---- wrapper element type: forward-mode dual numbers over Fp (`Trace<Fp>`) ----------------------
    // The routines are generic: at `Trace<Fp>` every entry carries a derivative.  The inputs have a
    // zero *number* with a non-zero *derivative* below the diagonal of the first column, so the
    // factor has entries that compare equal to zero and still contribute to the derivative parts.
    for n in 2..=(if g.thorough { 5 } else { 4 }) {
        for rep in 0..(if g.thorough { 9 } else { 6 }) {
            let numbers = loop {
                let mut a: Vec<Fp> = (0..n * n).map(|_| rand_fp(g)).collect();
                // zero numbers below the diagonal of column 0 (all of them, or one)
                for i in 1..n {
                    // all of them / only the first / only the last (a zero-valued entry then meets
                    // non-zero partners in the later inner sums)
                    if rep % 3 == 0 || (rep % 3 == 1 && i == 1) || (rep % 3 == 2 && i == n - 1) {
                        a[i * n] = Fp(0);
                    }
                }
                symmetrise(n, &mut a);
                if steer_chol::<Fp>(n, &a, None).0.is_none() {
                    break a;
                }
            };
            let mut derivatives: Vec<Fp> = (0..n * n).map(|_| rand_fp(g)).collect();
            symmetrise(n, &mut derivatives);
            let shown = numbers
                .iter()
                .zip(derivatives.iter())
                .map(|(x, d)| format!("{}~{}", x, d))
                .collect::<Vec<_>>()
                .join(",");
            for alg in ["chol", "ldlt"] {
                for via in ["matrix", "tensor", "view"] {
                    g.op(format!("@ {} tr {} {} {} names=r,c via={}", alg, n, n, shown, via));
                }
                g.count(&format!("{}.trace-elements.zero-valued-factor-entries", alg));
            }
        }
    }}
