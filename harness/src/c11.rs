//! C11 — matrix resizing histories (history protocol).  See lean/Driver/C11.lean for the
//! protocol.  Every operation runs under `catch_unwind`; after a panic the *surviving* matrix is
//! observed and used by the following operations.

use crate::util::*;
use easy_ml::matrices::slices::{self, Slice, Slice2D};
use easy_ml::matrices::views::{DataLayout, MatrixMut, MatrixRef, MatrixView};
use easy_ml::matrices::Matrix;

// ---------------------------------------------------------------------------------------------
// slices: a small AST shared by generator (size tracking) and runner (building `Slice`)
// ---------------------------------------------------------------------------------------------

#[derive(Clone, Debug)]
enum Sl {
    All,
    None,
    Single(usize),
    Range(usize, usize),
    Not(Box<Sl>),
    And(Box<Sl>, Box<Sl>),
    Or(Box<Sl>, Box<Sl>),
}

impl Sl {
    fn show(&self) -> String {
        match self {
            Sl::All => "all".into(),
            Sl::None => "none".into(),
            Sl::Single(i) => format!("single({})", i),
            Sl::Range(a, b) => format!("range({},{})", a, b),
            Sl::Not(s) => format!("not({})", s.show()),
            Sl::And(a, b) => format!("and({},{})", a.show(), b.show()),
            Sl::Or(a, b) => format!("or({},{})", a.show(), b.show()),
        }
    }
    /// generator-side reading of the slice (only used to track the expected size)
    fn accepts(&self, i: usize) -> bool {
        match self {
            Sl::All => true,
            Sl::None => false,
            Sl::Single(k) => *k == i,
            Sl::Range(a, b) => *a <= i && i < *b,
            Sl::Not(s) => !s.accepts(i),
            Sl::And(a, b) => a.accepts(i) && b.accepts(i),
            Sl::Or(a, b) => a.accepts(i) || b.accepts(i),
        }
    }
    fn count(&self, n: usize) -> usize {
        (0..n).filter(|i| self.accepts(*i)).count()
    }
    fn build(&self) -> Slice {
        // both the enum constructors and the builder methods `not` / `and` / `or`
        let alt = self.show().len() % 2 == 0;
        match self {
            Sl::All => Slice::All(),
            Sl::None => Slice::None(),
            Sl::Single(i) => Slice::Single(*i),
            Sl::Range(a, b) => Slice::Range(*a..*b),
            Sl::Not(s) if alt => s.build().not(),
            Sl::Not(s) => Slice::Not(Box::new(s.build())),
            Sl::And(a, b) if alt => a.build().and(b.build()),
            Sl::And(a, b) => Slice::And(Box::new(a.build()), Box::new(b.build())),
            Sl::Or(a, b) if alt => a.build().or(b.build()),
            Sl::Or(a, b) => Slice::Or(Box::new(a.build()), Box::new(b.build())),
        }
    }
}

fn split_top(s: &str) -> Vec<&str> {
    let mut out = vec![];
    let (mut depth, mut start) = (0i32, 0usize);
    for (i, ch) in s.char_indices() {
        match ch {
            '(' => depth += 1,
            ')' => depth -= 1,
            ',' if depth == 0 => {
                out.push(&s[start..i]);
                start = i + 1;
            }
            _ => {}
        }
    }
    out.push(&s[start..]);
    out
}

fn parse_slice(s: &str) -> Sl {
    let (name, args) = match s.find('(') {
        Some(p) => (&s[..p], &s[p + 1..s.len() - 1]),
        None => (s, ""),
    };
    let parts: Vec<&str> = if args.is_empty() { vec![] } else { split_top(args) };
    match (name, parts.len()) {
        ("all", 0) => Sl::All,
        ("none", 0) => Sl::None,
        ("single", 1) => Sl::Single(parts[0].parse().expect("single")),
        ("range", 2) => Sl::Range(parts[0].parse().expect("range"), parts[1].parse().expect("range")),
        ("not", 1) => Sl::Not(Box::new(parse_slice(parts[0]))),
        ("and", 2) => Sl::And(Box::new(parse_slice(parts[0])), Box::new(parse_slice(parts[1]))),
        ("or", 2) => Sl::Or(Box::new(parse_slice(parts[0])), Box::new(parse_slice(parts[1]))),
        _ => panic!("bad slice {}", s),
    }
}

// ---------------------------------------------------------------------------------------------
// generation
// ---------------------------------------------------------------------------------------------

/// The generator's own bookkeeping of the expected size (what the property demands), so that
/// arguments can be chosen relative to the current size.  It decides nothing.
#[derive(Clone, Copy)]
struct Size {
    r: usize,
    c: usize,
}

#[derive(Clone)]
enum GOp {
    InsertRow(usize, u64),
    InsertRowWith(usize, Vec<u64>),
    InsertColumn(usize, u64),
    InsertColumnWith(usize, Vec<u64>),
    RemoveRow(usize),
    RemoveColumn(usize),
    Retain(bool, Sl, Sl), // true: retain_mut
    Transpose,
    TransposeMut,
    Set(usize, usize, u64, bool), // true: via get_reference_mut
    MapMut(u64),
    MapMutWithIndex(u64),
    Map(u64),
    MapWithIndex(u64),
    /// the user code (closure / iterator `next`) of the wrapped operation panics on call `.1`
    Panicking(Box<GOp>, usize),
    /// every cell := b + 100 i + j (None) or := v (Some(v)); re-synchronises a case after a
    /// panicking in-place map, whose partial effect is not part of the property
    Resync(u64, Option<u64>),
}

/// The kinds of iterator the `_with` forms are driven with (`via=`); what matters is the
/// `size_hint` each reports: exact, a loose upper bound, no upper bound, a lying lower bound.
const ITER_KINDS: [&str; 11] = [
    "vec",        // vec::IntoIter                      (n, Some(n))
    "cloned",     // Cloned<slice::Iter>                (n, Some(n))
    "range_map",  // Map<Range>                         (n, Some(n))
    "filter",     // Filter over values mixed with junk (0, Some(2n+1))
    "take_while", // TakeWhile, junk behind a stopper   (0, Some(n+4))
    "skip_while", // SkipWhile, junk in front           (0, Some(n+2))
    "from_fn",    // FromFn                             (0, None)
    "chain",      // Chain<Filter, FromFn>              (0, None)
    "flat_map",   // FlatMap over Option                (0, Some(n)) or looser
    "lying_low",  // custom: lower bound n + 5 (more than it yields), no upper bound
    "dyn",        // &mut dyn Iterator over a filter    (0, Some(2n+1))
];

/// a deterministic, well spread choice of iterator kind for a generated operation
fn iter_kind_for(salt: usize, vs: &[u64]) -> &'static str {
    let h = vs.iter().fold((salt as u64).wrapping_mul(31).wrapping_add(vs.len() as u64), |a, x| a.wrapping_mul(131).wrapping_add(*x));
    ITER_KINDS[(h % ITER_KINDS.len() as u64) as usize]
}

fn show_vals(v: &[u64]) -> String {
    if v.is_empty() {
        "-".into()
    } else {
        v.iter().map(|x| x.to_string()).collect::<Vec<_>>().join(",")
    }
}

impl GOp {
    fn line(&self) -> String {
        match self {
            GOp::InsertRow(p, v) => format!("insert_row {} {}", p, v),
            GOp::InsertRowWith(p, vs) => {
                format!("insert_row_with {} {} via={}", p, show_vals(vs), iter_kind_for(*p, vs))
            }
            GOp::InsertColumn(p, v) => format!("insert_column {} {}", p, v),
            GOp::InsertColumnWith(p, vs) => {
                format!("insert_column_with {} {} via={}", p, show_vals(vs), iter_kind_for(p.wrapping_add(4), vs))
            }
            GOp::RemoveRow(p) => format!("remove_row {}", p),
            GOp::RemoveColumn(p) => format!("remove_column {}", p),
            GOp::Retain(mutating, r, c) => format!(
                "{} rows={} cols={}",
                if *mutating { "retain_mut" } else { "retain" },
                r.show(),
                c.show()
            ),
            GOp::Transpose => "transpose".into(),
            GOp::TransposeMut => "transpose_mut".into(),
            GOp::Set(r, c, v, grm) => {
                format!("set {} {} {} via={}", r, c, v, if *grm { "get_reference_mut" } else { "set" })
            }
            GOp::MapMut(k) => format!("map_mut {}", k),
            GOp::MapMutWithIndex(k) => format!("map_mut_with_index {}", k),
            GOp::Map(k) => format!("map {}", k),
            GOp::MapWithIndex(k) => format!("map_with_index {}", k),
            GOp::Panicking(op, j) => format!("{} panic_at={}", op.line(), j),
            GOp::Resync(b, None) => format!("renumber {}", b),
            GOp::Resync(_, Some(v)) => format!("fill {}", v),
        }
    }
    fn name(&self) -> &'static str {
        match self {
            GOp::InsertRow(..) => "insert_row",
            GOp::InsertRowWith(..) => "insert_row_with",
            GOp::InsertColumn(..) => "insert_column",
            GOp::InsertColumnWith(..) => "insert_column_with",
            GOp::RemoveRow(..) => "remove_row",
            GOp::RemoveColumn(..) => "remove_column",
            GOp::Retain(true, ..) => "retain_mut",
            GOp::Retain(false, ..) => "retain",
            GOp::Transpose => "transpose",
            GOp::TransposeMut => "transpose_mut",
            GOp::Set(..) => "set",
            GOp::MapMut(..) => "map_mut",
            GOp::MapMutWithIndex(..) => "map_mut_with_index",
            GOp::Map(..) => "map",
            GOp::MapWithIndex(..) => "map_with_index",
            GOp::Resync(..) => "resync",
            GOp::Panicking(op, _) => match op.name() {
                "map_mut" => "map_mut.panic_at",
                "map_mut_with_index" => "map_mut_with_index.panic_at",
                "map" => "map.panic_at",
                "map_with_index" => "map_with_index.panic_at",
                "insert_row_with" => "insert_row_with.panic_at",
                _ => "insert_column_with.panic_at",
            },
        }
    }
    /// how often the operation calls its user code (closure / `next`) at this size
    fn user_calls(&self, s: Size) -> usize {
        let next_calls = |need: usize, len: usize| if need <= len { need } else { len + 1 };
        match self {
            GOp::MapMut(_) | GOp::MapMutWithIndex(_) | GOp::Map(_) | GOp::MapWithIndex(_) => s.r * s.c,
            GOp::InsertRowWith(p, vs) if *p <= s.r => next_calls(s.c, vs.len()),
            GOp::InsertColumnWith(p, vs) if *p <= s.c => next_calls(s.r, vs.len()),
            _ => 0,
        }
    }
    /// does the documented precondition hold at this size (and no user code panic occur)?
    fn valid(&self, s: Size) -> bool {
        match self {
            GOp::Panicking(op, j) => *j >= op.user_calls(s) && op.valid(s),
            GOp::InsertRow(p, _) => *p <= s.r,
            GOp::InsertRowWith(p, vs) => *p <= s.r && vs.len() >= s.c,
            GOp::InsertColumn(p, _) => *p <= s.c,
            GOp::InsertColumnWith(p, vs) => *p <= s.c && vs.len() >= s.r,
            GOp::RemoveRow(p) => s.r > 1 && *p < s.r,
            GOp::RemoveColumn(p) => s.c > 1 && *p < s.c,
            GOp::Retain(_, r, c) => r.count(s.r) > 0 && c.count(s.c) > 0,
            GOp::Transpose | GOp::TransposeMut | GOp::MapMut(_) | GOp::MapMutWithIndex(_) => true,
            GOp::Map(_) | GOp::MapWithIndex(_) | GOp::Resync(..) => true,
            GOp::Set(r, c, _, _) => *r < s.r && *c < s.c,
        }
    }
    /// the size the property demands afterwards
    fn after(&self, s: Size) -> Size {
        if !self.valid(s) {
            return s;
        }
        match self {
            GOp::InsertRow(..) | GOp::InsertRowWith(..) => Size { r: s.r + 1, c: s.c },
            GOp::InsertColumn(..) | GOp::InsertColumnWith(..) => Size { r: s.r, c: s.c + 1 },
            GOp::RemoveRow(_) => Size { r: s.r - 1, c: s.c },
            GOp::RemoveColumn(_) => Size { r: s.r, c: s.c - 1 },
            GOp::Retain(_, r, c) => Size { r: r.count(s.r), c: c.count(s.c) },
            GOp::Transpose | GOp::TransposeMut => Size { r: s.c, c: s.r },
            GOp::Panicking(op, _) => op.after(s),
            _ => s,
        }
    }
}

fn count_op(g: &mut Gen, op: &GOp, s: Size, ctx: &str) {
    let v = if op.valid(s) { "valid" } else { "invalid" };
    g.count(&format!("{}.{}.{}", ctx, op.name(), v));
    match op {
        GOp::InsertRowWith(p, vs) => {
            let k = if vs.len() < s.c { "too_few" } else if vs.len() == s.c { "exact" } else { "surplus" };
            g.count(&format!("{}.insert_row_with.values_{}", ctx, k));
            g.count(&format!("iter.insert_row_with.{}.{}", iter_kind_for(*p, vs), k));
        }
        GOp::InsertColumnWith(p, vs) => {
            let k = if vs.len() < s.r { "too_few" } else if vs.len() == s.r { "exact" } else { "surplus" };
            g.count(&format!("{}.insert_column_with.values_{}", ctx, k));
            g.count(&format!("iter.insert_column_with.{}.{}", iter_kind_for(p.wrapping_add(4), vs), k));
        }
        GOp::TransposeMut => {
            g.count(&format!("{}.transpose_mut.{}", ctx, if s.r == s.c { "square" } else { "fallback" }));
        }
        _ => {}
    }
}

/// `n` fresh distinguishable values (all ≥ 50, the initial elements are 1..=R*C ≤ 49)
fn fresh(counter: &mut u64, n: usize) -> Vec<u64> {
    (0..n)
        .map(|_| {
            *counter += 1;
            *counter
        })
        .collect()
}

/// the read-only getters: every row and column index in `0..=len+1` (all = true) or a random one
fn getter_lines(g: &mut Gen, s: Size, all: bool) {
    let via = |k: usize| if k % 2 == 0 { "iter" } else { "reference_iter" };
    if all {
        for r in 0..=s.r + 1 {
            g.op(format!("row_iter {} via={}", r, via(r)));
            g.count(if r < s.r { "getter.row_iter.valid" } else { "getter.row_iter.invalid" });
        }
        for c in 0..=s.c + 1 {
            g.op(format!("column_iter {} via={}", c, via(c + 1)));
            g.count(if c < s.c { "getter.column_iter.valid" } else { "getter.column_iter.invalid" });
        }
        g.op("diagonal_iter via=iter".to_string());
        g.op("diagonal_iter via=reference_iter".to_string());
        g.count_n("getter.diagonal_iter", 2);
    } else {
        match g.rng.below(3) {
            0 => {
                let r = pick_index(g, s.r);
                g.op(format!("row_iter {} via={}", r, via(r)));
                g.count(if r < s.r { "getter.row_iter.valid" } else { "getter.row_iter.invalid" });
            }
            1 => {
                let c = pick_index(g, s.c);
                g.op(format!("column_iter {} via={}", c, via(c)));
                g.count(if c < s.c { "getter.column_iter.valid" } else { "getter.column_iter.invalid" });
            }
            _ => {
                g.op(format!("diagonal_iter via={}", via(s.r + s.c)));
                g.count("getter.diagonal_iter");
            }
        }
    }
}

/// `==` between the matrix and the result of an operation on a clone: operations that must give
/// an equal matrix (no-ops), ones that cannot (size changes), and ones that do only on
/// degenerate data (writing a value that may be there, transposing a symmetric matrix, …)
fn eq_lines(g: &mut Gen, s: Size, value: u64) {
    let ops = vec![
        "retain_mut rows=all cols=all".to_string(),
        "map_mut 0".to_string(),
        "map_mut 1".to_string(),
        "transpose_mut".to_string(),
        "transpose".to_string(),
        format!("set 0 0 {} via=set", value),
        format!("set {} {} {} via=set", s.r - 1, s.c - 1, value),
        format!("set {} 0 {} via=set", s.r, value),
        format!("insert_row 0 {}", value),
        format!("remove_column {}", s.c - 1),
        format!("fill {}", value),
        format!("retain rows=not(single(0)) cols=all"),
        "map_mut 5 panic_at=0".to_string(),
        "map_mut_with_index 0".to_string(),
    ];
    for op in ops {
        g.op(format!("eq_after {}", op));
        g.count("query.eq_after");
    }
}

/// The slice shapes of the exhaustive alphabet, instantiated at dimension length `n`.
fn slice_shapes(n: usize) -> Vec<Sl> {
    vec![
        Sl::All,
        Sl::None,
        Sl::Single(0),
        Sl::Single(n),
        Sl::Range(1, n + 1),
        Sl::Not(Box::new(Sl::Single(0))),
        Sl::And(Box::new(Sl::Range(0, 2)), Box::new(Sl::Not(Box::new(Sl::Single(1))))),
        Sl::Or(Box::new(Sl::Single(0)), Box::new(Sl::Single(n.saturating_sub(1)))),
        // every other index
        Sl::Or(Box::new(Sl::Single(0)), Box::new(Sl::Or(Box::new(Sl::Single(2)), Box::new(Sl::Single(4))))),
        Sl::Not(Box::new(Sl::Or(Box::new(Sl::Single(0)), Box::new(Sl::Single(2))))),
    ]
}

/// The operation alphabet at size `s`: every operation with arguments in `0..=len+1`, value lists
/// of length `0..=len+1`.  `counter` provides distinguishable inserted values.
fn alphabet(s: Size, counter: &mut u64) -> Vec<GOp> {
    let mut ops = vec![];
    for p in 0..=s.r + 1 {
        ops.push(GOp::InsertRow(p, fresh(counter, 1)[0]));
        ops.push(GOp::RemoveRow(p));
    }
    for p in 0..=s.c + 1 {
        ops.push(GOp::InsertColumn(p, fresh(counter, 1)[0]));
        ops.push(GOp::RemoveColumn(p));
    }
    // iterator forms: every position with exactly enough values; every length 0..=len+1 at the
    // first, the last and the first invalid position
    for p in 0..=s.r + 1 {
        ops.push(GOp::InsertRowWith(p, fresh(counter, s.c)));
    }
    for p in [0, s.r, s.r + 1] {
        for n in 0..=s.c + 1 {
            if n != s.c {
                ops.push(GOp::InsertRowWith(p, fresh(counter, n)));
            }
        }
    }
    for p in 0..=s.c + 1 {
        ops.push(GOp::InsertColumnWith(p, fresh(counter, s.r)));
    }
    for p in [0, s.c, s.c + 1] {
        for n in 0..=s.r + 1 {
            if n != s.r {
                ops.push(GOp::InsertColumnWith(p, fresh(counter, n)));
            }
        }
    }
    // retention: each shape on the rows with all columns, on the columns with all rows, and a
    // few mixed ones; alternating the mutating and the allocating form
    let mut k = 0;
    for sh in slice_shapes(s.r) {
        ops.push(GOp::Retain(k % 2 == 0, sh, Sl::All));
        k += 1;
    }
    for sh in slice_shapes(s.c).into_iter().skip(1) {
        ops.push(GOp::Retain(k % 2 == 0, Sl::All, sh));
        k += 1;
    }
    ops.push(GOp::Retain(true, Sl::Single(0), Sl::Not(Box::new(Sl::Single(0)))));
    ops.push(GOp::Retain(false, Sl::Not(Box::new(Sl::Single(0))), Sl::Range(0, 1)));
    ops.push(GOp::Retain(true, Sl::Single(s.r), Sl::None));
    ops.push(GOp::Transpose);
    ops.push(GOp::TransposeMut);
    ops.push(GOp::Set(s.r - 1, s.c - 1, fresh(counter, 1)[0], false));
    ops.push(GOp::Set(0, 0, fresh(counter, 1)[0], true));
    ops.push(GOp::Set(s.r, 0, fresh(counter, 1)[0], false));
    ops.push(GOp::Set(0, s.c, fresh(counter, 1)[0], true));
    ops.push(GOp::Set(0, s.c, fresh(counter, 1)[0], false));
    ops.push(GOp::MapMut(1000));
    ops.push(GOp::MapMutWithIndex(100));
    ops.push(GOp::Map(2000));
    ops.push(GOp::MapWithIndex(300));
    ops
}

const NEW_VIAS: [&str; 3] = ["from", "flat", "from_fn"];

fn seq(n: usize) -> String {
    (1..=n).map(|x| x.to_string()).collect::<Vec<_>>().join(",")
}

/// Every way to construct an `r`x`c` matrix (r, c >= 1) through a public constructor.  The first
/// three give the elements 1..=r*c (all distinguishable); `empty`, `diagonal` and
/// `from_diagonal` necessarily repeat elements.
fn start_lines(r: usize, c: usize) -> Vec<(String, &'static str)> {
    let mut v = vec![
        (format!("@ new {}x{} via=from", r, c), "from"),
        (format!("@ new {}x{} via=flat", r, c), "from_flat_row_major"),
        (format!("@ new {}x{} via=from_fn", r, c), "from_fn"),
    ];
    if r == 1 {
        v.push((format!("@ row {}", seq(c)), "row"));
    }
    if c == 1 {
        v.push((format!("@ column {}", seq(r)), "column"));
    }
    if r == 1 && c == 1 {
        v.push(("@ scalar 1 via=from_scalar".to_string(), "from_scalar"));
        v.push(("@ scalar 1 via=unit".to_string(), "unit"));
    }
    v.push((format!("@ empty {} {} 5", r, c), "empty"));
    if r == c {
        v.push((format!("@ diagonal {} {} 7", r, c), "diagonal"));
        v.push((format!("@ from_diagonal {}", seq(r)), "from_diagonal"));
    }
    v
}

/// the `k`-th applicable constructor (rotating), counted in the input distribution
fn start_line(g: &mut Gen, r: usize, c: usize, k: usize) -> String {
    let v = start_lines(r, c);
    let (line, name) = &v[k % v.len()];
    g.count(&format!("start.constructor.{}", name));
    line.clone()
}

fn gen_exhaustive(g: &mut Gen) {
    // all sequences of length <= 3: the first two operations are ordinary lines of a case, the
    // last one ranges over the whole alphabet as `try` lines (operation on a clone)
    let mut via = 0;
    let mut new_line = |g: &mut Gen, r: usize, c: usize| {
        via += 1;
        start_line(g, r, c, via)
    };
    let mut prefixes2: Vec<(Size, GOp, GOp)> = vec![];
    for r in 1..=3usize {
        for c in 1..=3usize {
            let s0 = Size { r, c };
            let mut counter = 50u64;
            // length 1
            let l = new_line(g, r, c);
            g.op(l);
            g.count("exhaustive.case.len1");
            g.op("scalar".to_string());
            g.op("try_into_scalar".to_string());
            getter_lines(g, s0, true);
            eq_lines(g, s0, 1);
            let a1 = alphabet(s0, &mut counter);
            for op in &a1 {
                count_op(g, op, s0, "exh");
                g.op(format!("try {}", op.line()));
            }
            // length 2
            for op1 in &a1 {
                let l = new_line(g, r, c);
                g.op(l);
                g.count("exhaustive.case.len2");
                g.op(op1.line());
                let s1 = op1.after(s0);
                let mut counter2 = 200u64;
                let a2 = alphabet(s1, &mut counter2);
                for op2 in &a2 {
                    count_op(g, op2, s1, "exh");
                    g.op(format!("try {}", op2.line()));
                    prefixes2.push((s0, op1.clone(), op2.clone()));
                }
            }
        }
    }
    // length 3: all prefixes in the thorough tier, a seeded sample in the quick tier
    let total = prefixes2.len();
    let chosen: Vec<usize> = if g.thorough {
        (0..total).collect()
    } else {
        let mut idx: Vec<usize> = (0..total).collect();
        g.rng.shuffle(&mut idx);
        idx.truncate(2500);
        idx
    };
    g.count_n("exhaustive.len3.prefixes_total", total as u64);
    for i in chosen {
        let (s0, op1, op2) = prefixes2[i].clone();
        let l = new_line(g, s0.r, s0.c);
        g.op(l);
        g.count("exhaustive.case.len3");
        g.op(op1.line());
        let s1 = op1.after(s0);
        g.op(op2.line());
        let s2 = op2.after(s1);
        if !op1.valid(s0) || !op2.valid(s1) {
            g.count("exhaustive.case.len3.after_invalid_op");
        }
        let mut counter3 = 400u64;
        for op3 in alphabet(s2, &mut counter3) {
            count_op(g, &op3, s2, "exh");
            g.op(format!("try {}", op3.line()));
        }
    }
}

/// a slice that accepts at least one index below `n` (n >= 1)
fn friendly_slice(g: &mut Gen, n: usize) -> Sl {
    match g.rng.below(8) {
        0 | 1 => Sl::All,
        2 => Sl::Single(g.rng.below(n)),
        3 => {
            let a = g.rng.below(n);
            let b = if g.rng.chance(1, 5) { usize::MAX } else { g.rng.range(a + 1, n + 1) };
            Sl::Range(a, b)
        }
        4 if n > 1 => Sl::Not(Box::new(Sl::Single(g.rng.below(n)))),
        5 => Sl::Or(Box::new(Sl::Single(g.rng.below(n))), Box::new(random_slice(g, n, 1))),
        6 => Sl::And(Box::new(Sl::Range(0, n)), Box::new(friendly_slice(g, n))),
        7 => Sl::Not(Box::new(Sl::Not(Box::new(friendly_slice(g, n))))),
        _ => Sl::Range(0, g.rng.range(1, n + 1)),
    }
}

fn random_slice(g: &mut Gen, n: usize, depth: usize) -> Sl {
    let k = if depth == 0 { g.rng.below(5) } else { g.rng.below(9) };
    match k {
        0 => Sl::All,
        1 => {
            if g.rng.chance(1, 4) {
                Sl::None
            } else {
                Sl::All
            }
        }
        2 => Sl::Single(pick_index(g, n)),
        3 | 4 => {
            let a = g.rng.below(n + 1);
            let b = match g.rng.below(6) {
                0 => usize::MAX,
                1 => a,
                _ => g.rng.below(n + 2),
            };
            Sl::Range(a, b)
        }
        5 | 6 => Sl::Not(Box::new(random_slice(g, n, depth - 1))),
        7 => Sl::And(Box::new(random_slice(g, n, depth - 1)), Box::new(random_slice(g, n, depth - 1))),
        _ => Sl::Or(Box::new(random_slice(g, n, depth - 1)), Box::new(random_slice(g, n, depth - 1))),
    }
}

/// mostly an index inside `0..n`; sometimes `n`, `n+1`, `usize::MAX`
fn pick_index(g: &mut Gen, n: usize) -> usize {
    match g.rng.below(24) {
        0 => n,
        1 => n + 1,
        2 => usize::MAX,
        _ => g.rng.below(n.max(1)),
    }
}

/// mostly a valid insertion position `0..=n`; sometimes beyond
fn pick_position(g: &mut Gen, n: usize) -> usize {
    match g.rng.below(12) {
        0 => n + 1,
        1 => usize::MAX,
        2 => n + 2,
        _ => g.rng.below(n + 1),
    }
}

fn pick_count(g: &mut Gen, n: usize) -> usize {
    match g.rng.below(10) {
        0 => n.saturating_sub(1),
        1 => 0,
        2 => n + 1,
        3 => n + 3,
        _ => n,
    }
}

fn random_op(g: &mut Gen, s: Size, counter: &mut u64) -> GOp {
    // keep the matrix from growing without bound: prefer shrinking operations when large
    let big = s.r * s.c > 30;
    let k = if big && g.rng.chance(1, 2) { 4 + g.rng.below(4) } else { g.rng.below(16) };
    match k {
        0 => GOp::InsertRow(pick_position(g, s.r), fresh(counter, 1)[0]),
        1 => {
            let n = pick_count(g, s.c);
            GOp::InsertRowWith(pick_position(g, s.r), fresh(counter, n))
        }
        2 => GOp::InsertColumn(pick_position(g, s.c), fresh(counter, 1)[0]),
        3 => {
            let n = pick_count(g, s.r);
            GOp::InsertColumnWith(pick_position(g, s.c), fresh(counter, n))
        }
        4 => GOp::RemoveRow(pick_index(g, s.r)),
        5 => GOp::RemoveColumn(pick_index(g, s.c)),
        6 | 7 => {
            // mostly retentions that keep something; one in four from the arbitrary stream
            let (rs, cs) = if g.rng.chance(3, 4) {
                (friendly_slice(g, s.r), friendly_slice(g, s.c))
            } else {
                let depth = g.rng.below(3);
                let rs = random_slice(g, s.r, depth);
                let depth = g.rng.below(3);
                (rs, random_slice(g, s.c, depth))
            };
            GOp::Retain(g.rng.chance(1, 2), rs, cs)
        }
        8 | 9 => GOp::Transpose,
        10 | 11 => GOp::TransposeMut,
        12 | 13 => GOp::Set(pick_index(g, s.r), pick_index(g, s.c), fresh(counter, 1)[0], g.rng.chance(1, 2)),
        14 => {
            if g.rng.chance(1, 2) {
                GOp::MapMut(g.rng.range(1, 5) as u64 * 1000)
            } else {
                GOp::Map(g.rng.range(1, 5) as u64 * 1000)
            }
        }
        _ => {
            if g.rng.chance(1, 2) {
                GOp::MapMutWithIndex(g.rng.range(1, 5) as u64 * 100)
            } else {
                GOp::MapWithIndex(g.rng.range(1, 5) as u64 * 100)
            }
        }
    }
}

fn gen_random(g: &mut Gen) {
    let cases = if g.thorough { 3000 } else { 600 };
    for _ in 0..cases {
        let r = g.rng.range(1, 4);
        let c = g.rng.range(1, 4);
        let k = if g.rng.chance(1, 2) { g.rng.below(3) } else { g.rng.below(64) };
        let l = start_line(g, r, c, k);
        g.op(l);
        let len = g.rng.range(1, 60);
        g.count(&format!("random.case.len<={}", ((len + 9) / 10) * 10));
        let mut s = Size { r, c };
        let mut counter = 50u64;
        let mut seen_invalid = false;
        for _ in 0..len {
            let op = random_op(g, s, &mut counter);
            count_op(g, &op, s, "rnd");
            if seen_invalid {
                g.count("rnd.op_after_an_invalid_op");
            }
            if !op.valid(s) {
                seen_invalid = true;
            }
            if g.rng.chance(1, 10) {
                getter_lines(g, s, false);
            }
            if g.rng.chance(1, 20) {
                let q = if g.rng.chance(1, 2) { "scalar" } else { "try_into_scalar" };
                g.op(q.to_string());
                g.count("rnd.query.scalar_or_try_into_scalar");
            }
            if g.rng.chance(1, 6) {
                g.op(format!("try {}", op.line()));
            } else {
                g.op(op.line());
                s = op.after(s);
            }
            g.count(&format!("rnd.size.rows={}", s.r.min(8)));
            g.count(&format!("rnd.size.columns={}", s.c.min(8)));
        }
    }
}

fn gen_constructors(g: &mut Gen) {
    for (r, c) in [(0usize, 0usize), (0, 1), (1, 0), (0, 3), (3, 0)] {
        for via in NEW_VIAS {
            g.op(format!("@ new {}x{} via={}", r, c, via));
            g.op("transpose".to_string());
            g.count("constructor.zero_size");
        }
    }
    for rows in ["none", "-", "-;-", "1", "1,2", "1;2", "1,2;3", "1;2,3", "1,2;3,4;5", "1,2;-", "1,2,3;4,5,6", "7,8;9,10;11,12"] {
        g.op(format!("@ from {}", rows));
        g.op("transpose_mut".to_string());
        g.op("insert_row 1 99".to_string());
        g.count("constructor.from_rows");
    }
    for (r, c, vals) in [
        (1usize, 1usize, "5"),
        (2, 2, "1,2,3"),
        (2, 2, "1,2,3,4"),
        (2, 2, "1,2,3,4,5"),
        (0, 0, "-"),
        (0, 5, "-"),
        (1, 0, "-"),
        (2, 3, "1,2,3,4,5,6"),
        (3, 2, "1,2,3,4,5,6"),
        (6, 1, "1,2,3,4,5,6"),
        (1, 6, "1,2,3,4,5,6"),
        (2, 2, "-"),
    ] {
        g.op(format!("@ flat {} {} {}", r, c, vals));
        g.op("remove_column 0".to_string());
        g.op("insert_column_with 0 70,71,72,73,74,75,76".to_string());
        g.count("constructor.from_flat_row_major");
    }
}

/// Every public constructor with valid and invalid arguments (zero sizes, non-square diagonal
/// sizes, element counts `usize` cannot represent, empty value lists), each followed by the
/// scalar accessors and a short history on the matrix it returned.
fn gen_constructor_table(g: &mut Gen) {
    const MAX: &str = "18446744073709551615";
    const TWO32: &str = "4294967296";
    let mut lines: Vec<String> = vec![];
    for vals in ["-", "7", "7,8", "7,8,9,10"] {
        lines.push(format!("@ row {}", vals));
        lines.push(format!("@ column {}", vals));
        lines.push(format!("@ from_diagonal {}", vals));
    }
    for via in ["from_scalar", "unit"] {
        lines.push(format!("@ scalar 42 via={}", via));
    }
    for (r, c) in [
        ("0", "0"), ("0", "1"), ("1", "0"), ("1", "1"), ("1", "3"), ("3", "1"), ("2", "2"), ("2", "3"),
        ("3", "3"), ("0", MAX), (MAX, "0"), (MAX, "2"), ("2", MAX), (MAX, MAX), (TWO32, TWO32),
    ] {
        lines.push(format!("@ empty {} {} 5", r, c));
        lines.push(format!("@ diagonal {} {} 7", r, c));
        // from_fn walks the index space before it can fail: only sizes that are rejected up
        // front (overflow) or empty, or small
        if !(r == MAX && c == "0") {
            lines.push(format!("@ new {}x{} via=from_fn", r, c));
        }
        lines.push(format!("@ flat {} {} -", r, c));
        lines.push(format!("@ flat {} {} 1,2,3,4,5,6", r, c));
    }
    for l in lines {
        let name = l.split_whitespace().nth(1).unwrap().to_string();
        g.count(&format!("constructor.table.{}", name));
        g.op(l);
        g.op("scalar".to_string());
        g.op("try_into_scalar".to_string());
        let mut counter = 50u64;
        // the generator does not know whether the constructor succeeded; operations chosen for
        // a nominal 2x2 size are valid, invalid or answered `no-matrix` accordingly
        let mut s = Size { r: 2, c: 2 };
        for _ in 0..6 {
            let op = random_op(g, s, &mut counter);
            g.op(op.line());
            s = op.after(s);
        }
    }
}

/// Every iterator kind x {row, column form} x value counts {0, len-1, len, len+1, len+3} x
/// position {first, last} on sizes 1x1..3x3, each followed by operations on the matrix that
/// came out (after a panic: the survivor).  The model ignores `via=`.
fn gen_iterator_kinds(g: &mut Gen) {
    let mut counter = 50u64;
    for r in 1..=3usize {
        for c in 1..=3usize {
            for kind in ITER_KINDS {
                for row_form in [true, false] {
                    let (need, npos) = if row_form { (c, r) } else { (r, c) };
                    let mut counts = vec![0, need.saturating_sub(1), need, need + 1, need + 3];
                    counts.dedup();
                    for n in counts {
                        for pos in [0, npos] {
                            let s0 = Size { r, c };
                            let k = counter as usize;
                            let l = start_line(g, r, c, k % 3);
                            g.op(l);
                            let vs = fresh(&mut counter, n);
                            let name = if row_form { "insert_row_with" } else { "insert_column_with" };
                            g.op(format!("{} {} {} via={}", name, pos, show_vals(&vs), kind));
                            let class = if n < need { "too_few" } else if n == need { "exact" } else { "surplus" };
                            g.count(&format!("iter.{}.{}.{}", name, kind, class));
                            let op = if row_form {
                                GOp::InsertRowWith(pos, vs)
                            } else {
                                GOp::InsertColumnWith(pos, vs)
                            };
                            let mut s = op.after(s0);
                            // the survivor is used: a fixed probe of every row and column, then
                            // two random operations
                            g.op("transpose_mut".to_string());
                            s = GOp::TransposeMut.after(s);
                            g.op(format!("insert_row {} {}", s.r, fresh(&mut counter, 1)[0]));
                            s = Size { r: s.r + 1, c: s.c };
                            for _ in 0..2 {
                                let op = random_op(g, s, &mut counter);
                                g.op(op.line());
                                s = op.after(s);
                            }
                        }
                    }
                }
            }
        }
    }
}

/// Histories on larger matrices (sides 8..12): removal and insertion near the end, retention
/// with ranges, the in-place transposition of 8x8 .. 12x12, so that size-gated paths are walked.
fn gen_large(g: &mut Gen) {
    let sizes: &[(usize, usize)] = &[(8, 8), (9, 9), (10, 10), (12, 12), (8, 12), (12, 8), (11, 9), (9, 8)];
    let rounds = if g.thorough { 6 } else { 2 };
    for round in 0..rounds {
        for &(r, c) in sizes {
            let l = start_line(g, r, c, round);
            g.op(l);
            g.count(&format!("large.case.{}x{}", r, c));
            let mut s = Size { r, c };
            let mut counter = 1000u64;
            let script: Vec<GOp> = vec![
                GOp::TransposeMut,
                GOp::RemoveRow(c - 1),
                GOp::RemoveColumn(r - 1),
                GOp::RemoveRow(c - 1),
                GOp::InsertRow(c - 1, fresh(&mut counter, 1)[0]),
                GOp::InsertColumnWith(r - 1, fresh(&mut counter, c - 1)),
                GOp::InsertRowWith(0, fresh(&mut counter, r + 2)),
                GOp::InsertColumnWith(r, fresh(&mut counter, c - 1)),
                GOp::InsertColumn(r + 1, fresh(&mut counter, 1)[0]),
                GOp::Transpose,
                GOp::Retain(true, Sl::Range(1, r), Sl::Not(Box::new(Sl::Single(c - 2)))),
                GOp::TransposeMut,
                GOp::MapMutWithIndex(100),
                GOp::Retain(false, Sl::Range(0, 8), Sl::Range(0, 8)),
                GOp::TransposeMut,
                GOp::RemoveColumn(0),
                GOp::RemoveRow(7),
                GOp::Set(6, 6, fresh(&mut counter, 1)[0], false),
                GOp::MapWithIndex(7),
            ];
            for op in script {
                count_op(g, &op, s, "large");
                g.op(op.line());
                s = op.after(s);
            }
            getter_lines(g, s, true);
            // grow back and go on at random without the shrinking bias of `random_op`
            for _ in 0..12 {
                let op = match g.rng.below(8) {
                    0 => GOp::InsertRow(g.rng.below(s.r + 1), fresh(&mut counter, 1)[0]),
                    1 => GOp::InsertColumn(g.rng.below(s.c + 1), fresh(&mut counter, 1)[0]),
                    2 => {
                        let n = pick_count(g, s.c);
                        GOp::InsertRowWith(s.r, fresh(&mut counter, n))
                    }
                    3 => {
                        let n = pick_count(g, s.r);
                        GOp::InsertColumnWith(s.c, fresh(&mut counter, n))
                    }
                    4 => GOp::TransposeMut,
                    5 => GOp::RemoveRow(s.r - 1),
                    6 => GOp::RemoveColumn(pick_index(g, s.c)),
                    _ => GOp::Retain(true, Sl::Range(0, s.r.max(2) - 1), Sl::All),
                };
                count_op(g, &op, s, "large");
                g.op(op.line());
                s = op.after(s);
                g.count(&format!("large.size.side={}", s.r.max(s.c).min(14)));
            }
        }
    }
}

/// User code panicking on its k-th call, for every k up to one beyond the number of calls, on
/// sizes 1x1..3x3 (+4x4), followed by a full use of the survivor (the observation of every line:
/// size, storage length, every element, both iterators) and further resizing.
fn gen_panicking_user_code(g: &mut Gen) {
    let mut counter = 50u64;
    let mut sizes: Vec<(usize, usize)> = vec![];
    for r in 1..=3usize {
        for c in 1..=3usize {
            sizes.push((r, c));
        }
    }
    sizes.push((4, 4));
    let mut k = 0usize;
    for (r, c) in sizes {
        let s0 = Size { r, c };
        let mut bases: Vec<GOp> = vec![
            GOp::MapMut(1000),
            GOp::MapMutWithIndex(100),
            GOp::Map(2000),
            GOp::MapWithIndex(300),
        ];
        for n in [c.saturating_sub(1), c, c + 2] {
            bases.push(GOp::InsertRowWith(r, fresh(&mut counter, n)));
        }
        for n in [r.saturating_sub(1), r, r + 2] {
            bases.push(GOp::InsertColumnWith(0, fresh(&mut counter, n)));
        }
        bases.push(GOp::InsertRowWith(r + 1, fresh(&mut counter, c)));
        for base in bases {
            let calls = base.user_calls(s0);
            for j in 0..=calls + 1 {
                k += 1;
                let l = start_line(g, r, c, k % 3);
                g.op(l);
                let op = GOp::Panicking(Box::new(base.clone()), j);
                count_op(g, &op, s0, "upanic");
                g.count(&format!(
                    "upanic.{}.{}",
                    base.name(),
                    if j < calls { "user_code_panics" } else { "user_code_survives" }
                ));
                g.op(op.line());
                let mut s = op.after(s0);
                if matches!(base, GOp::MapMut(_) | GOp::MapMutWithIndex(_)) {
                    // which cells a panicking in-place map got to is not the property's business
                    g.op(GOp::Resync(3000 + j as u64, None).line());
                }
                // the same operation again without the panic, then resizing of the survivor
                g.op(base.line());
                s = base.after(s);
                for follow in [GOp::TransposeMut, GOp::RemoveRow(0), GOp::InsertColumn(0, 9)] {
                    g.op(follow.line());
                    s = follow.after(s);
                }
                let op = random_op(g, s, &mut counter);
                g.op(op.line());
            }
        }
    }
}

/// the same operation with every inserted value replaced by `v` (degenerate data)
fn with_values(op: &GOp, v: u64) -> GOp {
    match op {
        GOp::InsertRow(p, _) => GOp::InsertRow(*p, v),
        GOp::InsertRowWith(p, vs) => GOp::InsertRowWith(*p, vec![v; vs.len()]),
        GOp::InsertColumn(p, _) => GOp::InsertColumn(*p, v),
        GOp::InsertColumnWith(p, vs) => GOp::InsertColumnWith(*p, vec![v; vs.len()]),
        GOp::Set(r, c, _, via) => GOp::Set(*r, *c, v, *via),
        GOp::Panicking(op, j) => GOp::Panicking(Box::new(with_values(op, v)), *j),
        GOp::Resync(b, _) => GOp::Resync(*b, Some(v)),
        other => other.clone(),
    }
}

fn flat_line(r: usize, c: usize, f: impl Fn(usize, usize) -> u64) -> String {
    let vals: Vec<String> = (0..r * c).map(|k| f(k / c, k % c).to_string()).collect();
    format!("@ flat {} {} {}", r, c, vals.join(","))
}

/// Degenerate data: the same operation script is run on a matrix of distinct elements with
/// distinct inserted values (where a misplaced row or column shows by value) and on matrices
/// whose elements are all zero / all equal to the inserted value / made of equal rows / of equal
/// columns / alternating, with all inserted values equal — there only the sizes, the storage
/// length and the pattern of the elements can differ, and changes keyed on an element being
/// zero, equal to its neighbour or equal to the inserted value fire.
fn gen_degenerate(g: &mut Gen) {
    let scripts = if g.thorough { 120 } else { 36 };
    for i in 0..scripts {
        let r = g.rng.range(1, 4);
        let c = g.rng.range(1, 4);
        let s0 = Size { r, c };
        // one script of positions / shapes, generated once
        let mut counter = 50u64;
        let mut s = s0;
        let mut script: Vec<GOp> = vec![];
        let len = g.rng.range(4, 14);
        for _ in 0..len {
            let op = if g.rng.chance(1, 8) {
                let base = match g.rng.below(4) {
                    0 => GOp::MapMut(0),
                    1 => GOp::MapMutWithIndex(0),
                    2 => GOp::InsertRowWith(g.rng.below(s.r + 1), fresh(&mut counter, s.c)),
                    _ => GOp::InsertColumnWith(g.rng.below(s.c + 1), fresh(&mut counter, s.r)),
                };
                let calls = base.user_calls(s);
                GOp::Panicking(Box::new(base), g.rng.below(calls + 2))
            } else {
                random_op(g, s, &mut counter)
            };
            s = op.after(s);
            if let GOp::Panicking(inner, _) = &op {
                if matches!(**inner, GOp::MapMut(_) | GOp::MapMutWithIndex(_)) {
                    script.push(op.clone());
                    script.push(GOp::Resync(6000, None));
                    continue;
                }
            }
            // sometimes the same operation twice
            if g.rng.chance(1, 5) {
                script.push(op.clone());
                s = op.after(s);
                g.count("degenerate.same_operation_twice");
            }
            script.push(op);
        }
        let starts: Vec<(&str, String, Option<u64>)> = vec![
            ("distinct", format!("@ new {}x{} via=flat", r, c), None),
            ("all_zero", flat_line(r, c, |_, _| 0), Some(0)),
            ("all_equal_to_inserted", flat_line(r, c, |_, _| 7), Some(7)),
            ("zero_with_inserted_nonzero", format!("@ empty {} {} 0", r, c), Some(7)),
            ("equal_rows", flat_line(r, c, |_, j| j as u64 + 1), Some(1)),
            ("equal_columns", flat_line(r, c, |i, _| i as u64 + 1), Some(1)),
            ("alternating", flat_line(r, c, |i, j| ((i + j) % 2) as u64), Some(i as u64 % 2)),
        ];
        for (name, start, value) in starts {
            g.op(start);
            g.count(&format!("degenerate.start.{}", name));
            let mut s = s0;
            for op in &script {
                let op = match value {
                    Some(v) => with_values(op, v),
                    None => op.clone(),
                };
                count_op(g, &op, s, "degen");
                g.op(op.line());
                s = op.after(s);
            }
            getter_lines(g, s, true);
            eq_lines(g, s, value.unwrap_or(1));
        }
    }
}

/// Arguments that must change nothing, and operations that undo each other, on matrices with
/// known contents (elements 1..=R*C): retain-all, the identity maps, writing the value that is
/// there, remove-then-reinsert of the same row / column, insert-then-remove, double transposition.
fn gen_noops(g: &mut Gen) {
    for r in 1..=4usize {
        for c in 1..=4usize {
            let elem = |i: usize, j: usize| (i * c + j + 1) as u64;
            let mut k = r * 7 + c;
            let mut case = |g: &mut Gen, lines: Vec<String>| {
                k += 1;
                let l = start_line(g, r, c, k % 3);
                g.op(l);
                g.count("noop.case");
                for l in lines {
                    g.op(l);
                }
                // the matrix must be what it was: probed by a last operation that shows everything
                g.op("map_mut 0".to_string());
            };
            case(g, vec![
                "retain_mut rows=all cols=all".into(),
                format!("retain rows=range(0,{}) cols=not(none)", r),
                "retain_mut rows=or(all,none) cols=and(all,all)".into(),
                "map_mut 0".into(),
                "map_mut_with_index 0".into(),
                "map 0".into(),
                "map_with_index 0".into(),
            ]);
            case(g, vec!["transpose_mut".into(), "transpose_mut".into(), "transpose".into(), "transpose".into(),
                "transpose".into(), "transpose_mut".into()]);
            for i in 0..r {
                for j in 0..c {
                    if (i + j) % 2 == 0 {
                        case(g, vec![format!("set {} {} {} via=set", i, j, elem(i, j)),
                            format!("set {} {} {} via=get_reference_mut", i, j, elem(i, j))]);
                    }
                }
            }
            for i in 0..r {
                let row: Vec<u64> = (0..c).map(|j| elem(i, j)).collect();
                // remove then re-insert the same row (needs two rows), insert then remove
                case(g, vec![
                    format!("remove_row {}", i),
                    format!("insert_row_with {} {} via={}", i, show_vals(&row), iter_kind_for(i, &row)),
                    format!("insert_row {} 77", i),
                    format!("remove_row {}", i),
                ]);
            }
            for j in 0..c {
                let col: Vec<u64> = (0..r).map(|i| elem(i, j)).collect();
                case(g, vec![
                    format!("remove_column {}", j),
                    format!("insert_column_with {} {} via={}", j, show_vals(&col), iter_kind_for(j, &col)),
                    format!("insert_column {} 77", j),
                    format!("remove_column {}", j),
                ]);
            }
        }
    }
}

/// (a) Allocation history.  Every resizing operation at every index on the same matrix reached
/// with different allocation histories: an exactly fitting Vec, a Vec built with spare capacity
/// (`cap=`, through from_flat_row_major / row / column), and storage left over-allocated by
/// remove_row, remove_column and retain_mut.  The model knows nothing about capacity: all routes
/// must give its one answer.  Operations are applied directly (a clone would re-allocate).
fn gen_capacity(g: &mut Gen) {
    let mut counter = 50u64;
    for r in 1..=3usize {
        for c in 1..=3usize {
            let s0 = Size { r, c };
            let vals = seq(r * c);
            // the ways to arrive at the matrix 1..=r*c of size r x c
            let mut routes: Vec<(&str, Vec<String>)> = vec![
                ("exact", vec![format!("@ flat {} {} {}", r, c, vals)]),
                ("cap1", vec![format!("@ flat {} {} {} cap=1", r, c, vals)]),
                ("cap_many", vec![format!("@ flat {} {} {} cap={}", r, c, vals, 2 * (r + c) + 3)]),
            ];
            if r == 1 {
                routes.push(("row_cap", vec![format!("@ row {} cap={}", vals, c + 2)]));
            }
            if c == 1 {
                routes.push(("column_cap", vec![format!("@ column {} cap={}", vals, r + 2)]));
            }
            // (r+1) x c with a junk last row, removed
            let mut bigger: Vec<u64> = (1..=(r * c) as u64).collect();
            bigger.extend(std::iter::repeat(99).take(c));
            routes.push((
                "after_remove_row",
                vec![format!("@ flat {} {} {}", r + 1, c, show_vals(&bigger)), format!("remove_row {}", r)],
            ));
            // r x (c+1) with a junk last column, removed
            let wide: Vec<u64> = (0..r)
                .flat_map(|i| (0..=c).map(move |j| if j == c { 99 } else { (i * c + j + 1) as u64 }))
                .collect();
            routes.push((
                "after_remove_column",
                vec![format!("@ flat {} {} {}", r, c + 1, show_vals(&wide)), format!("remove_column {}", c)],
            ));
            // (r+1) x (c+1), retained
            let both: Vec<u64> = (0..=r)
                .flat_map(|i| (0..=c).map(move |j| if j == c || i == r { 99 } else { (i * c + j + 1) as u64 }))
                .collect();
            routes.push((
                "after_retain_mut",
                vec![
                    format!("@ flat {} {} {}", r + 1, c + 1, show_vals(&both)),
                    format!("retain_mut rows=range(0,{}) cols=not(single({}))", r, c),
                ],
            ));
            // the resizing operations at every index
            let mut ops: Vec<GOp> = vec![];
            for p in 0..=r + 1 {
                ops.push(GOp::InsertRow(p, fresh(&mut counter, 1)[0]));
                ops.push(GOp::InsertRowWith(p, fresh(&mut counter, c)));
                ops.push(GOp::RemoveRow(p));
            }
            for p in 0..=c + 1 {
                ops.push(GOp::InsertColumn(p, fresh(&mut counter, 1)[0]));
                ops.push(GOp::InsertColumnWith(p, fresh(&mut counter, r)));
                ops.push(GOp::RemoveColumn(p));
            }
            ops.push(GOp::InsertRowWith(0, fresh(&mut counter, c + 2)));
            ops.push(GOp::InsertColumnWith(c, fresh(&mut counter, r.saturating_sub(1))));
            ops.push(GOp::Retain(true, Sl::Not(Box::new(Sl::Single(0))), Sl::All));
            ops.push(GOp::Retain(true, Sl::All, Sl::Range(0, 1)));
            ops.push(GOp::TransposeMut);
            ops.push(GOp::MapMutWithIndex(100));
            for op in &ops {
                for (name, start) in &routes {
                    for l in start {
                        g.op(l.clone());
                    }
                    g.count(&format!("capacity.route.{}", name));
                    count_op(g, op, s0, "capacity");
                    g.op(op.line());
                    let mut s = op.after(s0);
                    // grow twice more (past any spare capacity), then shrink
                    for follow in [
                        GOp::InsertRow(s.r, fresh(&mut counter, 1)[0]),
                        GOp::InsertColumnWith(0, fresh(&mut counter, s.r + 1)),
                        GOp::RemoveRow(0),
                    ] {
                        g.op(follow.line());
                        s = follow.after(s);
                    }
                }
            }
        }
    }
}

/// (b) Shared supply: one iterator lent to a sequence of `_with` insertions (row-then-column,
/// column-then-row, row-row, column-column, three steps), with exactly enough, one too few, one
/// too many, plenty and no values, through every iterator kind; what the iterator yields
/// afterwards is observed ("consumed from the front, exactly as many as used").
fn gen_shared_supply(g: &mut Gen) {
    let mut counter = 50u64;
    let mut k = 0usize;
    for r in 1..=3usize {
        for c in 1..=3usize {
            let patterns: Vec<Vec<bool>> = vec![
                vec![true, false],
                vec![false, true],
                vec![true, true],
                vec![false, false],
                vec![true, false, true],
                vec![false, true, false],
            ];
            for pattern in patterns {
                // the values needed if every step succeeds, and the positions (last, first, …)
                let mut s = Size { r, c };
                let mut need = 0usize;
                let mut steps: Vec<String> = vec![];
                for (i, is_row) in pattern.iter().enumerate() {
                    if *is_row {
                        need += s.c;
                        steps.push(format!("row:{}", if i % 2 == 0 { s.r } else { 0 }));
                        s = Size { r: s.r + 1, c: s.c };
                    } else {
                        need += s.r;
                        steps.push(format!("col:{}", if i % 2 == 0 { 0 } else { s.c }));
                        s = Size { r: s.r, c: s.c + 1 };
                    }
                }
                for n in [need, need - 1, need + 1, need + 4, 0, need / 2] {
                    k += 1;
                    let kind = ITER_KINDS[k % ITER_KINDS.len()];
                    let l = start_line(g, r, c, k % 3);
                    g.op(l);
                    let vs = fresh(&mut counter, n);
                    g.op(format!("shared {} via={} {}", show_vals(&vs), kind, steps.join(" ")));
                    g.count(&format!(
                        "shared.{}.{}",
                        pattern.iter().map(|b| if *b { "r" } else { "c" }).collect::<String>(),
                        if n >= need { if n == need { "exact" } else { "surplus" } } else { "short" }
                    ));
                    g.count(&format!("shared.kind.{}", kind));
                    // an invalid position in the middle must not consume anything
                    if n == need + 4 {
                        g.op(format!(
                            "shared {} via={} row:99 col:0 col:99 row:0",
                            show_vals(&fresh(&mut counter, 12)),
                            kind
                        ));
                        g.count("shared.invalid_position_between");
                    }
                    g.op("transpose_mut".to_string());
                    g.op("remove_row 0".to_string());
                }
            }
        }
    }
}

/// (c) The slice algebra: reversed, empty, out-of-range and overlapping ranges under
/// not / and / or to depth 3; `accepts` point by point against the set semantics, `Slice2D` on a
/// grid, and the same slices as retentions.
fn gen_slice_algebra(g: &mut Gen) {
    let atoms: Vec<Sl> = vec![
        Sl::All,
        Sl::None,
        Sl::Single(0),
        Sl::Single(2),
        Sl::Single(7),
        Sl::Range(0, 2),
        Sl::Range(1, 3),
        Sl::Range(2, 2),
        Sl::Range(3, 1),
        Sl::Range(2, 0),
        Sl::Range(5, 9),
        Sl::Range(1, usize::MAX),
        Sl::Range(usize::MAX, 0),
    ];
    let mut level1: Vec<Sl> = vec![];
    for a in &atoms {
        level1.push(Sl::Not(Box::new(a.clone())));
        for b in &atoms {
            level1.push(Sl::And(Box::new(a.clone()), Box::new(b.clone())));
            level1.push(Sl::Or(Box::new(a.clone()), Box::new(b.clone())));
        }
    }
    let mut all: Vec<Sl> = atoms.clone();
    all.extend(level1.iter().cloned());
    // depth 2 and 3: sampled combinations of lower levels
    let deeper = if g.thorough { 4000 } else { 500 };
    let mut level2: Vec<Sl> = vec![];
    for i in 0..deeper {
        let pool: &Vec<Sl> = if i % 2 == 0 || level2.is_empty() { &level1 } else { &level2 };
        let a = pool[g.rng.below(pool.len())].clone();
        let b = if g.rng.chance(1, 2) { atoms[g.rng.below(atoms.len())].clone() } else { level1[g.rng.below(level1.len())].clone() };
        let sl = match g.rng.below(3) {
            0 => Sl::Not(Box::new(a)),
            1 => Sl::And(Box::new(a), Box::new(b)),
            _ => Sl::Or(Box::new(b), Box::new(a)),
        };
        level2.push(sl.clone());
        all.push(sl);
    }
    fn depth(s: &Sl) -> usize {
        match s {
            Sl::Not(a) => 1 + depth(a),
            Sl::And(a, b) | Sl::Or(a, b) => 1 + depth(a).max(depth(b)),
            _ => 0,
        }
    }
    g.op("@ new 4x4 via=flat".to_string());
    for (i, sl) in all.iter().enumerate() {
        g.count(&format!("slice.depth={}", depth(sl).min(4)));
        g.op(format!("accepts {} 6", sl.show()));
        if i % 3 == 0 {
            let other = &all[(i * 7 + 3) % all.len()];
            g.op(format!("accepts2d rows={} cols={} 4 5", sl.show(), other.show()));
            g.count("slice.accepts2d");
        }
        // as a retention of the rows and of the columns of the 4x4 matrix (on a clone)
        if i % 2 == 0 {
            g.op(format!("try retain_mut rows={} cols=all", sl.show()));
        } else {
            g.op(format!("try retain rows=not(single(3)) cols={}", sl.show()));
        }
        g.count("slice.as_retention");
    }
}

/// The iterator entry points of `Matrix` (`api iter <name> [index]`).
const ITER_ENTRY_POINTS: [(&str, bool); 20] = [
    ("row_major_iter", false),
    ("row_major_iter.with_index", false),
    ("row_major_reference_iter", false),
    ("row_major_reference_iter.with_index", false),
    ("row_major_reference_mut_iter", false),
    ("row_major_owned_iter", false),
    ("column_major_iter", false),
    ("column_major_iter.with_index", false),
    ("column_major_reference_iter", false),
    ("column_major_reference_mut_iter", false),
    ("column_major_owned_iter", false),
    ("diagonal_iter", false),
    ("diagonal_reference_iter", false),
    ("diagonal_reference_mut_iter", false),
    ("row_iter", true),
    ("row_reference_iter", true),
    ("row_reference_mut_iter", true),
    ("column_iter", true),
    ("column_reference_iter", true),
    ("column_reference_mut_iter", true),
];

/// The API surface: every public method and trait impl of `Matrix` in C11's scope, driven on a
/// NON-SQUARE matrix, at row / column indexes >= 1, after a history (cases tagged `tag=api`;
/// props/c11_extra.py checks the table props/c11_api_surface.json against a scan of the source
/// and against these lines).
fn gen_api_surface(g: &mut Gen) {
    let mut counter = 50u64;
    let mut k = 0usize;
    // square starts (the only sizes `from_scalar`, `unit`, `diagonal`, `from_diagonal` can build)
    // become non-square through the history below
    for (r, c) in [(2usize, 3usize), (3, 2), (1, 4), (4, 1), (2, 5), (1, 1), (3, 3)] {
        for start in start_lines(r, c) {
            k += 1;
            g.op(format!("{} tag=api", start.0));
            g.count("api.case");
            let mut s = Size { r, c };
            // a history first: grow, shrink, retain, transpose, write
            let history = vec![
                GOp::InsertRowWith(1.min(s.r), fresh(&mut counter, s.c)),
                GOp::InsertColumn(s.c, fresh(&mut counter, 1)[0]),
                GOp::RemoveColumn(0),
                GOp::Retain(k % 2 == 0, Sl::All, Sl::All),
                GOp::TransposeMut,
                GOp::Transpose,
                GOp::Set(1, s.c - 1, fresh(&mut counter, 1)[0], k % 2 == 0),
                GOp::MapMut(1000),
                GOp::InsertRow(s.r + 1, fresh(&mut counter, 1)[0]),
            ];
            for op in history {
                g.op(op.line());
                s = op.after(s);
            }
            // now every method / impl, at indexes >= 1 (the matrix is (r+2) x c here: non-square)
            let (lr, lc) = (s.r - 1, s.c - 1);
            g.op("accepts and(not(single(1)),or(range(1,3),single(0))) 6".to_string());
            g.op(format!("accepts2d rows=not(single(0)) cols=or(single(1),range(2,9)) {} {}", s.r, s.c));
            g.op("api display".to_string());
            g.op("api clone_from".to_string());
            g.op("api into_tensor row column".to_string());
            g.op("api into_tensor x x".to_string());
            for (i, j) in [(1, lc), (lr, 0), (lr, lc), (s.r, 0), (1, s.c), (lc.max(1), lr)] {
                g.op(format!("api matrix_ref {} {}", i, j));
            }
            for (name, indexed) in ITER_ENTRY_POINTS {
                if indexed {
                    let n = if name.starts_with("row_") { s.r } else { s.c };
                    for idx in [1.min(n - 1), n - 1, n] {
                        g.op(format!("api iter {} {}", name, idx));
                    }
                } else {
                    g.op(format!("api iter {}", name));
                }
                g.count(&format!("api.iter.{}", name));
            }
            getter_lines(g, s, true);
            g.op("scalar".to_string());
            g.op("try_into_scalar".to_string());
            eq_lines(g, s, 7);
            for (via, i, j) in [("trait", 1, lc), ("box_dyn", lr, 1.min(lc)), ("trait", s.r, 0), ("box_dyn", 1, s.c)] {
                g.op(format!("try_set {} {} {} via={}", i, j, fresh(&mut counter, 1)[0], via));
            }
            g.op(format!("set {} {} {} via=set", lr, lc, fresh(&mut counter, 1)[0]));
            g.op(format!("set 1 {} {} via=get_reference_mut", lc, fresh(&mut counter, 1)[0]));
            // every mutating method once more at a row / column index >= 1 on this non-square matrix
            let tail = vec![
                GOp::InsertRow(1, fresh(&mut counter, 1)[0]),
                GOp::InsertRowWith(s.r, fresh(&mut counter, s.c)),
                GOp::InsertColumn(1.min(s.c), fresh(&mut counter, 1)[0]),
                GOp::InsertColumnWith(s.c + 1, fresh(&mut counter, s.r + 2)),
                GOp::RemoveRow(1),
                GOp::RemoveColumn(1),
                GOp::MapMutWithIndex(100),
                GOp::Map(2000),
                GOp::MapWithIndex(300),
                GOp::Retain(true, Sl::Not(Box::new(Sl::Single(0))), Sl::Range(1, 9)),
                GOp::Retain(false, Sl::Range(1, 9), Sl::All),
            ];
            for op in tail {
                g.op(op.line());
                s = op.after(s);
            }
            g.op("api display".to_string());
            g.op("api iter column_major_owned_iter".to_string());
        }
    }
}

pub fn gen(g: &mut Gen) {
    gen_api_surface(g);
    gen_capacity(g);
    gen_shared_supply(g);
    gen_slice_algebra(g);
    gen_panicking_user_code(g);
    gen_degenerate(g);
    gen_noops(g);
    gen_iterator_kinds(g);
    gen_large(g);
    gen_constructor_table(g);
    gen_constructors(g);
    gen_exhaustive(g);
    gen_random(g);
}

// ---------------------------------------------------------------------------------------------
// running against easy-ml
// ---------------------------------------------------------------------------------------------

pub struct Runner {
    m: Option<Matrix<u64>>,
}

fn parse_vals(s: &str) -> Vec<u64> {
    split_comma(s).iter().map(|t| t.parse::<u64>().expect("u64")).collect()
}

/// the values in a `Vec` with `cap=<k>` spare capacity (exactly fitting when absent): the
/// allocation history the model knows nothing about
fn vals_with_capacity(s: &str, toks: &[&str]) -> Vec<u64> {
    let vals = parse_vals(s);
    match opt_arg("cap", toks) {
        Some(k) => {
            let k: usize = k.parse().expect("cap");
            let mut v = Vec::with_capacity(vals.len() + k);
            v.extend_from_slice(&vals);
            v
        }
        None => {
            let mut v = vals;
            v.shrink_to_fit();
            v
        }
    }
}

/// `data.len()`, read off the `Debug` output (`Matrix { data: [..], rows: .., columns: .. }`)
fn storage_len(m: &Matrix<u64>) -> usize {
    let text = format!("{:?}", m);
    let start = text.find("data: [").expect("Debug output") + "data: [".len();
    let end = start + text[start..].find(']').expect("Debug output");
    let inner = text[start..end].trim();
    if inner.is_empty() {
        0
    } else {
        inner.split(',').count()
    }
}

/// size, every element through `get`, both copying iterators; `## len=`
fn observe(m: &Matrix<u64>) -> (String, usize) {
    let (rows, cols) = m.size();
    // `rows()` / `columns()` must agree with `size()`
    let size_ok = m.rows() == rows && m.columns() == cols;
    let len = storage_len(m);
    let mut row_strs = vec![];
    for r in 0..rows {
        let mut cells = vec![];
        for c in 0..cols {
            cells.push(match catch(|| m.get(r, c)) {
                // `get_reference` must give the same element as `get`
                Ok(v) => match catch(|| *m.get_reference(r, c)) {
                    Ok(w) if w == v => v.to_string(),
                    Ok(w) => format!("!get={}/get_reference={}", v, w),
                    Err(k) => format!("!get_reference-{}", k.as_str()),
                },
                Err(k) => format!("!{}", k.as_str()),
            });
        }
        row_strs.push(if cells.is_empty() { "-".to_string() } else { cells.join(",") });
    }
    // The iterators use unchecked accesses sized by `rows`/`columns`: walking them on a matrix
    // whose storage is shorter than rows*columns would be undefined behaviour in this process.
    // Such a state is a violation already visible in the elements above.
    let safe = rows.checked_mul(cols).map(|n| n <= len).unwrap_or(false);
    let iter_str = |row_major: bool| -> String {
        if !safe {
            return "!storage-too-short".to_string();
        }
        match catch(|| {
            if row_major {
                m.row_major_iter().collect::<Vec<u64>>()
            } else {
                m.column_major_iter().collect::<Vec<u64>>()
            }
        }) {
            Ok(v) => show_vals(&v),
            Err(k) => format!("!{}", k.as_str()),
        }
    };
    (
        format!(
            "{}x{}{} {} rm={} cm={}",
            rows,
            cols,
            if size_ok { "" } else { "!rows()/columns()-disagree" },
            row_strs.join(";"),
            iter_str(true),
            iter_str(false)
        ),
        len,
    )
}

fn answer(outcome: Result<(), PanicKind>, m: &Matrix<u64>) -> String {
    let (obs, len) = observe(m);
    match outcome {
        Ok(()) => format!("ok {} ## len={}", obs, len),
        Err(k) => format!("panic {} ## len={} kind={}", obs, len, k.as_str()),
    }
}

/// Counts the calls of a user closure (`impl Fn`, hence the `Cell`) and panics on call `at`.
struct CallCounter {
    calls: std::cell::Cell<usize>,
    at: usize,
}

impl CallCounter {
    fn new(at: usize) -> CallCounter {
        CallCounter { calls: std::cell::Cell::new(0), at }
    }
    fn tick(&self) {
        let c = self.calls.get();
        self.calls.set(c + 1);
        if c == self.at {
            panic!("the user closure panics on call {}", c);
        }
    }
}

/// An iterator adaptor whose `next` panics on call `at` (0-based); the size hint is the inner one.
struct PanicAt<I> {
    inner: I,
    calls: usize,
    at: usize,
}

impl<I: Iterator<Item = u64>> Iterator for PanicAt<I> {
    type Item = u64;
    fn next(&mut self) -> Option<u64> {
        let c = self.calls;
        self.calls += 1;
        if c == self.at {
            panic!("the user iterator panics on call {} of next", c);
        }
        self.inner.next()
    }
    fn size_hint(&self) -> (usize, Option<usize>) {
        self.inner.size_hint()
    }
}

/// A value that is never a matrix element: the junk the inexact iterators skip or stop at.
const JUNK: u64 = u64::MAX;

/// An iterator whose `size_hint` claims more elements than it yields (a lower bound that lies)
/// and no upper bound; `Iterator` implementations are allowed to be wrong about their hint, the
/// documented precondition of the `_with` forms is about the elements actually supplied.
struct LyingLow {
    inner: std::vec::IntoIter<u64>,
}

impl Iterator for LyingLow {
    type Item = u64;
    fn next(&mut self) -> Option<u64> {
        self.inner.next()
    }
    fn size_hint(&self) -> (usize, Option<usize>) {
        (self.inner.len() + 5, None)
    }
}

/// Runs `$body` with `$it` bound to an iterator of kind `$kind` yielding exactly the values
/// `$vs` in order; every kind is its own iterator type (own instantiation of the generic
/// method) with its own `size_hint` behaviour.
macro_rules! with_values_iter {
    ($kind:expr, $vs:expr, |$it:ident| $body:expr) => {{
        let vs: Vec<u64> = $vs;
        let n = vs.len();
        match $kind {
            "cloned" => {
                let $it = vs.iter().cloned();
                $body
            }
            "range_map" => {
                let $it = (0..n).map(|i| vs[i]);
                $body
            }
            "filter" => {
                let mut pool = vec![JUNK];
                for v in &vs {
                    pool.push(*v);
                    pool.push(JUNK);
                }
                let $it = pool.into_iter().filter(|x| *x != JUNK);
                $body
            }
            "take_while" => {
                let mut pool = vs.clone();
                pool.extend_from_slice(&[JUNK, 7, 7, 7]);
                let $it = pool.into_iter().take_while(|x| *x != JUNK);
                $body
            }
            "skip_while" => {
                let mut pool = vec![JUNK, JUNK];
                pool.extend_from_slice(&vs);
                let $it = pool.into_iter().skip_while(|x| *x == JUNK);
                $body
            }
            "from_fn" => {
                let mut queue: std::collections::VecDeque<u64> = vs.iter().cloned().collect();
                let $it = std::iter::from_fn(move || queue.pop_front());
                $body
            }
            "chain" => {
                let (a, b) = vs.split_at(n / 2);
                let mut pool = vec![];
                for v in a {
                    pool.push(JUNK);
                    pool.push(*v);
                }
                let mut queue: std::collections::VecDeque<u64> = b.iter().cloned().collect();
                let $it = pool
                    .into_iter()
                    .filter(|x| *x != JUNK)
                    .chain(std::iter::from_fn(move || queue.pop_front()));
                $body
            }
            "flat_map" => {
                let mut pool = vec![];
                for v in &vs {
                    pool.push(Some(*v));
                    pool.push(None);
                }
                let $it = pool.into_iter().flat_map(|x| x);
                $body
            }
            "lying_low" => {
                let $it = LyingLow { inner: vs.into_iter() };
                $body
            }
            "dyn" => {
                let mut pool = vec![JUNK];
                for v in &vs {
                    pool.push(*v);
                    pool.push(JUNK);
                }
                let mut filtered = pool.into_iter().filter(|x| *x != JUNK);
                let $it: &mut dyn Iterator<Item = u64> = &mut filtered;
                $body
            }
            _ => {
                let $it = vs.into_iter();
                $body
            }
        }
    }};
}

/// Applies one operation line to `m` (allocating operations replace `*m` by their result).
pub(crate) fn apply(m: &mut Matrix<u64>, toks: &[&str]) -> Option<Result<(), PanicKind>> {
    let us = |i: usize| toks[i].parse::<usize>().expect("usize");
    let val = |i: usize| toks[i].parse::<u64>().expect("u64");
    // `panic_at=<j>`: the user code of this operation (closure / iterator `next`) panics on its
    // j-th call (0-based); never when absent
    let panic_at: usize = opt_arg("panic_at", toks).map(|t| t.parse().expect("panic_at")).unwrap_or(usize::MAX);
    Some(match toks[0] {
        "insert_row" => {
            let (p, v) = (us(1), val(2));
            catch(|| m.insert_row(p, v))
        }
        "insert_row_with" => {
            let (p, vs) = (us(1), parse_vals(toks[2]));
            let kind = opt_arg("via", toks).unwrap_or("vec");
            with_values_iter!(kind, vs, |it| {
                let it = PanicAt { inner: it, calls: 0, at: panic_at };
                catch(|| m.insert_row_with(p, it))
            })
        }
        "insert_column" => {
            let (p, v) = (us(1), val(2));
            catch(|| m.insert_column(p, v))
        }
        "insert_column_with" => {
            let (p, vs) = (us(1), parse_vals(toks[2]));
            let kind = opt_arg("via", toks).unwrap_or("vec");
            with_values_iter!(kind, vs, |it| {
                let it = PanicAt { inner: it, calls: 0, at: panic_at };
                catch(|| m.insert_column_with(p, it))
            })
        }
        "remove_row" => {
            let p = us(1);
            catch(|| m.remove_row(p))
        }
        "remove_column" => {
            let p = us(1);
            catch(|| m.remove_column(p))
        }
        "retain_mut" | "retain" => {
            let rs = parse_slice(opt_arg("rows", toks).expect("rows="));
            let cs = parse_slice(opt_arg("cols", toks).expect("cols="));
            if toks[0] == "retain_mut" {
                // both builder orders
                let slice = match (rs.show().len() + cs.show().len()) % 3 {
                    0 => Slice2D::new().rows(rs.build()).columns(cs.build()),
                    1 => Slice2D::new().columns(cs.build()).rows(rs.build()),
                    _ => slices::new().rows(rs.build()).columns(cs.build()),
                };
                catch(|| m.retain_mut(slice))
            } else {
                let slice = Slice2D::new().rows(rs.build()).columns(cs.build());
                match catch(|| m.retain(slice)) {
                    Ok(r) => {
                        *m = r;
                        Ok(())
                    }
                    Err(k) => Err(k),
                }
            }
        }
        "transpose" => match catch(|| m.transpose()) {
            Ok(t) => {
                *m = t;
                Ok(())
            }
            Err(k) => Err(k),
        },
        "transpose_mut" => catch(|| m.transpose_mut()),
        "set" => {
            let (r, c, v) = (us(1), us(2), val(3));
            if opt_arg("via", toks) == Some("get_reference_mut") {
                catch(|| {
                    *m.get_reference_mut(r, c) = v;
                })
            } else {
                catch(|| m.set(r, c, v))
            }
        }
        "map_mut" => {
            let k = val(1);
            let calls = CallCounter::new(panic_at);
            catch(|| {
                m.map_mut(|x| {
                    calls.tick();
                    x + k
                })
            })
        }
        "map_mut_with_index" => {
            let k = val(1);
            let calls = CallCounter::new(panic_at);
            catch(|| {
                m.map_mut_with_index(|x, i, j| {
                    calls.tick();
                    x + k * (i as u64 + 1) + j as u64
                })
            })
        }
        "renumber" => {
            let b = val(1);
            catch(|| m.map_mut_with_index(|_, i, j| b + 100 * i as u64 + j as u64))
        }
        "fill" => {
            let v = val(1);
            catch(|| m.map_mut(|_| v))
        }
        "map" => {
            let k = val(1);
            let calls = CallCounter::new(panic_at);
            match catch(|| {
                m.map(|x| {
                    calls.tick();
                    x + k
                })
            }) {
                Ok(r) => {
                    *m = r;
                    Ok(())
                }
                Err(e) => Err(e),
            }
        }
        "map_with_index" => {
            let k = val(1);
            let calls = CallCounter::new(panic_at);
            match catch(|| {
                m.map_with_index(|x, i, j| {
                    calls.tick();
                    x + k * (i as u64 + 1) + j as u64
                })
            }) {
                Ok(r) => {
                    *m = r;
                    Ok(())
                }
                Err(e) => Err(e),
            }
        }
        _ => return None,
    })
}

impl Runner {
    pub fn new() -> Runner {
        Runner { m: None }
    }

    fn construct(&mut self, built: Result<Matrix<u64>, PanicKind>) -> String {
        match built {
            Ok(m) => {
                let a = answer(Ok(()), &m);
                self.m = Some(m);
                a
            }
            Err(k) => {
                self.m = None;
                format!("panic ## kind={}", k.as_str())
            }
        }
    }

    pub fn step(&mut self, toks: &[&str]) -> String {
        if toks.is_empty() {
            return "bad-op".into();
        }
        if toks[0] == "@" {
            return match toks[1] {
                "new" => {
                    let (r, c) = toks[2].split_once('x').expect("RxC");
                    let (r, c): (usize, usize) = (r.parse().unwrap(), c.parse().unwrap());
                    let via = opt_arg("via", toks).unwrap_or("from");
                    let built = match via {
                        "from" => catch(|| {
                            Matrix::from(
                                (0..r)
                                    .map(|i| (0..c).map(|j| (i * c + j + 1) as u64).collect::<Vec<u64>>())
                                    .collect::<Vec<Vec<u64>>>(),
                            )
                        }),
                        "flat" => catch(|| {
                            Matrix::from_flat_row_major((r, c), (1..=(r * c) as u64).collect::<Vec<u64>>())
                        }),
                        _ => catch(|| Matrix::from_fn((r, c), |(i, j)| (i * c + j + 1) as u64)),
                    };
                    self.construct(built)
                }
                "from" => {
                    let rows: Vec<Vec<u64>> = if toks[2] == "none" {
                        vec![]
                    } else {
                        toks[2].split(';').map(parse_vals).collect()
                    };
                    self.construct(catch(|| Matrix::from(rows)))
                }
                "flat" => {
                    let (r, c): (usize, usize) = (toks[2].parse().unwrap(), toks[3].parse().unwrap());
                    let vals = vals_with_capacity(toks[4], toks);
                    self.construct(catch(|| Matrix::from_flat_row_major((r, c), vals)))
                }
                "row" => {
                    let vals = vals_with_capacity(toks[2], toks);
                    self.construct(catch(|| Matrix::row(vals)))
                }
                "column" => {
                    let vals = vals_with_capacity(toks[2], toks);
                    self.construct(catch(|| Matrix::column(vals)))
                }
                "scalar" => {
                    let v: u64 = toks[2].parse().unwrap();
                    if opt_arg("via", toks) == Some("unit") {
                        #[allow(deprecated)]
                        self.construct(catch(|| Matrix::unit(v)))
                    } else {
                        self.construct(catch(|| Matrix::from_scalar(v)))
                    }
                }
                "empty" => {
                    let (r, c): (usize, usize) = (toks[2].parse().unwrap(), toks[3].parse().unwrap());
                    let v: u64 = toks[4].parse().unwrap();
                    self.construct(catch(|| Matrix::empty(v, (r, c))))
                }
                "diagonal" => {
                    let (r, c): (usize, usize) = (toks[2].parse().unwrap(), toks[3].parse().unwrap());
                    let v: u64 = toks[4].parse().unwrap();
                    // `diagonal` / `from_diagonal` need `T: Numeric` (a zero), which `u64` is not:
                    // they are built over `i64`; `map` (checked by its own operation, and
                    // panicking on an inconsistent storage) carries the result over to `u64`
                    self.construct(catch(|| Matrix::diagonal(v as i64, (r, c)).map(|x| x as u64)))
                }
                "from_diagonal" => {
                    let vals = parse_vals(toks[2]);
                    let vals: Vec<i64> = vals.into_iter().map(|x| x as i64).collect();
                    self.construct(catch(|| Matrix::from_diagonal(vals).map(|x| x as u64)))
                }
                _ => "bad-op".into(),
            };
        }
        if toks[0] == "accepts" {
            let sl = parse_slice(toks[1]);
            let n: usize = toks[2].parse().expect("n");
            let built = sl.build();
            let set: Vec<u64> = (0..n).filter(|i| built.accepts(*i)).map(|i| i as u64).collect();
            return format!("set={}", show_vals(&set));
        }
        if toks[0] == "accepts2d" {
            let rs = parse_slice(opt_arg("rows", toks).expect("rows="));
            let cs = parse_slice(opt_arg("cols", toks).expect("cols="));
            let r: usize = toks[toks.len() - 2].parse().expect("R");
            let c: usize = toks[toks.len() - 1].parse().expect("C");
            let slice = slices::new().columns(cs.build()).rows(rs.build());
            let grid: Vec<String> = (0..r)
                .map(|i| (0..c).map(|j| if slice.accepts(i, j) { '1' } else { '0' }).collect())
                .collect();
            return format!("grid={}", grid.join(";"));
        }
        let m = match self.m.as_mut() {
            Some(m) => m,
            None => return "no-matrix".into(),
        };
        if toks[0] == "shared" {
            // one iterator lent to a sequence of `_with` insertions, then drained
            let vs = parse_vals(toks[1]);
            let kind = opt_arg("via", toks).unwrap_or("vec");
            let steps: Vec<(bool, usize)> = toks[2..]
                .iter()
                .filter_map(|t| {
                    t.strip_prefix("row:")
                        .map(|p| (true, p.parse::<usize>().expect("row:p")))
                        .or_else(|| t.strip_prefix("col:").map(|p| (false, p.parse::<usize>().expect("col:p"))))
                })
                .collect();
            let (outcomes, rest) = with_values_iter!(kind, vs, |it| {
                let mut it = it;
                let mut outcomes: Vec<bool> = vec![];
                for (k, (is_row, p)) in steps.iter().enumerate() {
                    // lent in both spellings
                    let r = if *is_row {
                        if k % 2 == 0 {
                            catch(|| m.insert_row_with(*p, Iterator::by_ref(&mut it)))
                        } else {
                            catch(|| m.insert_row_with(*p, &mut it))
                        }
                    } else if k % 2 == 0 {
                        catch(|| m.insert_column_with(*p, &mut it))
                    } else {
                        catch(|| m.insert_column_with(*p, Iterator::by_ref(&mut it)))
                    };
                    outcomes.push(r.is_err());
                }
                let rest = catch(|| it.collect::<Vec<u64>>());
                (outcomes, rest)
            });
            let any_panic = outcomes.iter().any(|b| *b);
            let (obs, len) = observe(m);
            let steps_s: Vec<&str> = outcomes.iter().map(|b| if *b { "panic" } else { "ok" }).collect();
            let rest_s = match &rest {
                Ok(v) => show_vals(v),
                Err(k) => format!("!{}", k.as_str()),
            };
            return format!(
                "{} {} steps={} rest={} ## len={} rest={}",
                if any_panic { "panic" } else { "ok" },
                obs,
                steps_s.join(","),
                if any_panic { "?".to_string() } else { rest_s.clone() },
                len,
                rest_s
            );
        }
        if toks[0] == "scalar" && toks.len() == 1 {
            return match catch(|| m.scalar()) {
                Ok(v) => format!("val={}", v),
                Err(k) => format!("panic ## kind={}", k.as_str()),
            };
        }
        if toks[0] == "row_iter" || toks[0] == "column_iter" || toks[0] == "diagonal_iter" {
            let reference = opt_arg("via", toks) == Some("reference_iter");
            let which = toks[0];
            let arg: usize = if which == "diagonal_iter" { 0 } else { toks[1].parse().expect("usize") };
            let m: &Matrix<u64> = m;
            let got = catch(|| -> Vec<u64> {
                match (which, reference) {
                    ("row_iter", false) => m.row_iter(arg).collect(),
                    ("row_iter", true) => m.row_reference_iter(arg).cloned().collect(),
                    ("column_iter", false) => m.column_iter(arg).collect(),
                    ("column_iter", true) => m.column_reference_iter(arg).cloned().collect(),
                    (_, false) => m.diagonal_iter().collect(),
                    (_, true) => m.diagonal_reference_iter().cloned().collect(),
                }
            });
            return match got {
                Ok(v) => format!("vals={}", show_vals(&v)),
                Err(k) => format!("panic ## kind={}", k.as_str()),
            };
        }
        if toks[0] == "try_into_scalar" {
            return match catch(|| m.clone()) {
                Ok(copy) => match catch(|| copy.try_into_scalar()) {
                    Ok(Ok(v)) => format!("ok({})", v),
                    Ok(Err(_)) => "err".to_string(),
                    Err(k) => format!("panic ## kind={}", k.as_str()),
                },
                Err(k) => format!("clone-panicked {}", k.as_str()),
            };
        }
        if toks[0] == "api" {
            let m: &Matrix<u64> = m;
            let usz = |i: usize| toks.get(i).map(|t| t.parse::<usize>().expect("usize")).unwrap_or(0);
            return match toks[1] {
                "display" => {
                    let plain = format!("{}", m);
                    let precise = format!("{:.3}", m);
                    let via_string = m.to_string();
                    if plain != precise || plain != via_string {
                        format!("text=forms-disagree({:?},{:?})", plain, precise)
                    } else {
                        format!("text={}", plain.replace('\n', "|").replace(' ', "_"))
                    }
                }
                "clone_from" => {
                    let mut target = Matrix::from_scalar(0u64);
                    match catch(|| target.clone_from(m)) {
                        Ok(()) => observe(&target).0,
                        Err(k) => format!("panic ## kind={}", k.as_str()),
                    }
                }
                "into_tensor" => {
                    let (rn, cn) = (intern(toks[2]), intern(toks[3]));
                    let a = catch(|| m.clone().into_tensor(rn, cn));
                    let b = catch(|| <easy_ml::tensors::Tensor<u64, 2> as TryFrom<(Matrix<u64>, [&'static str; 2])>>::try_from((m.clone(), [rn, cn])));
                    let show = |t: &Result<Result<easy_ml::tensors::Tensor<u64, 2>, _>, PanicKind>| match t {
                        Ok(Ok(t)) => {
                            let sh = t.shape();
                            let data: Vec<u64> = t.iter().collect();
                            format!("shape={}:{},{}:{} data={}", sh[0].0, sh[0].1, sh[1].0, sh[1].1, show_vals(&data))
                        }
                        Ok(Err(_)) => "err".to_string(),
                        Err(k) => format!("panic({})", k.as_str()),
                    };
                    let (sa, sb) = (show(&a), show(&b));
                    if sa == sb {
                        sa
                    } else {
                        format!("forms-disagree({} / {})", sa, sb)
                    }
                }
                "matrix_ref" => {
                    let (r, c) = (usz(2), usz(3));
                    // the trait methods on Matrix itself, through Box<dyn MatrixRef>, through
                    // Box<dyn MatrixMut>, through a MatrixView
                    fn probe<S: MatrixRef<u64>>(s: &S, r: usize, c: usize) -> String {
                        let got = s.try_get_reference(r, c).copied();
                        let unchecked = if r < s.view_rows() && c < s.view_columns() {
                            Some(unsafe { *s.get_reference_unchecked(r, c) })
                        } else {
                            None
                        };
                        let get = match (got, unchecked) {
                            (Some(a), Some(b)) if a == b => format!("some({})", a),
                            (None, None) => "none".to_string(),
                            other => format!("checked-unchecked-disagree({:?})", other),
                        };
                        let layout = match s.data_layout() {
                            DataLayout::RowMajor => "row_major",
                            DataLayout::ColumnMajor => "column_major",
                            _ => "other",
                        };
                        format!("get={} size={}x{} layout={}", get, s.view_rows(), s.view_columns(), layout)
                    }
                    let direct = probe(m, r, c);
                    let boxed_ref: Box<dyn MatrixRef<u64>> = Box::new(m.clone());
                    let boxed_mut: Box<dyn MatrixMut<u64>> = Box::new(m.clone());
                    let view = MatrixView::from(m);
                    let view_get = match catch(|| view.get(r, c)) {
                        Ok(v) => format!("some({})", v),
                        Err(_) => "none".to_string(),
                    };
                    let others = [probe(&boxed_ref, r, c), probe(&boxed_mut, r, c), probe(&m, r, c)];
                    if others.iter().all(|o| *o == direct) && direct.starts_with(&format!("get={} ", view_get)) {
                        direct
                    } else {
                        format!("routes-disagree({} / {:?} / view={})", direct, others, view_get)
                    }
                }
                "iter" => {
                    let name = toks[2];
                    let idx = usz(3);
                    let mut copy = m.clone();
                    let got = catch(|| -> Vec<u64> {
                        match name {
                            "row_major_iter" => m.row_major_iter().collect(),
                            "row_major_iter.with_index" => m.row_major_iter().with_index().map(|(_, x)| x).collect(),
                            "row_major_reference_iter" => m.row_major_reference_iter().cloned().collect(),
                            "row_major_reference_iter.with_index" => {
                                m.row_major_reference_iter().with_index().map(|(_, x)| *x).collect()
                            }
                            "row_major_reference_mut_iter" => copy.row_major_reference_mut_iter().map(|x| *x).collect(),
                            "row_major_owned_iter" => copy.clone().row_major_owned_iter().collect(),
                            "column_major_iter" => m.column_major_iter().collect(),
                            "column_major_iter.with_index" => {
                                m.column_major_iter().with_index().map(|(_, x)| x).collect()
                            }
                            "column_major_reference_iter" => m.column_major_reference_iter().cloned().collect(),
                            "column_major_reference_mut_iter" => {
                                copy.column_major_reference_mut_iter().map(|x| *x).collect()
                            }
                            "column_major_owned_iter" => copy.clone().column_major_owned_iter().collect(),
                            "diagonal_iter" => m.diagonal_iter().collect(),
                            "diagonal_reference_iter" => m.diagonal_reference_iter().cloned().collect(),
                            "diagonal_reference_mut_iter" => copy.diagonal_reference_mut_iter().map(|x| *x).collect(),
                            "row_iter" => m.row_iter(idx).collect(),
                            "row_reference_iter" => m.row_reference_iter(idx).cloned().collect(),
                            "row_reference_mut_iter" => copy.row_reference_mut_iter(idx).map(|x| *x).collect(),
                            "column_iter" => m.column_iter(idx).collect(),
                            "column_reference_iter" => m.column_reference_iter(idx).cloned().collect(),
                            "column_reference_mut_iter" => copy.column_reference_mut_iter(idx).map(|x| *x).collect(),
                            other => panic!("unknown iterator entry point {}", other),
                        }
                    });
                    // the index reported by with_index must be the position of the element
                    let index_ok = match name {
                        "row_major_iter.with_index" => m
                            .row_major_iter()
                            .with_index()
                            .all(|((i, j), x)| catch(|| m.get(i, j)) == Ok(x)),
                        "column_major_iter.with_index" => m
                            .column_major_iter()
                            .with_index()
                            .all(|((i, j), x)| catch(|| m.get(i, j)) == Ok(x)),
                        "row_major_reference_iter.with_index" => m
                            .row_major_reference_iter()
                            .with_index()
                            .all(|((i, j), x)| catch(|| m.get(i, j)) == Ok(*x)),
                        _ => true,
                    };
                    match got {
                        Ok(v) if index_ok => format!("vals={}", show_vals(&v)),
                        Ok(v) => format!("vals={} index-wrong", show_vals(&v)),
                        Err(k) => format!("panic ## kind={}", k.as_str()),
                    }
                }
                _ => "bad-op".into(),
            };
        }
        if toks[0] == "try_set" {
            let (r, c): (usize, usize) = (toks[1].parse().unwrap(), toks[2].parse().unwrap());
            let v: u64 = toks[3].parse().unwrap();
            let wrote = if opt_arg("via", toks) == Some("box_dyn") {
                // through Box<dyn MatrixMut>: the matrix is moved into the box and back out of a view
                let owned = std::mem::replace(m, Matrix::from_scalar(0));
                let mut boxed: Box<dyn MatrixMut<u64>> = Box::new(owned);
                let wrote = match boxed.try_get_reference_mut(r, c) {
                    Some(cell) => {
                        *cell = v;
                        true
                    }
                    None => false,
                };
                // read everything back through the erased trait object
                let (rows, cols) = (boxed.view_rows(), boxed.view_columns());
                let data: Vec<u64> = (0..rows)
                    .flat_map(|i| (0..cols).map(move |j| (i, j)))
                    .map(|(i, j)| *boxed.try_get_reference(i, j).expect("in range"))
                    .collect();
                *m = Matrix::from_flat_row_major((rows, cols), data);
                wrote
            } else {
                match MatrixMut::try_get_reference_mut(m, r, c) {
                    Some(cell) => {
                        *cell = v;
                        true
                    }
                    None => false,
                }
            };
            return format!("{} {}", if wrote { "some" } else { "none" }, answer(Ok(()), m));
        }
        if toks[0] == "eq_after" {
            let mut copy = match catch(|| m.clone()) {
                Ok(c) => c,
                Err(k) => return format!("clone-panicked {}", k.as_str()),
            };
            return match apply(&mut copy, &toks[1..]) {
                Some(_) => {
                    // Matrix == Matrix (both ways), Matrix == MatrixView, MatrixView == Matrix,
                    // MatrixView == MatrixView, and `!=`
                    let m: &Matrix<u64> = m;
                    let forms = [
                        *m == copy,
                        copy == *m,
                        *m == MatrixView::from(&copy),
                        MatrixView::from(&copy) == *m,
                        MatrixView::from(m) == MatrixView::from(&copy),
                        !(*m != copy),
                    ];
                    if forms.iter().all(|f| *f == forms[0]) {
                        format!("eq={}", forms[0])
                    } else {
                        format!("eq=forms-disagree({:?})", forms)
                    }
                }
                None => "bad-op".into(),
            };
        }
        // an in-place map whose closure may panic: the property only demands that the survivor
        // keeps its size, a consistent storage, and old-or-mapped cells; the pattern is aux
        let inner: &[&str] = if toks[0] == "try" { &toks[1..] } else { toks };
        if (inner[0] == "map_mut" || inner[0] == "map_mut_with_index") && opt_arg("panic_at", inner).is_some() {
            let k: u64 = inner[1].parse().expect("u64");
            let with_index = inner[0] == "map_mut_with_index";
            let (rows, cols) = m.size();
            let old: Vec<Vec<Option<u64>>> =
                (0..rows).map(|i| (0..cols).map(|j| catch(|| m.get(i, j)).ok()).collect()).collect();
            let mut copy;
            let target: &mut Matrix<u64> = if toks[0] == "try" {
                copy = match catch(|| m.clone()) {
                    Ok(c) => c,
                    Err(k) => return format!("clone-panicked {}", k.as_str()),
                };
                &mut copy
            } else {
                m
            };
            let outcome = apply(target, inner).expect("map op");
            return match outcome {
                Ok(()) => answer(Ok(()), target),
                Err(kind) => {
                    let (r2, c2) = target.size();
                    let len = storage_len(target);
                    let mut bad = vec![];
                    let mut pattern: Vec<String> = vec![];
                    for i in 0..rows.min(r2) {
                        let mut row = String::new();
                        for j in 0..cols.min(c2) {
                            let f = |x: u64| if with_index { x + k * (i as u64 + 1) + j as u64 } else { x + k };
                            let mark = match (old[i][j], catch(|| target.get(i, j))) {
                                (Some(o), Ok(n)) if n == o && n == f(o) => '=',
                                (Some(o), Ok(n)) if n == o => 'o',
                                (Some(o), Ok(n)) if n == f(o) => 'm',
                                (_, Ok(n)) => {
                                    bad.push(format!("({},{})={}", i, j, n));
                                    '?'
                                }
                                (_, Err(e)) => {
                                    bad.push(format!("({},{})=!{}", i, j, e.as_str()));
                                    '?'
                                }
                            };
                            row.push(mark);
                        }
                        pattern.push(row);
                    }
                    let storage = if (r2, c2) == (rows, cols) && Some(len) == rows.checked_mul(cols) {
                        "consistent".to_string()
                    } else {
                        format!("{}-elements-for-{}x{}-was-{}x{}", len, r2, c2, rows, cols)
                    };
                    let cells = if bad.is_empty() { "old-or-mapped".to_string() } else { format!("bad:{}", bad.join(",")) };
                    format!(
                        "panic {}x{} storage={} cells={} ## len={} kind={} pattern={}",
                        r2,
                        c2,
                        storage,
                        cells,
                        len,
                        kind.as_str(),
                        pattern.join(";")
                    )
                }
            };
        }
        if toks[0] == "try" {
            // the operation on a clone: the matrix itself is left as it is (a matrix whose
            // invariant is already broken cannot be cloned; that state was reported earlier)
            let mut copy = match catch(|| m.clone()) {
                Ok(c) => c,
                Err(k) => return format!("clone-panicked {}", k.as_str()),
            };
            return match apply(&mut copy, &toks[1..]) {
                Some(outcome) => answer(outcome, &copy),
                None => "bad-op".into(),
            };
        }
        match apply(m, toks) {
            Some(outcome) => answer(outcome, m),
            None => "bad-op".into(),
        }
    }
}
