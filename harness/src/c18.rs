//! C18 — determinism: a workload of floating point and formatting results for the
//! cross-execution comparison of props/c18_extra.py (never compared with the model: protocol
//! `none`).  Every case is independent (`@ …`) and prints only canonical text: `f64::to_bits` in
//! hex, `Display` / `Debug` strings (newlines escaped), tape positions, error values.
//!
//!   @ det <n> <seed> via=matrix|tensor|method     determinant of a pseudo-random n×n f64 matrix,
//!                                                 computed twice: `bits=<hex> again=<hex>`
//!   @ inverse <n> <seed> via=matrix|tensor        all entries (or `none`), twice
//!   @ matmul <r> <k> <c> <seed>                   Matrix × Matrix and Tensor × Tensor products
//!   @ stats <n> <seed>                            mean, variance, softmax, covariance
//!   @ decomp <n> <seed>                           cholesky / ldlt / qr of an SPD / general matrix
//!   @ gaussian <seed>                             density values and draws from a seeded source
//!   @ autodiff <seed>                             Record / Trace expressions: values, derivatives,
//!                                                 tape positions
//!   @ display <seed>                              Display / Debug of tensors, views, matrices, errors
//!   @ format <family> <seed>                      formatted output: `{}`, `{:.3}`, `{:?}`, `{:#?}` (where
//!                                                 implemented) of tensors of every dimensionality
//!                                                 0..=6, views over every adaptor kind, TensorAccess
//!                                                 / TensorTranspose (with the data layout line),
//!                                                 matrices, matrix views, partitions and quadrants,
//!                                                 decomposition structs, every error type, Record /
//!                                                 Trace / record containers — each as
//!                                                 `<fnv1a-64 of the text>/<length>:<first line>`
//!   @ fmtint <shape> <base> <plain|prec|access:<names>>   the full text of `Display` of an i64 tensor
//!                                                 (or of `index_by(names)` of it): this one is also
//!                                                 compared with the Lean model of `format_view`
//!   @ length <n> <seed>                           `Tensor<f64,1>::euclidean_length` of an n-vector, computed on
//!                                                 several copies whose buffers are allocated after a
//!                                                 varying number of small allocations (different
//!                                                 alignments): `bits=<first> again=<first differing or same>`
//!   @ qr <rows> <cols> <seed>                     QR factors of a tall matrix, likewise twice
//!   @ crosslist <k>                               k WengertLists created on each of two fresh threads
//!                                                 and on this one, moved here; operations across every
//!                                                 pair of different lists must be refused:
//!                                                 `same=<ok count> other_same_thread=<refused>/<tried>
//!                                                 cross_thread=<refused>/<tried>`
//!   @ byname <names> <order> <seed>               a tensor whose dimension names run together equally in
//!                                                 different orders ("a","aa" / "r","rr" / "x","xy" /
//!                                                 "a","b","ab" / the empty name) indexed, transposed and
//!                                                 reordered by `order`: the answer must not depend on
//!                                                 which by-name call (of colliding names) came before
//!   @ alloc <tape|matrix|tensor|records> <seed>   "allocation history": the SAME logical object built along
//!                                                 several routes (exact capacity; caller Vec with spare
//!                                                 capacity; after a larger content was cleared / removed /
//!                                                 truncated), the same operations on each — every Matrix
//!                                                 resizing op at every index, derivatives + conversions +
//!                                                 lengths, reshape / conversions, record container ops —
//!                                                 all routes must answer identically:
//!                                                 `routes=<n> bits=<first> again=<first differing or same>`
//!   @ naneq <seed>                                equality of f64 containers holding a NaN: `x == x`,
//!                                                 `x == x.clone()`, `&x == &x`, view / tensor / matrix
//!                                                 forms — every comparison must be `false`, whether the
//!                                                 two operands are the same object or equal copies
//!   @ messages <seed>                             the TEXT of panic messages and of `Display`ed error
//!                                                 values of invalid calls (several unknown / repeated
//!                                                 names, bad shapes, records of two different
//!                                                 WengertLists collected into one container, …)
//!   @ names <store> <seed>                        name lookups, reordering, selection and Display on
//!                                                 a tensor whose dimension names `rows`, `row`, `r`
//!                                                 are stored as literals | leaked heap copies |
//!                                                 slices of one static string (same start address):
//!                                                 the answer must not depend on <store>
//!
//! Same-size determinants are generated next to each other, so that the execution modes
//! (reverse case order, fresh thread, second process) give each of them a different history of
//! "previously executed unrelated library calls".

use crate::util::*;
use easy_ml::differentiation::{Record, RecordMatrix, RecordTensor, Trace, WengertList};
use easy_ml::distributions::{Gaussian, MultivariateGaussianTensor};
use easy_ml::linear_algebra;
use easy_ml::matrices::Matrix;
use easy_ml::numeric::extra::{Cos, Exp, Ln, Sin, Sqrt};
use easy_ml::matrices::views::{IndexRange as MIndexRange, MatrixRange, MatrixReverse, MatrixView, Reverse};
use easy_ml::tensors::indexing::TensorTranspose;
use easy_ml::tensors::views::{IndexRange, TensorChain, TensorRange, TensorStack, TensorView};
use easy_ml::tensors::Tensor;

fn hex(x: f64) -> String {
    format!("{:016x}", x.to_bits())
}

fn hexes<'a>(xs: impl Iterator<Item = f64>) -> String {
    let v: Vec<String> = xs.map(hex).collect();
    if v.is_empty() {
        "-".into()
    } else {
        v.join(",")
    }
}

fn esc(s: &str) -> String {
    s.replace('\\', "\\\\").replace('\n', "\\n")
}

/// pseudo-random f64 of mixed magnitude and sign (products and sums of these round)
fn value(rng: &mut Rng) -> f64 {
    let mantissa = (rng.next() >> 11) as f64 / (1u64 << 53) as f64 - 0.5;
    let exponent = (rng.below(7) as i32) - 3;
    mantissa * 10f64.powi(exponent) + if rng.chance(1, 4) { 1.0 / 3.0 } else { 0.0 }
}

fn values(rng: &mut Rng, n: usize) -> Vec<f64> {
    (0..n).map(|_| value(rng)).collect()
}

fn spd(rng: &mut Rng, n: usize) -> Matrix<f64> {
    // A·Aᵀ + n·I
    let a = Matrix::from_flat_row_major((n, n), values(rng, n * n));
    let mut m = &a * a.transpose();
    for i in 0..n {
        let v = m.get(i, i) + n as f64;
        m.set(i, i, v);
    }
    m
}

fn show_matrix_bits(m: &Matrix<f64>) -> String {
    format!("{}x{}:{}", m.rows(), m.columns(), hexes(m.row_major_iter()))
}

fn show_tensor_bits<const D: usize>(t: &Tensor<f64, D>) -> String {
    format!("{}:{}", show_shape(&t.shape()), hexes(t.iter()))
}

fn det(n: usize, seed: u64, via: &str) -> String {
    let mut rng = Rng::new(seed);
    let data = values(&mut rng, n * n);
    let compute = || -> Option<f64> {
        match via {
            "tensor" => {
                let t = Tensor::from([("r", n), ("c", n)], data.clone());
                linear_algebra::determinant_tensor::<f64, _, _>(&t)
            }
            "method" => Matrix::from_flat_row_major((n, n), data.clone()).determinant(),
            _ => linear_algebra::determinant::<f64>(&Matrix::from_flat_row_major((n, n), data.clone())),
        }
    };
    let first = compute();
    let again = compute();
    let show = |x: Option<f64>| x.map(hex).unwrap_or_else(|| "none".into());
    format!("bits={} again={}", show(first), show(again))
}

fn inverse(n: usize, seed: u64, via: &str) -> String {
    let mut rng = Rng::new(seed);
    let data = values(&mut rng, n * n);
    let compute = || -> String {
        match via {
            "tensor" => {
                let t = Tensor::from([("r", n), ("c", n)], data.clone());
                linear_algebra::inverse_tensor::<f64, _, _>(&t).map(|t| show_tensor_bits(&t)).unwrap_or_else(|| "none".into())
            }
            _ => linear_algebra::inverse::<f64>(&Matrix::from_flat_row_major((n, n), data.clone()))
                .map(|m| show_matrix_bits(&m))
                .unwrap_or_else(|| "none".into()),
        }
    };
    let first = compute();
    let again = compute();
    format!("bits={} again={}", first, again)
}

fn matmul(r: usize, k: usize, c: usize, seed: u64) -> String {
    let mut rng = Rng::new(seed);
    let a = values(&mut rng, r * k);
    let b = values(&mut rng, k * c);
    let ma = Matrix::from_flat_row_major((r, k), a.clone());
    let mb = Matrix::from_flat_row_major((k, c), b.clone());
    let ta = Tensor::from([("r", r), ("k", k)], a);
    let tb = Tensor::from([("k", k), ("c", c)], b);
    let mm = &ma * &mb;
    let tt = &ta * &tb;
    let v = Tensor::from([("k", k)], ma.row_iter(0).collect());
    let w = Tensor::from([("k", k)], mb.column_iter(0).collect());
    format!("matrix={} tensor={} dot={}", show_matrix_bits(&mm), show_tensor_bits(&tt), hex(v.scalar_product(&w)))
}

fn stats(n: usize, seed: u64) -> String {
    let mut rng = Rng::new(seed);
    let xs = values(&mut rng, n);
    let mean = linear_algebra::mean::<_, f64>(xs.iter().cloned());
    let var = linear_algebra::variance::<_, f64>(xs.iter().cloned());
    let soft = linear_algebra::softmax::<_, f64>(xs.iter().cloned());
    let cols = 3.min(n);
    let rows = n / cols;
    let m = Matrix::from_flat_row_major((rows, cols), xs[..rows * cols].to_vec());
    let cov = linear_algebra::covariance_column_features::<f64>(&m);
    let t = Tensor::from([("s", rows), ("f", cols)], xs[..rows * cols].to_vec());
    let covt = linear_algebra::covariance::<f64, _, _>(&t, "f");
    format!(
        "mean={} variance={} softmax={} cov={} covt={} f1={}",
        hex(mean),
        hex(var),
        hexes(soft.into_iter()),
        show_matrix_bits(&cov),
        show_tensor_bits(&covt),
        hex(linear_algebra::f1_score::<f64>(xs[0].abs(), xs[n - 1].abs() + 0.1))
    )
}

fn decomp(n: usize, seed: u64) -> String {
    let mut rng = Rng::new(seed);
    let m = spd(&mut rng, n);
    let chol = linear_algebra::cholesky_decomposition::<f64>(&m).map(|l| show_matrix_bits(&l)).unwrap_or_else(|| "none".into());
    let ldlt = linear_algebra::ldlt_decomposition::<f64>(&m)
        .map(|d| format!("{}|{}", show_matrix_bits(&d.l), show_matrix_bits(&d.d)))
        .unwrap_or_else(|| "none".into());
    let g = Matrix::from_flat_row_major((n + 1, n), values(&mut rng, (n + 1) * n));
    let qr = linear_algebra::qr_decomposition::<f64>(&g)
        .map(|d| format!("{}|{}", show_matrix_bits(&d.q), show_matrix_bits(&d.r)))
        .unwrap_or_else(|| "none".into());
    format!("cholesky={} ldlt={} qr={}", chol, ldlt, qr)
}

fn gaussian(seed: u64) -> String {
    let mut rng = Rng::new(seed);
    let g = Gaussian::new(value(&mut rng), value(&mut rng).abs() + 0.5);
    let xs = values(&mut rng, 4);
    let probs = hexes(xs.iter().map(|x| g.probability(x)));
    let mut source = (0..64).map(|_| (rng.next() >> 11) as f64 / (1u64 << 53) as f64).collect::<Vec<f64>>().into_iter();
    let draws = g.draw(&mut source, 7).map(|v| hexes(v.into_iter())).unwrap_or_else(|| "none".into());
    let fitted = Gaussian::approximating(xs.iter().cloned());
    format!("prob={} draws={} fit={},{}", probs, draws, hex(fitted.mean), hex(fitted.variance))
}

fn autodiff(seed: u64) -> String {
    let mut rng = Rng::new(seed);
    let (a, b, c) = (value(&mut rng).abs() + 0.5, value(&mut rng).abs() + 0.25, value(&mut rng));
    let list = WengertList::new();
    let x = Record::variable(a, &list);
    let w = Record::variable(b, &list);
    let k = Record::constant(c);
    let y = ((&x * &w).sin() + &x / &w - (&w * &k).exp().sqrt()) * (&x + &w).ln() + (&x).cos();
    let d = y.derivatives();
    let first = format!(
        "y={} dx={} dw={} pos={},{},{}",
        hex(y.number),
        hex(d[&x]),
        hex(d[&w]),
        x.index,
        w.index,
        y.index
    );
    // the same expression again on the same (now longer) list: positions shift, values do not
    let x2 = Record::variable(a, &list);
    let w2 = Record::variable(b, &list);
    let y2 = ((&x2 * &w2).sin() + &x2 / &w2 - (&w2 * &k).exp().sqrt()) * (&x2 + &w2).ln() + (&x2).cos();
    let d2 = y2.derivatives();
    let second = format!("y={} dx={} dw={} pos={},{},{}", hex(y2.number), hex(d2[&x2]), hex(d2[&w2]), x2.index, w2.index, y2.index);
    let tx = Trace::variable(a);
    let tw = Trace::constant(b);
    let ty = (tx * tw).sin() + tx / tw;
    format!("{} | {} | trace={},{}", first, second, hex(ty.number), hex(ty.derivative))
}

fn display(seed: u64) -> String {
    let mut rng = Rng::new(seed);
    let t = Tensor::from([("b", 2), ("r", 2), ("c", 3)], values(&mut rng, 12));
    let m = Matrix::from_flat_row_major((2, 3), values(&mut rng, 6));
    let view = t.select([("b", 1)]);
    let bad = Tensor::<f64, 2>::try_from([("x", 2), ("x", 2)], vec![0.0; 4]).unwrap_err();
    let inv = catch(|| t.index_by(["c", "b", "b"])).map(|_| ()).err().map(|k| k.as_str().to_string());
    let parts = vec![
        format!("{}", t),
        format!("{:.3}", t),
        format!("{:?}", t),
        format!("{}", m),
        format!("{:.2}", m),
        format!("{:?}", m),
        format!("{}", view),
        format!("{}", t.index_by(["c", "b", "r"])),
        format!("{}", bad),
        format!("{:?}", bad),
        format!("{:?}", inv),
        format!("{:e} {:?} {}", value(&mut rng), value(&mut rng), value(&mut rng)),
    ];
    esc(&parts.join(" ¦ "))
}

fn fnv(s: &str) -> u64 {
    s.bytes().fold(0xcbf29ce484222325u64, |h, b| (h ^ b as u64).wrapping_mul(0x100000001b3))
}

/// digest, length and first line of a formatted text
fn dg(s: String) -> String {
    format!("{:016x}/{}:{}", fnv(&s), s.len(), esc(s.lines().next().unwrap_or("")))
}

macro_rules! all4 {
    ($x:expr) => {
        vec![dg(format!("{}", $x)), dg(format!("{:.3}", $x)), dg(format!("{:?}", $x)), dg(format!("{:#?}", $x))]
    };
}
macro_rules! disp2 {
    ($x:expr) => {
        vec![dg(format!("{}", $x)), dg(format!("{:.2}", $x))]
    };
}
macro_rules! dbg2 {
    ($x:expr) => {
        vec![dg(format!("{:?}", $x)), dg(format!("{:#?}", $x))]
    };
}

fn format_tensor_d<const D: usize>(rng: &mut Rng) -> Vec<String> {
    let names = ["a", "b", "c", "d", "e", "f"];
    // lengths 1..3: every "end of a block" branch of the generic D >= 4 layout is reached
    let shape: [(&'static str, usize); D] = std::array::from_fn(|i| (names[i], rng.range(1, 3)));
    let n: usize = shape.iter().map(|d| d.1).product();
    let t = Tensor::from(shape, values(rng, n));
    let mut out = all4!(t);
    out.extend(disp2!(TensorView::from(&t)));
    out.extend(dbg2!(TensorView::from(&t)));
    out.extend(disp2!(t.index()));
    out.extend(dbg2!(t.index()));
    let mut rev: [&'static str; D] = std::array::from_fn(|i| names[i]);
    rev.reverse();
    out.extend(disp2!(t.index_by(rev)));
    out.extend(disp2!(t.transpose_view(rev)));
    out.extend(disp2!(TensorTranspose::from(&t, rev)));
    out.extend(dbg2!(TensorTranspose::from(&t, rev)));
    out
}

fn format_views(rng: &mut Rng) -> Vec<String> {
    let t = Tensor::from([("a", 3), ("b", 2), ("c", 4)], values(rng, 24));
    let u = Tensor::from([("a", 3), ("b", 2), ("c", 4)], values(rng, 24));
    let mut out = vec![];
    let r = t.range([("a", IndexRange::new(1, 2)), ("c", IndexRange::new(0, 3))]).unwrap();
    out.extend(disp2!(r));
    out.extend(dbg2!(r));
    let m = t.mask([("c", IndexRange::new(1, 2))]).unwrap();
    out.extend(disp2!(m));
    out.extend(dbg2!(m));
    let rv = t.reverse(&["a", "c"]);
    out.extend(disp2!(rv));
    out.extend(dbg2!(rv));
    let rn = t.rename_view(["x", "y", "z"]);
    out.extend(disp2!(rn));
    out.extend(dbg2!(rn));
    let sel = t.select([("b", 1)]);
    out.extend(disp2!(sel));
    out.extend(dbg2!(sel));
    let ex = t.expand([(1, "n")]);
    out.extend(disp2!(ex));
    out.extend(dbg2!(ex));
    let st = TensorView::from(TensorStack::<f64, (_, _), 3>::from((&t, &u), (0, "s")));
    out.extend(disp2!(st));
    out.extend(dbg2!(st));
    let ch = TensorView::from(TensorChain::<f64, [_; 2], 3>::from([&t, &u], "b"));
    out.extend(disp2!(ch));
    out.extend(dbg2!(ch));
    // compositions, and a TensorAccess / TensorTranspose over a view (non-linear layouts)
    out.extend(disp2!(r.index_by(["c", "b", "a"])));
    out.extend(dbg2!(r.index_by(["c", "b", "a"])));
    out.extend(disp2!(rv.transpose_view(["b", "c", "a"])));
    out.extend(disp2!(sel.reverse(&["c"]).index_by(["c", "a"])));
    let mat = Matrix::from_flat_row_major((2, 3), values(rng, 6));
    let tm = TensorView::from(easy_ml::interop::TensorRefMatrix::from(&mat).unwrap());
    out.extend(disp2!(tm));
    out.extend(dbg2!(tm));
    out.extend(disp2!(t.map(|x| x as f32)));
    out.extend(all4!(Tensor::from([("i", 2), ("j", 2)], vec![-3i64, 40, 500, -6000])));
    out.extend(all4!(Tensor::from([("s", 2)], vec!["left", "right"])));
    out
}

fn format_matrices(rng: &mut Rng) -> Vec<String> {
    let mut m = Matrix::from_flat_row_major((3, 4), values(rng, 12));
    let mut out = all4!(m);
    out.extend(all4!(Matrix::from_scalar(value(rng))));
    out.extend(all4!(Matrix::row(values(rng, 3))));
    out.extend(all4!(Matrix::column(values(rng, 3))));
    {
        let v = MatrixView::from(&m);
        out.extend(disp2!(v));
        out.extend(dbg2!(v));
        let r = MatrixView::from(MatrixRange::from(&m, MIndexRange::new(1, 2), MIndexRange::new(0, 3)));
        out.extend(disp2!(r));
        out.extend(dbg2!(r));
        let rv = MatrixView::from(MatrixReverse::from(&m, Reverse { rows: true, columns: false }));
        out.extend(disp2!(rv));
        out.extend(dbg2!(rv));
        let empty = MatrixView::from(MatrixRange::from(&m, MIndexRange::new(5, 2), MIndexRange::new(0, 3)));
        out.extend(disp2!(empty));
    }
    {
        let parts = m.partition(&[1], &[2, 3]);
        for p in &parts {
            out.extend(disp2!(p));
            out.extend(dbg2!(p));
        }
    }
    {
        let q = m.partition_quadrants(1, 2);
        out.extend(disp2!(q));
        out.extend(dbg2!(q));
    }
    out.extend(all4!(Matrix::from_flat_row_major((2, 2), vec![1i32, -20, 300, -4000])));
    out
}

fn format_decompositions(rng: &mut Rng) -> Vec<String> {
    let n = rng.range(2, 3);
    let m = spd(rng, n);
    let t = Tensor::from([("r", n), ("c", n)], m.row_major_iter().collect());
    let g = Matrix::from_flat_row_major((n + 1, n), values(rng, (n + 1) * n));
    let gt = Tensor::from([("r", n + 1), ("c", n)], g.row_major_iter().collect());
    let mut out = vec![];
    let ldlt = linear_algebra::ldlt_decomposition::<f64>(&m).unwrap();
    out.extend(all4!(ldlt));
    let ldlt_t = linear_algebra::ldlt_decomposition_tensor::<f64, _, _>(&t).unwrap();
    out.extend(all4!(ldlt_t));
    let qr = linear_algebra::qr_decomposition::<f64>(&g).unwrap();
    out.extend(all4!(qr));
    let qr_t = linear_algebra::qr_decomposition_tensor::<f64, _, _>(&gt).unwrap();
    out.extend(all4!(qr_t));
    out
}

fn format_errors(rng: &mut Rng) -> Vec<String> {
    let t = Tensor::from([("a", 2), ("b", 3)], values(rng, 6));
    let mut out = vec![];
    let shape_err = Tensor::<f64, 2>::try_from([("x", 0), ("x", 2)], vec![]).unwrap_err();
    out.extend(all4!(shape_err));
    let access_err = easy_ml::tensors::indexing::TensorAccess::try_from(&t, ["b", "q"]).unwrap_err();
    out.extend(all4!(access_err));
    let range_err = TensorRange::from(&t, [("q", IndexRange::new(0, 1))]).unwrap_err();
    out.extend(all4!(range_err));
    let dims_err = TensorRange::from(&t, [("a", IndexRange::new(0, 1)), ("a", IndexRange::new(0, 1))]).unwrap_err();
    out.extend(all4!(dims_err));
    let strict_err = TensorRange::from_strict(&t, [("a", IndexRange::new(1, 5))]).unwrap_err();
    out.extend(all4!(strict_err));
    let zero_err = TensorRange::from(&t, [("a", IndexRange::new(7, 2))]).unwrap_err();
    out.extend(all4!(zero_err));
    let scalar_err = Matrix::from_flat_row_major((1, 2), values(rng, 2)).try_into_scalar().unwrap_err();
    out.extend(all4!(scalar_err));
    let mean = Tensor::from([("m", 2)], values(rng, 2));
    let not_cov = MultivariateGaussianTensor::new(mean.clone(), Tensor::from([("r", 2), ("c", 3)], values(rng, 6))).unwrap_err();
    out.extend(all4!(not_cov));
    let wrong_len = MultivariateGaussianTensor::new(mean, Tensor::from([("r", 3), ("c", 3)], values(rng, 9))).unwrap_err();
    out.extend(all4!(wrong_len));
    let (l1, l2) = (WengertList::new(), WengertList::new());
    let records = vec![Record::variable(1.5, &l1), Record::variable(2.5, &l2)];
    let hist_err = RecordTensor::from_iter([("x", 2)], records.clone()).err().unwrap();
    if let easy_ml::differentiation::iterators::InvalidRecordIteratorError::InconsistentHistory(h) = &hist_err {
        out.extend(all4!(h));
    }
    out.extend(all4!(hist_err));
    let count_err = RecordMatrix::from_iter((2, 2), records[..1].to_vec()).err().unwrap();
    out.extend(all4!(count_err));
    let empty_err = RecordTensor::<f64, _, 1>::from_iter([("x", 1)], Vec::<Record<f64>>::new()).err().unwrap();
    out.extend(all4!(empty_err));
    out
}

fn format_records(rng: &mut Rng) -> Vec<String> {
    let list = WengertList::new();
    let x = Record::variable(value(rng), &list);
    let c = Record::constant(value(rng));
    let y = &x * &c + (&x).sin();
    let mut out = all4!(x);
    out.extend(all4!(c));
    out.extend(all4!(y));
    out.extend(all4!(Trace::variable(value(rng))));
    out.extend(all4!(Trace::constant(value(rng)) * Trace::variable(value(rng))));
    let rt = RecordTensor::variables(&list, Tensor::from([("r", 2), ("c", 2)], values(rng, 4)));
    out.extend(disp2!(rt));
    out.extend(dbg2!(rt));
    let rm = RecordMatrix::variables(&list, Matrix::from_flat_row_major((2, 2), values(rng, 4)));
    out.extend(disp2!(rm));
    out.extend(dbg2!(rm));
    out.push(dg(format!("{:?}", y.derivatives())));
    out.push(dg(format!("{:?}", list)));
    out
}

fn format_family(family: &str, seed: u64) -> String {
    let mut rng = Rng::new(seed);
    let parts = match family {
        "tensor0" => format_tensor_d::<0>(&mut rng),
        "tensor1" => format_tensor_d::<1>(&mut rng),
        "tensor2" => format_tensor_d::<2>(&mut rng),
        "tensor3" => format_tensor_d::<3>(&mut rng),
        "tensor4" => format_tensor_d::<4>(&mut rng),
        "tensor5" => format_tensor_d::<5>(&mut rng),
        "tensor6" => format_tensor_d::<6>(&mut rng),
        "views" => format_views(&mut rng),
        "matrices" => format_matrices(&mut rng),
        "decompositions" => format_decompositions(&mut rng),
        "errors" => format_errors(&mut rng),
        "records" => format_records(&mut rng),
        _ => vec!["bad-family".into()],
    };
    parts.join(" ¦ ")
}

/// the full text of `Display` of an i64 tensor `base, base+1, …` (negative for odd offsets), or of
/// `index_by(names)` of it — the Lean model of `format_view` answers the same line
fn fmtint(shape: &[(&'static str, usize)], base: i64, mode: &str) -> String {
    crate::with_d!(shape.len(), D => {
        let sh: [(&'static str, usize); D] = shape_array(shape);
        let n: usize = shape.iter().map(|d| d.1).product();
        let t = Tensor::from(sh, (0..n as i64).map(|i| if i % 2 == 1 { -(base + i) } else { base + i }).collect());
        let text = match mode.split_once(':') {
            Some(("access", names)) => {
                let names: [&'static str; D] = names_array(&parse_names(names));
                format!("{}", t.index_by(names))
            }
            _ if mode == "prec" => format!("{:.3}", t),
            _ => format!("{}", t),
        };
        esc(&text)
    })
}

/// small allocations that shift where the next buffers land (kept alive by the caller)
fn shift_heap(k: usize) -> Vec<Box<[u8]>> {
    (0..k).map(|i| vec![i as u8; 8 + 16 * (i % 3)].into_boxed_slice()).collect()
}

fn again_of(all: &[String]) -> String {
    let first = &all[0];
    let other = all.iter().find(|x| *x != first).unwrap_or(first);
    format!("bits={} again={}", first, other)
}

fn length(n: usize, seed: u64) -> String {
    let mut rng = Rng::new(seed);
    let data = values(&mut rng, n);
    let mut keep = vec![];
    let mut all = vec![];
    for k in 0..8 {
        keep.push(shift_heap(k));
        // a fresh buffer for the same numbers, at whatever alignment the allocator gives it now
        let mut copy: Vec<f64> = Vec::with_capacity(n + (k % 3));
        copy.extend_from_slice(&data);
        let t = Tensor::from([("x", n)], copy);
        all.push(hex(t.euclidean_length()));
        keep.push(vec![vec![0u8; 24].into_boxed_slice()]);
    }
    again_of(&all)
}

fn qr(rows: usize, cols: usize, seed: u64) -> String {
    let mut rng = Rng::new(seed);
    let data = values(&mut rng, rows * cols);
    let mut keep = vec![];
    let mut all = vec![];
    for k in 0..6 {
        keep.push(shift_heap(k));
        let m = Matrix::from_flat_row_major((rows, cols), data.clone());
        let d = linear_algebra::qr_decomposition::<f64>(&m);
        all.push(d.map(|d| format!("{}|{}", show_matrix_bits(&d.q), show_matrix_bits(&d.r))).unwrap_or_else(|| "none".into()));
        let t = Tensor::from([("r", rows), ("c", cols)], data.clone());
        let dt = linear_algebra::qr_decomposition_tensor::<f64, _, _>(&t);
        all.push(dt.map(|d| format!("{}|{}", hexes(d.q.iter()), hexes(d.r.iter()))).unwrap_or_else(|| "none".into()));
    }
    // matrix and tensor forms are compared among themselves
    let m: Vec<String> = all.iter().step_by(2).cloned().collect();
    let t: Vec<String> = all.iter().skip(1).step_by(2).cloned().collect();
    format!("{} tensor-{}", again_of(&m), again_of(&t))
}

fn crosslist(k: usize) -> String {
    let make = move || -> Vec<WengertList<f64>> { (0..k).map(|_| WengertList::new()).collect() };
    // two fresh threads: on each of them these are the first k lists the thread creates
    let a = std::thread::spawn(make).join().unwrap();
    let b = std::thread::spawn(make).join().unwrap();
    let here = make();
    let refused = |x: &WengertList<f64>, y: &WengertList<f64>| -> bool {
        let (p, q) = (Record::variable(1.5, x), Record::variable(2.5, y));
        let r1 = catch(|| (&p + &q).number).is_err();
        let r2 = catch(|| (&p * &q).number).is_err();
        let r3 = catch(|| (&q - &p).number).is_err();
        r1 && r2 && r3
    };
    let groups = [&a, &b, &here];
    let (mut same_ok, mut st_ref, mut st_all, mut ct_ref, mut ct_all) = (0, 0, 0, 0, 0);
    for (gi, g) in groups.iter().enumerate() {
        for (i, x) in g.iter().enumerate() {
            if !refused(x, x) {
                same_ok += 1;
            }
            for (j, y) in g.iter().enumerate() {
                if i != j {
                    st_all += 1;
                    if refused(x, y) {
                        st_ref += 1;
                    }
                }
            }
            for (hi, h) in groups.iter().enumerate() {
                if hi != gi {
                    for y in h.iter() {
                        ct_all += 1;
                        if refused(x, y) {
                            ct_ref += 1;
                        }
                    }
                }
            }
        }
    }
    format!("same={} other_same_thread={}/{} cross_thread={}/{}", same_ok, st_ref, st_all, ct_ref, ct_all)
}

fn byname(names: &[&'static str], order: &[&'static str], seed: u64) -> String {
    let mut rng = Rng::new(seed);
    crate::with_d!(names.len(), D => {
        let shape: [(&'static str, usize); D] = std::array::from_fn(|i| (names[i], 2 + i));
        let order: [&'static str; D] = names_array(order);
        let n: usize = shape.iter().map(|d| d.1).product();
        let t = Tensor::from(shape, (0..n).map(|i| i as f64 + (rng.below(8) as f64) / 8.0).collect());
        let parts = vec![
            show_shape(&t.index_by(order).shape()),
            hexes(t.index_by(order).iter()),
            show_tensor_bits(&t.transpose(order)),
            show_tensor_bits(&t.reorder(order)),
            dg(format!("{}", t.index_by(order))),
            format!("{:?}", order.iter().map(|n| t.length_of(n)).collect::<Vec<_>>()),
        ];
        parts.join(" ¦ ")
    })
}

// ---------------------------------------------------------------------------------------------
// allocation history: spare capacity of the backing Vecs must never show
// ---------------------------------------------------------------------------------------------

fn routes_answer(all: Vec<String>) -> String {
    let digests: Vec<String> = all.iter().map(|s| format!("{:016x}/{}", fnv(s), s.len())).collect();
    format!("routes={} {}", all.len(), again_of(&digests))
}

fn spare_vec(data: &[f64], extra: usize) -> Vec<f64> {
    let mut v = Vec::with_capacity(data.len() + extra);
    v.extend_from_slice(data);
    v
}

/// the derivatives of one small expression on a list with the given history
fn tape_probe(list: &WengertList<f64>, a: f64, b: f64) -> String {
    let x = Record::variable(a, list);
    let y = Record::variable(b, list);
    let z = &x * &y + (&x).sin();
    let d = z.derivatives();
    let (dx, dy) = (d[&x], d[&y]);
    let v: Vec<f64> = d.into();
    let d2: Vec<f64> = z.try_derivatives().map(Vec::from).unwrap_or_default();
    // positions relative to the first record, so that a longer earlier (cleared) tape cannot show
    format!(
        "z={} dx={} dy={} len={} vec={} again={} rel={},{}",
        hex(z.number), hex(dx), hex(dy), v.len(), hexes(v.into_iter()), hexes(d2.into_iter()),
        y.index - x.index, z.index - x.index
    )
}

fn alloc_tape(rng: &mut Rng) -> String {
    let (a, b) = (value(rng).abs() + 0.5, value(rng));
    let mut all = vec![];
    // fresh list
    all.push(tape_probe(&WengertList::new(), a, b));
    // after a larger computation was recorded and cleared
    for big in [5usize, 19, 70] {
        let list = WengertList::new();
        {
            let mut acc = Record::variable(1.25, &list);
            for _ in 0..big {
                acc = &acc * &acc + &acc;
            }
            let _ = acc.derivatives();
        }
        list.clear();
        all.push(tape_probe(&list, a, b));
    }
    // after a smaller one, cleared twice
    let list = WengertList::new();
    let _ = Record::variable(2.0, &list);
    list.clear();
    list.clear();
    all.push(tape_probe(&list, a, b));
    // a clone of a cleared list
    let list = WengertList::new();
    for _ in 0..9 {
        let _ = Record::variable(2.0, &list);
    }
    list.clear();
    all.push(tape_probe(&list.clone(), a, b));
    routes_answer(all)
}

/// every resizing / in-place operation at every index, on matrices built by `make`
fn matrix_probe(make: &dyn Fn() -> Matrix<f64>) -> String {
    let (rows, cols) = make().size();
    let mut out = vec![];
    let show = |m: &Matrix<f64>| format!("{}x{}:{}", m.rows(), m.columns(), hexes(m.row_major_iter()));
    for i in 0..=rows {
        let mut m = make();
        m.insert_row(i, 9.5);
        out.push(show(&m));
        let mut m = make();
        m.insert_row_with(i, (0..cols).map(|j| 100.0 + j as f64));
        out.push(show(&m));
        // twice in a row: the first insertion may leave or use up spare capacity
        m.insert_row(0, -1.0);
        m.insert_row_with(m.rows(), (0..cols).map(|j| 200.0 + j as f64));
        out.push(show(&m));
    }
    for j in 0..=cols {
        let mut m = make();
        m.insert_column(j, 7.5);
        out.push(show(&m));
        let mut m = make();
        m.insert_column_with(j, (0..rows).map(|i| 300.0 + i as f64));
        m.insert_row(1.min(m.rows()), 4.0);
        out.push(show(&m));
    }
    for i in 0..rows {
        if rows > 1 {
            let mut m = make();
            m.remove_row(i);
            m.insert_row(0, 6.0);
            out.push(show(&m));
        }
    }
    for j in 0..cols {
        if cols > 1 {
            let mut m = make();
            m.remove_column(j);
            m.insert_row(m.rows(), 5.0);
            m.insert_column(0, 3.0);
            out.push(show(&m));
        }
    }
    let mut m = make();
    m.transpose_mut();
    m.insert_row(1, 2.0);
    out.push(show(&m));
    let m = make();
    out.push(show(&m.transpose()));
    out.push(format!("{}", m));
    out.push(format!("{:?}", m == make()));
    out.join(";")
}

fn alloc_matrix(rng: &mut Rng) -> String {
    let (rows, cols) = (rng.range(1, 3), rng.range(1, 3));
    let data = values(rng, rows * cols);
    let extra_row = values(rng, cols);
    let extra_col = values(rng, rows);
    let mut all = vec![];
    all.push(matrix_probe(&|| Matrix::from_flat_row_major((rows, cols), data.clone())));
    for extra in [1usize, cols, 2 * cols + 1, 64] {
        all.push(matrix_probe(&|| Matrix::from_flat_row_major((rows, cols), spare_vec(&data, extra))));
    }
    // a larger matrix cut down: a row, a column, a retain_mut, several rows
    all.push(matrix_probe(&|| {
        let mut d = data.clone();
        d.extend_from_slice(&extra_row);
        let mut m = Matrix::from_flat_row_major((rows + 1, cols), d);
        m.remove_row(rows);
        m
    }));
    all.push(matrix_probe(&|| {
        let mut d = vec![];
        for r in 0..rows {
            d.extend_from_slice(&data[r * cols..(r + 1) * cols]);
            d.push(extra_col[r]);
        }
        let mut m = Matrix::from_flat_row_major((rows, cols + 1), d);
        m.remove_column(cols);
        m
    }));
    all.push(matrix_probe(&|| {
        let mut d = data.clone();
        for _ in 0..3 {
            d.extend_from_slice(&extra_row);
        }
        let mut m = Matrix::from_flat_row_major((rows + 3, cols), d);
        m.retain_mut(easy_ml::matrices::slices::Slice2D::new()
            .rows(easy_ml::matrices::slices::Slice::Range(0..rows))
            .columns(easy_ml::matrices::slices::Slice::All()));
        m
    }));
    all.push(matrix_probe(&|| {
        let mut m = Matrix::from_flat_row_major((rows, cols), data.clone());
        m.insert_row_with(0, extra_row.iter().cloned());
        m.remove_row(0);
        m
    }));
    // through a tensor that carries a Vec with spare capacity
    all.push(matrix_probe(&|| Tensor::from([("r", rows), ("c", cols)], spare_vec(&data, cols + 3)).into_matrix()));
    if rows == 1 {
        all.push(matrix_probe(&|| Matrix::row(spare_vec(&data, cols))));
    }
    if cols == 1 {
        all.push(matrix_probe(&|| Matrix::column(spare_vec(&data, 5))));
    }
    routes_answer(all)
}

fn tensor_probe(make: &dyn Fn() -> Tensor<f64, 2>) -> String {
    let t = make();
    let [(_, r), (_, c)] = t.shape();
    let mut out = vec![show_tensor_bits(&t), format!("{}", t), format!("{:?}", t == make())];
    let mut u = make();
    u.reshape_mut([("x", c), ("y", r)]);
    out.push(show_tensor_bits(&u));
    out.push(show_tensor_bits(&make().reshape_owned([("flat", r * c)])));
    let mut u = make();
    u.transpose_mut(["c", "r"]);
    out.push(show_tensor_bits(&u));
    out.push(show_tensor_bits(&make().transpose(["c", "r"])));
    let mut m = make().into_matrix();
    m.insert_row(0, 8.5);
    m.insert_row_with(m.rows(), (0..c).map(|j| j as f64));
    out.push(show_matrix_bits(&m));
    let back: Tensor<f64, 2> = m.into_tensor("r", "c").unwrap();
    out.push(show_tensor_bits(&back));
    out.push(hexes(make().iter_owned()));
    out.join(";")
}

fn alloc_tensor(rng: &mut Rng) -> String {
    let (r, c) = (rng.range(1, 3), rng.range(1, 4));
    let data = values(rng, r * c);
    let mut all = vec![];
    all.push(tensor_probe(&|| Tensor::from([("r", r), ("c", c)], data.clone())));
    for extra in [1usize, c, 3 * c + 2] {
        all.push(tensor_probe(&|| Tensor::from([("r", r), ("c", c)], spare_vec(&data, extra))));
    }
    all.push(tensor_probe(&|| Tensor::from([("q", r * c)], spare_vec(&data, 7)).reshape_owned([("r", r), ("c", c)])));
    all.push(tensor_probe(&|| {
        let mut m = Matrix::from_flat_row_major((r, c), data.clone());
        m.insert_row(0, 0.0);
        m.remove_row(0);
        m.into_tensor("r", "c").unwrap()
    }));
    all.push(tensor_probe(&|| {
        let mut t = Tensor::from([("c", c), ("r", r)], Tensor::from([("r", r), ("c", c)], data.clone()).transpose(["c", "r"]).iter().collect());
        t.reorder_mut(["r", "c"]);
        t
    }));
    routes_answer(all)
}

fn records_probe(list: &WengertList<f64>, data: &[f64], rows: usize, cols: usize) -> String {
    let x = RecordMatrix::variables(list, Matrix::from_flat_row_major((rows, cols), data.to_vec()));
    let y = x.unary(|v| v.sin(), |v| v.cos());
    let first = y.get_as_record(0, 0);
    let v: Vec<f64> = first.derivatives().into();
    let t = RecordTensor::variables(list, Tensor::from([("a", rows * cols)], data.to_vec()));
    let u = t.unary(|v| v * v, |v| 2.0 * v);
    let d = u.derivatives_for([0]).map(Vec::from).unwrap_or_default();
    let base = x.get_as_record(0, 0).index;
    format!(
        "y={} dlen={} d={} tlen={} td={} rel={}",
        hexes(y.view().row_major_iter().map(|p| p.0)),
        v.len() - base,
        hexes(v.into_iter().skip(base)),
        d.len() - base,
        hexes(d.into_iter().skip(base)),
        first.index - base
    )
}

fn alloc_records(rng: &mut Rng) -> String {
    let (rows, cols) = (rng.range(1, 2), rng.range(1, 3));
    let data = values(rng, rows * cols);
    let mut all = vec![];
    all.push(records_probe(&WengertList::new(), &data, rows, cols));
    for big in [3usize, 40] {
        let list = WengertList::new();
        {
            let mut acc = Record::variable(1.5, &list);
            for _ in 0..big {
                acc = &acc + &acc;
            }
        }
        list.clear();
        all.push(records_probe(&list, &data, rows, cols));
    }
    routes_answer(all)
}

fn alloc(what: &str, seed: u64) -> String {
    let mut rng = Rng::new(seed);
    match what {
        "tape" => alloc_tape(&mut rng),
        "matrix" => alloc_matrix(&mut rng),
        "tensor" => alloc_tensor(&mut rng),
        "records" => alloc_records(&mut rng),
        _ => "bad-op".into(),
    }
}

fn naneq(seed: u64) -> String {
    let mut rng = Rng::new(seed);
    let mut data = values(&mut rng, 6);
    let at = rng.below(6);
    data[at] = f64::NAN;
    let m = Matrix::from_flat_row_major((2, 3), data.clone());
    let m2 = m.clone();
    let t = Tensor::from([("r", 2), ("c", 3)], data.clone());
    let t2 = t.clone();
    #[allow(clippy::eq_op)]
    let flags = vec![
        m == m,
        m == m2,
        &m == &m,
        MatrixView::from(&m) == MatrixView::from(&m),
        MatrixView::from(&m) == MatrixView::from(&m2),
        MatrixView::from(&m) == m,
        m == MatrixView::from(&m2),
        t == t,
        t == t2,
        &t == &t,
        TensorView::from(&t) == TensorView::from(&t),
        TensorView::from(&t) == TensorView::from(&t2),
        TensorView::from(&t) == t,
        t == TensorView::from(&t2),
        t.index_by(["c", "r"]).map(|x| x) == t.index_by(["c", "r"]).map(|x| x),
        // without the NaN the same comparisons hold (so `false` above is not vacuous)
        !(Matrix::from_flat_row_major((1, 2), vec![1.5, 2.5]) == Matrix::from_flat_row_major((1, 2), vec![1.5, 2.5])),
        !(Tensor::from([("x", 2)], vec![1.5, 2.5]) == Tensor::from([("x", 2)], vec![1.5, 2.5])),
    ];
    format!("nan@{} {}", at, flags.iter().map(|f| if *f { "T" } else { "f" }).collect::<String>())
}

/// the message a call panics with (`-` if it returns)
fn panic_message<R>(f: impl FnOnce() -> R) -> String {
    match std::panic::catch_unwind(std::panic::AssertUnwindSafe(f)) {
        Ok(_) => "-".into(),
        Err(payload) => {
            if let Some(s) = payload.downcast_ref::<&str>() {
                (*s).to_string()
            } else if let Some(s) = payload.downcast_ref::<String>() {
                s.clone()
            } else {
                "?".into()
            }
        }
    }
}

fn messages(seed: u64) -> String {
    let mut rng = Rng::new(seed);
    let t = Tensor::from([("a", 2), ("b", 3), ("c", 2)], (0..12).map(|i| i as f64).collect());
    let m = Matrix::from_flat_row_major((2, 3), (0..6).map(|i| i as f64).collect());
    // unknown / repeated names in a pseudo-random but seed-determined order
    let mut unknown = vec!["zz", "yy", "ww", "vv", "uu"];
    rng.shuffle(&mut unknown);
    let (l1, l2) = (WengertList::new(), WengertList::new());
    let (l3, l4) = (Box::new(WengertList::new()), Box::new(WengertList::new()));
    let mixed = |a: &'_ WengertList<f64>, b: &'_ WengertList<f64>| -> String {
        let records = vec![Record::variable(1.0, a), Record::variable(2.0, b), Record::constant(3.0), Record::variable(4.0, a)];
        let e1 = RecordTensor::from_iter([("x", 4)], records.clone()).err().map(|e| e.to_string());
        let e2 = RecordMatrix::from_iter((2, 2), records).err().map(|e| e.to_string());
        format!("{:?} ¦ {:?}", e1, e2)
    };
    let parts = vec![
        panic_message(|| t.reverse(&[unknown[0], unknown[1], unknown[2]])),
        panic_message(|| t.reverse(&["a", unknown[3], "b", unknown[4]])),
        panic_message(|| t.reverse(&["a", "a"])),
        panic_message(|| t.index_by([unknown[0], "a", unknown[1]])),
        panic_message(|| t.transpose(["c", "c", "a"])),
        panic_message(|| t.select([(unknown[2], 0)])),
        panic_message(|| t.select([("a", 7)])),
        panic_message(|| Tensor::from([("a", 2), ("a", 2)], vec![0.0; 4])),
        panic_message(|| Tensor::from([("a", 2), ("b", 2)], vec![0.0; 5])),
        panic_message(|| t.rename_view(["q", "q", "r"])),
        panic_message(|| m.get(5, 1)),
        panic_message(|| m.row_iter(9).count()),
        panic_message(|| Matrix::from_flat_row_major((2, 2), vec![0.0; 3])),
        panic_message(|| TensorChain::<f64, (_, _), 3>::from((&t, &t), unknown[0])),
        format!("{:?}", TensorRange::from(&t, [(unknown[1], IndexRange::new(0, 1))]).err().map(|e| e.to_string())),
        format!("{:?}", TensorRange::from_strict(&t, [("a", IndexRange::new(1, 5))]).err().map(|e| e.to_string())),
        format!("{:?}", Tensor::<f64, 2>::try_from([("x", 0), ("y", 2)], vec![]).err().map(|e| e.to_string())),
        mixed(&l1, &l2),
        mixed(&l4, &l3),
        mixed(&l2, &l4),
    ];
    esc(&parts.join(" ¦ "))
}

/// the three dimension names `rows`, `row`, `r` in three storage layouts
fn stored_names(store: &str) -> [&'static str; 3] {
    static TABLE: &str = "rows";
    match store {
        // slices of one string: all three start at the same address
        "sliced" => [&TABLE[..4], &TABLE[..3], &TABLE[..1]],
        // separate heap allocations
        "leaked" => [
            Box::leak(String::from("rows").into_boxed_str()),
            Box::leak(String::from("row").into_boxed_str()),
            Box::leak(String::from("r").into_boxed_str()),
        ],
        _ => ["rows", "row", "r"],
    }
}

fn names(store: &str, seed: u64) -> String {
    let mut rng = Rng::new(seed);
    let [a, b, c] = stored_names(store);
    let data: Vec<f64> = (0..24).map(|i| i as f64 + (rng.below(10) as f64) / 16.0).collect();
    let t = Tensor::from([(a, 2), (b, 3), (c, 4)], data);
    let order = match rng.below(5) {
        0 => [b, a, c],
        1 => [c, b, a],
        2 => [b, c, a],
        3 => [c, a, b],
        _ => [a, c, b],
    };
    let idx = [rng.below(2), rng.below(2), rng.below(2)];
    let parts = vec![
        format!("{:?},{:?},{:?}", t.length_of(b), t.length_of(c), t.length_of(a)),
        show_shape(&t.index_by(order).shape()),
        hexes(t.index_by(order).iter()),
        format!("{:?}", t.index_by(order).try_get_reference(idx).map(|x| hex(*x))),
        esc(&format!("{}", t.transpose(order))),
        show_tensor_bits(&t.reorder(order)),
        show_tensor_bits(&t.select([(b, 1)]).map(|x| x)),
        show_tensor_bits(&t.select([(c, 2)]).map(|x| x)),
        format!("{:?}", catch(|| t.index_by([a, a, b])).is_err()),
        esc(&format!("{}", TensorView::from(&t).index_by(order))),
    ];
    parts.join(" ¦ ")
}

pub struct Runner;

impl Runner {
    pub fn new() -> Runner {
        Runner
    }

    pub fn step(&mut self, toks: &[&str]) -> String {
        if toks.len() < 2 || toks[0] != "@" {
            return "bad-op".into();
        }
        let num = |i: usize| -> usize { toks[i].parse().expect("number") };
        let via = opt_arg("via", toks).unwrap_or("matrix");
        let r = catch(|| match toks[1] {
            "det" => det(num(2), num(3) as u64, via),
            "inverse" => inverse(num(2), num(3) as u64, via),
            "matmul" => matmul(num(2), num(3), num(4), num(5) as u64),
            "stats" => stats(num(2), num(3) as u64),
            "decomp" => decomp(num(2), num(3) as u64),
            "gaussian" => gaussian(num(2) as u64),
            "autodiff" => autodiff(num(2) as u64),
            "display" => display(num(2) as u64),
            "format" => format_family(toks[2], num(3) as u64),
            "fmtint" => fmtint(&parse_shape(toks[2]), toks[3].parse().expect("base"), toks[4]),
            "length" => length(num(2), num(3) as u64),
            "qr" => qr(num(2), num(3), num(4) as u64),
            "crosslist" => crosslist(num(2)),
            "byname" => byname(&parse_names(toks[2]), &parse_names(toks[3]), num(4) as u64),
            "alloc" => alloc(toks[2], num(3) as u64),
            "naneq" => naneq(num(2) as u64),
            "messages" => messages(num(2) as u64),
            "names" => names(toks[2], num(3) as u64),
            _ => "bad-op".into(),
        });
        match r {
            Ok(s) => s,
            Err(k) => panic_str(k),
        }
    }
}

pub fn gen(g: &mut Gen) {
    let reps = if g.thorough { 12 } else { 4 };
    // same-size determinants next to each other, no other size in between
    for n in [3usize, 4, 5, 3, 4, 2, 6, 1] {
        if n == 6 && !g.thorough {
            continue;
        }
        for i in 0..reps {
            let via = ["matrix", "tensor", "method"][i % 3];
            let seed = g.rng.next() % 1_000_000;
            g.count(&format!("det.n{}", n));
            g.op(format!("@ det {} {} via={}", n, seed, via));
        }
    }
    for n in [3usize, 4, 2, 4] {
        for i in 0..reps {
            let seed = g.rng.next() % 1_000_000;
            g.count(&format!("inverse.n{}", n));
            g.op(format!("@ inverse {} {} via={}", n, seed, ["matrix", "tensor"][i % 2]));
        }
    }
    for _ in 0..reps * 2 {
        let (r, k, c) = (g.rng.range(1, 4), g.rng.range(1, 5), g.rng.range(1, 4));
        let seed = g.rng.next() % 1_000_000;
        g.count("matmul");
        g.op(format!("@ matmul {} {} {} {}", r, k, c, seed));
        let seed = g.rng.next() % 1_000_000;
        g.count("stats");
        let n = g.rng.range(3, 12);
        g.op(format!("@ stats {} {}", n, seed));
    }
    for _ in 0..reps {
        let seed = g.rng.next() % 1_000_000;
        g.count("decomp");
        let n = g.rng.range(1, 4);
        g.op(format!("@ decomp {} {}", n, seed));
        let seed = g.rng.next() % 1_000_000;
        g.count("gaussian");
        g.op(format!("@ gaussian {}", seed));
        let seed = g.rng.next() % 1_000_000;
        g.count("autodiff");
        g.op(format!("@ autodiff {}", seed));
        let seed = g.rng.next() % 1_000_000;
        g.count("display");
        g.op(format!("@ display {}", seed));
        let seed = g.rng.next() % 1_000_000;
        g.count("messages");
        g.op(format!("@ messages {}", seed));
    }
    for n in [8usize, 9, 10, 11, 12, 13, 16, 17, 23, 31, 32, 33, 47, 64, 70] {
        for _ in 0..(reps / 2).max(1) {
            let seed = g.rng.next() % 1_000_000;
            g.count("length");
            g.op(format!("@ length {} {}", n, seed));
        }
    }
    for rows in [8usize, 9, 10, 11, 12] {
        for _ in 0..(reps / 2).max(1) {
            let cols = g.rng.range(2, 4);
            let seed = g.rng.next() % 1_000_000;
            g.count("qr");
            g.op(format!("@ qr {} {} {}", rows, cols, seed));
        }
    }
    // names whose different orders run together to the same text; each request is a case of its
    // own, so the execution modes (reverse order, fresh thread / process) change what came before
    let sets: [&[&str]; 7] = [&["a", "aa"], &["r", "rr"], &["x", "xy"], &["a", "b", "ab"], &["rr", "r", "rrr"],
        &["_empty_", "a"], &["ab", "a", "b"]];
    for set in sets {
        for _ in 0..(reps / 2).max(1) {
            let seed = g.rng.next() % 1_000_000;
            let d = set.len();
            let mut orders: Vec<Vec<&str>> = vec![set.to_vec()];
            for r in 1..d {
                let mut o = set.to_vec();
                o.rotate_left(r);
                orders.push(o);
            }
            let mut swapped = set.to_vec();
            swapped.swap(0, d - 1);
            orders.push(swapped);
            orders.push(set.to_vec());
            for o in orders {
                g.count("byname");
                g.op(format!("@ byname {} {} {}", set.join(","), o.join(","), seed));
            }
        }
    }
    for what in ["tape", "matrix", "tensor", "records"] {
        for _ in 0..reps * 2 {
            let seed = g.rng.next() % 1_000_000;
            g.count(&format!("alloc.{}", what));
            g.op(format!("@ alloc {} {}", what, seed));
        }
    }
    for _ in 0..reps {
        let seed = g.rng.next() % 1_000_000;
        g.count("naneq");
        g.op(format!("@ naneq {}", seed));
    }
    for k in [1usize, 2, 3, 5] {
        g.count("crosslist");
        g.op(format!("@ crosslist {}", k));
    }
    for family in ["tensor0", "tensor1", "tensor2", "tensor3", "tensor4", "tensor5", "tensor6", "views", "matrices",
        "decompositions", "errors", "records"] {
        for _ in 0..reps {
            let seed = g.rng.next() % 1_000_000;
            g.count(&format!("format.{}", family));
            g.op(format!("@ format {} {}", family, seed));
        }
    }
    // integer tensors of every dimensionality, full text (compared with the Lean model)
    let names = ["a", "b", "c", "d", "e", "f"];
    for d in 0..=6usize {
        for _ in 0..reps * 2 {
            let lens: Vec<usize> = (0..d).map(|_| g.rng.range(1, 3)).collect();
            let shape = if d == 0 { "-".to_string() } else {
                lens.iter().enumerate().map(|(i, l)| format!("{}:{}", names[i], l)).collect::<Vec<_>>().join(",")
            };
            let base = g.rng.below(2000) as i64 - 500;
            let mut order: Vec<&str> = names[..d].to_vec();
            g.rng.shuffle(&mut order);
            let access = format!("access:{}", if d == 0 { "-".to_string() } else { order.join(",") });
            for mode in ["plain", "prec", access.as_str()] {
                g.count(&format!("fmtint.D{}", d));
                g.op(format!("@ fmtint {} {} {}", shape, base, mode));
            }
        }
    }
    for _ in 0..reps * 3 {
        let seed = g.rng.next() % 1_000_000;
        for store in ["literal", "leaked", "sliced"] {
            g.count(&format!("names.{}", store));
            g.op(format!("@ names {} {}", store, seed));
        }
    }
}
