//! C19 — "any user type supplying the same operations can be used as an element type everywhere
//! a numeric type is accepted, and the library's result on it is identical to evaluating the
//! documented formula directly on that type".
//!
//! The user-defined exact types `exact::Fp` (prime field) and `exact::Rat` (rationals) are
//! instantiated here at every generic numeric routine of the crate that can be reached through
//! its public API (that this file compiles is the compile-time part of the claim; the catalogue
//! is listed in the evidence through the `#stat user.<routine>.<type>` lines).  Each routine is
//! run on generated inputs and the result is printed; the Lean side (Driver/C19User.lean)
//! evaluates the documented formula at its own `Fp` / `Rat`.
//!
//!   @ user <routine> <Fp|Rat> <arg> …      matrices `RxC:v,…` (row major), lists `v,…`
//!
//! Routines whose documented formula goes through uninterpreted real functions in an
//! algorithm-specific way (QR, the Gaussian density and draws) are instantiated and executed
//! only (answer `ran`); their formulas are the business of C08 / C17.

use crate::exact::{Fp, Rat, P};
use crate::util::*;
use easy_ml::differentiation::{Record, RecordMatrix, RecordTensor, Trace, WengertList};
use easy_ml::distributions::{Gaussian, MultivariateGaussian};
use easy_ml::linear_algebra;
use easy_ml::matrices::Matrix;
use easy_ml::numeric::extra::{Real, RealRef, Sqrt};
use easy_ml::numeric::{Numeric, NumericRef};
use easy_ml::tensors::Tensor;
use std::fmt::Display;

pub trait UElem: Numeric + easy_ml::differentiation::Primitive + Display + Sqrt<Output = Self> + 'static {
    const NAME: &'static str;
    fn parse(s: &str) -> Option<Self>;
}

impl UElem for Fp {
    const NAME: &'static str = "Fp";
    fn parse(s: &str) -> Option<Fp> {
        s.parse::<u64>().ok().map(Fp::new)
    }
}

impl UElem for Rat {
    const NAME: &'static str = "Rat";
    fn parse(s: &str) -> Option<Rat> {
        match s.split_once('/') {
            Some((n, d)) => Some(Rat::new(n.parse().ok()?, d.parse().ok()?)),
            None => Some(Rat::new(s.parse().ok()?, 1)),
        }
    }
}

fn parse_list<E: UElem>(s: &str) -> Option<Vec<E>> {
    split_comma(s).iter().map(|t| E::parse(t)).collect()
}

/// `RxC:v,v,…`
fn parse_mat<E: UElem>(s: &str) -> Option<(usize, usize, Vec<E>)> {
    let (dims, vals) = s.split_once(':')?;
    let (r, c) = dims.split_once('x')?;
    let (r, c) = (r.parse::<usize>().ok()?, c.parse::<usize>().ok()?);
    let v = parse_list::<E>(vals)?;
    if v.len() == r * c { Some((r, c, v)) } else { None }
}

fn show_list<E: Display>(v: &[E]) -> String {
    if v.is_empty() { "-".into() } else { v.iter().map(|x| x.to_string()).collect::<Vec<_>>().join(",") }
}

fn show_matrix<E: UElem>(m: &Matrix<E>) -> String {
    let v: Vec<E> = m.row_major_iter().collect();
    format!("{}x{}:{}", m.rows(), m.columns(), show_list(&v))
}

fn show_tensor2<E: UElem>(t: &Tensor<E, 2>) -> String {
    let sh = t.shape();
    let v: Vec<E> = t.iter().collect();
    format!("{}x{}:{}", sh[0].1, sh[1].1, show_list(&v))
}

fn mk_matrix<E: UElem>(a: &(usize, usize, Vec<E>)) -> Matrix<E> {
    Matrix::from_flat_row_major((a.0, a.1), a.2.clone())
}

fn mk_tensor<E: UElem>(a: &(usize, usize, Vec<E>)) -> Tensor<E, 2> {
    Tensor::from([("r", a.0), ("c", a.1)], a.2.clone())
}

fn opt<T>(o: Option<T>, f: impl Fn(&T) -> String) -> String {
    match o {
        Some(v) => format!("some({})", f(&v)),
        None => "none".into(),
    }
}

/// The routines that need only `Numeric` (+ `Sqrt` for Cholesky): run at `Fp` and at `Rat`.
fn run_numeric<E: UElem>(routine: &str, args: &[&str]) -> Option<String>
where
    for<'a> &'a E: NumericRef<E>,
{
    let m = |i: usize| args.get(i).and_then(|s| parse_mat::<E>(s));
    let e = |i: usize| args.get(i).and_then(|s| E::parse(s));
    let l = |i: usize| args.get(i).and_then(|s| parse_list::<E>(s));
    Some(match routine {
        // ---- Matrix operators (src/matrices/operations.rs) ----------------------------------
        "matrix_add" => show_matrix(&(&mk_matrix(&m(0)?) + &mk_matrix(&m(1)?))),
        "matrix_sub" => show_matrix(&(mk_matrix(&m(0)?) - &mk_matrix(&m(1)?))),
        "matrix_mul" => show_matrix(&(&mk_matrix(&m(0)?) * mk_matrix(&m(1)?))),
        "matrix_neg" => show_matrix(&(-&mk_matrix(&m(0)?))),
        "matrix_scalar_add" => show_matrix(&(&mk_matrix(&m(0)?) + &e(1)?)),
        "matrix_scalar_sub" => show_matrix(&(mk_matrix(&m(0)?) - e(1)?)),
        "matrix_scalar_mul" => show_matrix(&(&mk_matrix(&m(0)?) * e(1)?)),
        "matrix_scalar_div" => show_matrix(&(mk_matrix(&m(0)?) / &e(1)?)),
        // ---- Tensor operators (src/tensors/operations.rs) -----------------------------------
        "tensor_add" => show_tensor2(&(&mk_tensor(&m(0)?) + &mk_tensor(&m(1)?))),
        "tensor_sub" => show_tensor2(&(mk_tensor(&m(0)?) - &mk_tensor(&m(1)?))),
        "tensor_matmul" => {
            let a = mk_tensor(&m(0)?);
            let b = m(1)?;
            let b: Tensor<E, 2> = Tensor::from([("c", b.0), ("k", b.1)], b.2.clone());
            show_tensor2(&(&a * &b))
        }
        "tensor_scalar_add" => show_tensor2(&(&mk_tensor(&m(0)?) + &e(1)?)),
        "tensor_scalar_sub" => show_tensor2(&(mk_tensor(&m(0)?) - e(1)?)),
        "tensor_scalar_mul" => show_tensor2(&(&mk_tensor(&m(0)?) * e(1)?)),
        "tensor_scalar_div" => show_tensor2(&(mk_tensor(&m(0)?) / &e(1)?)),
        "tensor_scalar_product" => {
            let (a, b) = (l(0)?, l(1)?);
            let a: Tensor<E, 1> = Tensor::from([("i", a.len())], a);
            let b: Tensor<E, 1> = Tensor::from([("i", b.len())], b);
            a.scalar_product(&b).to_string()
        }
        // ---- linear algebra ---------------------------------------------------------------------
        "determinant" => opt(linear_algebra::determinant::<E>(&mk_matrix(&m(0)?)), |d| d.to_string()),
        "matrix_determinant" => opt(mk_matrix(&m(0)?).determinant(), |d| d.to_string()),
        "determinant_tensor" => opt(linear_algebra::determinant_tensor::<E, _, _>(&mk_tensor(&m(0)?)), |d| d.to_string()),
        "tensor_determinant" => opt(mk_tensor(&m(0)?).determinant(), |d| d.to_string()),
        "inverse" => opt(linear_algebra::inverse::<E>(&mk_matrix(&m(0)?)), show_matrix),
        "matrix_inverse" => opt(mk_matrix(&m(0)?).inverse(), show_matrix),
        "inverse_tensor" => opt(linear_algebra::inverse_tensor::<E, _, _>(&mk_tensor(&m(0)?)), show_tensor2),
        "tensor_inverse" => opt(mk_tensor(&m(0)?).inverse(), show_tensor2),
        "mean" => linear_algebra::mean(l(0)?.into_iter()).to_string(),
        "variance" => linear_algebra::variance(l(0)?.into_iter()).to_string(),
        "f1_score" => linear_algebra::f1_score(e(0)?, e(1)?).to_string(),
        "covariance_column_features" => show_matrix(&linear_algebra::covariance_column_features::<E>(&mk_matrix(&m(0)?))),
        "matrix_covariance_column_features" => show_matrix(&mk_matrix(&m(0)?).covariance_column_features()),
        "covariance_row_features" => show_matrix(&linear_algebra::covariance_row_features::<E>(&mk_matrix(&m(0)?))),
        "matrix_covariance_row_features" => show_matrix(&mk_matrix(&m(0)?).covariance_row_features()),
        // features along dimension "c" = column features, along "r" = row features
        "covariance_tensor_columns" => show_tensor2(&linear_algebra::covariance::<E, _, _>(&mk_tensor(&m(0)?), "c")),
        "covariance_tensor_rows" => show_tensor2(&mk_tensor(&m(0)?).covariance("r")),
        "cholesky_decomposition" => opt(linear_algebra::cholesky_decomposition::<E>(&mk_matrix(&m(0)?)), show_matrix),
        "cholesky_decomposition_tensor" => {
            opt(linear_algebra::cholesky_decomposition_tensor::<E, _, _>(&mk_tensor(&m(0)?)), show_tensor2)
        }
        "ldlt_decomposition" => match linear_algebra::ldlt_decomposition::<E>(&mk_matrix(&m(0)?)) {
            Some(d) => format!("some(l={} d={})", show_matrix(&d.l), show_matrix(&d.d)),
            None => "none".into(),
        },
        "ldlt_decomposition_tensor" => match linear_algebra::ldlt_decomposition_tensor::<E, _, _>(&mk_tensor(&m(0)?)) {
            Some(d) => format!("some(l={} d={})", show_tensor2(&d.l), show_tensor2(&d.d)),
            None => "none".into(),
        },
        // ---- automatic differentiation ------------------------------------------------------------
        "trace_derivative" => {
            // f(x) = (x*x + c) / (x - d) + x*c, with every operand form of Trace
            let (x, c, d) = (e(0)?, e(1)?, e(2)?);
            let f = |x: Trace<E>| {
                let v = &x - &d;
                (&x * &x + &c) / &v + &x * c.clone()
            };
            let y = f(Trace::variable(x));
            format!("value={} derivative={}", y.number, y.derivative)
        }
        "record_derivatives" => {
            // g(x, y) = x*y + x/y - y
            let (xv, yv) = (e(0)?, e(1)?);
            let list = WengertList::new();
            let x = Record::variable(xv, &list);
            let y = Record::variable(yv, &list);
            let z = &x * &y + &x / &y - &y;
            let d = z.derivatives();
            format!("value={} dx={} dy={}", z.number, d[&x], d[&y])
        }
        "record_container_derivatives" => {
            // the same g through 1x1 RecordMatrix and 1-element RecordTensor containers
            let (xv, yv) = (e(0)?, e(1)?);
            let list = WengertList::new();
            let x = RecordMatrix::variables(&list, Matrix::from_scalar(xv.clone()));
            let y = RecordMatrix::variables(&list, Matrix::from_scalar(yv.clone()));
            let z = x.elementwise_multiply(&y) + x.elementwise_divide(&y) - &y;
            let d = z.derivatives_for(0, 0)?;
            let zr = z.get_as_record(0, 0);
            let (dx, dy) = (d.at_matrix(&x), d.at_matrix(&y));
            let a = format!("value={} dx={} dy={}", zr.number, dx.get(0, 0), dy.get(0, 0));
            let list2 = WengertList::new();
            let xt = RecordTensor::variables(&list2, Tensor::from([("i", 1)], vec![xv]));
            let yt = RecordTensor::variables(&list2, Tensor::from([("i", 1)], vec![yv]));
            let zt = xt.elementwise_multiply(&yt) + xt.elementwise_divide(&yt) - &yt;
            let dt = zt.derivatives_for([0])?;
            let (dxt, dyt) = (dt.at_tensor(&xt), dt.at_tensor(&yt));
            let zv = zt.view().iter().next()?.0;
            let b = format!("value={} dx={} dy={}", zv, dxt.first(), dyt.first());
            if a == b { a } else { format!("containers-differ(matrix: {} tensor: {})", a, b) }
        }
        _ => return None,
    })
}

/// The routines that need `Real`: `Fp` only (`Rat` has no `exp`, `ln`, …).
fn run_real<E: UElem + Real>(routine: &str, args: &[&str]) -> Option<String>
where
    for<'a> &'a E: RealRef<E>,
{
    let m = |i: usize| args.get(i).and_then(|s| parse_mat::<E>(s));
    let e = |i: usize| args.get(i).and_then(|s| E::parse(s));
    let l = |i: usize| args.get(i).and_then(|s| parse_list::<E>(s));
    Some(match routine {
        "softmax" => show_list(&linear_algebra::softmax(l(0)?.into_iter())),
        // instantiated and executed only
        "qr_decomposition" => {
            let _ = linear_algebra::qr_decomposition::<E>(&mk_matrix(&m(0)?));
            "ran".into()
        }
        "qr_decomposition_tensor" => {
            let _ = linear_algebra::qr_decomposition_tensor::<E, _, _>(&mk_tensor(&m(0)?));
            "ran".into()
        }
        "gaussian_probability" => {
            let g = Gaussian::new(e(0)?, e(1)?);
            let _ = g.probability(&e(2)?);
            "ran".into()
        }
        "gaussian_draw" => {
            let g = Gaussian::new(e(0)?, e(1)?);
            let src = l(2)?;
            let _ = g.draw(&mut src.into_iter(), 2);
            "ran".into()
        }
        "multivariate_gaussian_draw" => {
            let mean = m(0)?;
            let cov = m(1)?;
            let g = MultivariateGaussian::new(mk_matrix(&mean), mk_matrix(&cov));
            let src = l(2)?;
            let _ = g.draw(&mut src.into_iter(), 1);
            "ran".into()
        }
        _ => return None,
    })
}

// ---------------------------------------------------------------------------------------------
// routines that convert a machine-size count into the element type (`T::from_usize`), at small
// wrapper element types with counts below, at and above the type's maximum
// ---------------------------------------------------------------------------------------------

/// Runs `f`; a panic with the documented message of the covariance routines ("… cannot represent
/// this many samples") is reported as such, any other panic by its kind.
fn catch_samples<T>(f: impl FnOnce() -> T) -> Result<T, String> {
    match std::panic::catch_unwind(std::panic::AssertUnwindSafe(f)) {
        Ok(v) => Ok(v),
        Err(payload) => {
            let msg = if let Some(s) = payload.downcast_ref::<&str>() {
                (*s).to_string()
            } else if let Some(s) = payload.downcast_ref::<String>() {
                s.clone()
            } else {
                String::new()
            };
            if msg.contains("cannot represent this many samples") {
                Err("panic(samples-not-representable)".into())
            } else {
                Err(panic_str(classify(&msg)))
            }
        }
    }
}

trait SmallWrap: Numeric + Copy + 'static {
    fn parse(s: &str) -> Option<Self>;
    fn show(&self) -> String;
}
macro_rules! small_wrap {
    ($($T:ty),*) => {$(
        impl SmallWrap for std::num::Wrapping<$T> {
            fn parse(s: &str) -> Option<Self> { s.parse::<$T>().ok().map(std::num::Wrapping) }
            fn show(&self) -> String { self.0.to_string() }
        }
    )*};
}
small_wrap!(i8, u8, i16);

fn run_counting<E: SmallWrap>(routine: &str, arg: &str) -> Option<String>
where
    for<'a> &'a E: NumericRef<E>,
{
    let (dims, vals) = arg.split_once(':')?;
    let (r, c) = dims.split_once('x')?;
    let (r, c) = (r.parse::<usize>().ok()?, c.parse::<usize>().ok()?);
    let data: Vec<E> = split_comma(vals).iter().map(|t| E::parse(t)).collect::<Option<_>>()?;
    if data.len() != r * c {
        return None;
    }
    let matrix = || Matrix::from_flat_row_major((r, c), data.clone());
    let tensor = || Tensor::from([("r", r), ("c", c)], data.clone());
    let show_m = |m: Matrix<E>| {
        let v: Vec<String> = m.row_major_iter().map(|x| x.show()).collect();
        format!("{}x{}:{}", m.rows(), m.columns(), v.join(","))
    };
    let show_t = |t: Tensor<E, 2>| {
        let sh = t.shape();
        let v: Vec<String> = t.iter().map(|x| x.show()).collect();
        format!("{}x{}:{}", sh[0].1, sh[1].1, v.join(","))
    };
    let res = match routine {
        "covariance_column_features" => catch_samples(|| show_m(linear_algebra::covariance_column_features::<E>(&matrix()))),
        "matrix_covariance_column_features" => catch_samples(|| show_m(matrix().covariance_column_features())),
        "covariance_row_features" => catch_samples(|| show_m(linear_algebra::covariance_row_features::<E>(&matrix()))),
        "matrix_covariance_row_features" => catch_samples(|| show_m(matrix().covariance_row_features())),
        "covariance_tensor_columns" => catch_samples(|| show_t(linear_algebra::covariance::<E, _, _>(&tensor(), "c"))),
        "covariance_tensor_rows" => catch_samples(|| show_t(tensor().covariance("r"))),
        _ => return None,
    };
    Some(match res {
        Ok(s) => s,
        Err(e) => e,
    })
}

pub fn run_wrapping(toks: &[&str]) -> String {
    if toks.len() != 3 {
        return "bad-op".into();
    }
    let r = match toks[1] {
        "wrapping_i8" => run_counting::<std::num::Wrapping<i8>>(toks[0], toks[2]),
        "wrapping_u8" => run_counting::<std::num::Wrapping<u8>>(toks[0], toks[2]),
        "wrapping_i16" => run_counting::<std::num::Wrapping<i16>>(toks[0], toks[2]),
        _ => None,
    };
    r.unwrap_or_else(|| "bad-op".into())
}

/// sample counts around the maximum of the element type
fn gen_counting(g: &mut Gen) {
    let routines_cols = ["covariance_column_features", "matrix_covariance_column_features", "covariance_tensor_columns"];
    let routines_rows = ["covariance_row_features", "matrix_covariance_row_features", "covariance_tensor_rows"];
    let plans: [(&str, i64, i64, Vec<usize>); 3] = [
        ("wrapping_i8", -128, 127, vec![1, 2, 126, 127, 128, 129, 255, 256, 257, 300]),
        ("wrapping_u8", 0, 255, vec![1, 2, 127, 128, 254, 255, 256, 257, 300, 511, 512, 513]),
        ("wrapping_i16", -32768, 32767, vec![32766, 32767, 32768, 32769]),
    ];
    for (elem, lo, hi, counts) in plans.iter() {
        for &n in counts {
            let feats = if *elem == "wrapping_i16" { 1 } else { g.rng.range(1, 2) };
            let vals: Vec<String> = (0..n * feats)
                .map(|_| {
                    if g.rng.chance(1, 2) { (g.rng.below(7) as i64 - 3).clamp(*lo, *hi).to_string() } else { (lo + g.rng.below((hi - lo + 1) as usize) as i64).to_string() }
                })
                .collect();
            let representable = (n as i64) <= *hi;
            // samples along the rows (column features) and along the columns (row features)
            let which: Vec<&str> = if *elem == "wrapping_i16" { vec![routines_cols[0], routines_rows[1], routines_cols[2]] } else { routines_cols.iter().chain(routines_rows.iter()).cloned().collect() };
            for routine in which {
                let (r, c) = if routines_cols.contains(&routine) { (n, feats) } else { (feats, n) };
                // the same numbers, laid out so that the sample dimension has length n
                g.op(format!("@ userw {} {} {}x{}:{}", routine, elem, r, c, vals.join(",")));
                g.count(&format!("count.{}.{}", routine, elem));
                g.count(if representable { "count.samples-representable" } else { "count.samples-NOT-representable" });
                g.count(&format!("count.{}.samples={}", elem, n));
            }
        }
    }
}

pub fn run(toks: &[&str]) -> String {
    if toks.len() < 2 {
        return "bad-op".into();
    }
    let (routine, ty, args) = (toks[0], toks[1], &toks[2..]);
    let r = catch(|| match ty {
        "Fp" => run_numeric::<Fp>(routine, args).or_else(|| run_real::<Fp>(routine, args)),
        "Rat" => run_numeric::<Rat>(routine, args),
        _ => None,
    });
    match r {
        Ok(Some(s)) => s,
        Ok(None) => "bad-op".into(),
        Err(k) => panic_str(k),
    }
}

// ---------------------------------------------------------------------------------------------
// generator
// ---------------------------------------------------------------------------------------------

fn rand_elem(g: &mut Gen, ty: &str) -> String {
    if ty == "Fp" {
        if g.rng.chance(1, 6) {
            g.rng.below(4).to_string()
        } else {
            (g.rng.next() % P).to_string()
        }
    } else {
        // small rationals (i128 arithmetic must not overflow in determinants of size 4)
        let n = g.rng.below(13) as i64 - 6;
        if g.rng.chance(1, 3) {
            let d = g.rng.range(2, 4) as i64;
            let r = Rat::new(n as i128, d as i128);
            r.to_string()
        } else {
            n.to_string()
        }
    }
}

fn rand_mat(g: &mut Gen, ty: &str, r: usize, c: usize) -> String {
    let v: Vec<String> = (0..r * c).map(|_| rand_elem(g, ty)).collect();
    format!("{}x{}:{}", r, c, if v.is_empty() { "-".to_string() } else { v.join(",") })
}

fn rand_list(g: &mut Gen, ty: &str, n: usize) -> String {
    (0..n).map(|_| rand_elem(g, ty)).collect::<Vec<_>>().join(",")
}

/// A = M Mᵀ (+ optional defect) for a lower triangular M with positive diagonal: symmetric
/// positive definite, so Cholesky succeeds (over `Rat` with exactly `L = M`).
fn spd_mat(g: &mut Gen, ty: &str, n: usize, breakit: bool) -> String {
    if ty == "Fp" {
        // no notion of definiteness: a random symmetric matrix exercises both outcomes
        let mut a = vec![vec![0u64; n]; n];
        for i in 0..n {
            for j in 0..=i {
                let v = g.rng.next() % P;
                a[i][j] = v;
                a[j][i] = v;
            }
        }
        let flat: Vec<String> = a.iter().flatten().map(|x| x.to_string()).collect();
        return format!("{}x{}:{}", n, n, flat.join(","));
    }
    let mut m = vec![vec![Rat::int(0); n]; n];
    for i in 0..n {
        for j in 0..=i {
            m[i][j] = if i == j {
                Rat::new(g.rng.range(1, 3) as i128, g.rng.range(1, 2) as i128)
            } else {
                Rat::new(g.rng.below(5) as i128 - 2, g.rng.range(1, 2) as i128)
            };
        }
    }
    let mut a = vec![vec![Rat::int(0); n]; n];
    for i in 0..n {
        for j in 0..n {
            let mut s = Rat::int(0);
            for k in 0..n {
                s = s + &m[i][k] * &m[j][k];
            }
            a[i][j] = s;
        }
    }
    if breakit {
        // make a leading pivot non-positive: not positive definite
        let k = g.rng.below(n);
        a[k][k] = Rat::int(-(g.rng.below(3) as i64));
    }
    let flat: Vec<String> = a.iter().flatten().map(|x| x.to_string()).collect();
    format!("{}x{}:{}", n, n, flat.join(","))
}

pub fn gen(g: &mut Gen) {
    gen_counting(g);
    let reps = if g.thorough { 40 } else { 6 };
    for ty in ["Fp", "Rat"] {
        let mut emit = |g: &mut Gen, routine: &str, args: String| {
            g.op(format!("@ user {} {} {}", routine, ty, args));
            g.count(&format!("user.{}.{}", routine, ty));
            g.count("user.cases");
        };
        for _ in 0..reps {
            let (r, k, c) = (g.rng.range(1, 3), g.rng.range(1, 3), g.rng.range(1, 3));
            for routine in ["matrix_add", "matrix_sub", "tensor_add", "tensor_sub"] {
                let args = format!("{} {}", rand_mat(g, ty, r, c), rand_mat(g, ty, r, c));
                emit(g, routine, args);
            }
            for routine in ["matrix_mul", "tensor_matmul"] {
                let args = format!("{} {}", rand_mat(g, ty, r, k), rand_mat(g, ty, k, c));
                emit(g, routine, args);
            }
            for routine in ["matrix_neg"] {
                let args = rand_mat(g, ty, r, c);
                emit(g, routine, args);
            }
            for routine in [
                "matrix_scalar_add", "matrix_scalar_sub", "matrix_scalar_mul", "matrix_scalar_div",
                "tensor_scalar_add", "tensor_scalar_sub", "tensor_scalar_mul", "tensor_scalar_div",
            ] {
                let args = format!("{} {}", rand_mat(g, ty, r, c), rand_elem(g, ty));
                emit(g, routine, args);
            }
            let n = g.rng.range(1, 4);
            let args = format!("{} {}", rand_list(g, ty, n), rand_list(g, ty, n));
            emit(g, "tensor_scalar_product", args);
            let n = g.rng.range(1, 4);
            for routine in [
                "determinant", "matrix_determinant", "determinant_tensor", "tensor_determinant", "inverse",
                "matrix_inverse", "inverse_tensor", "tensor_inverse",
            ] {
                // now and then a singular matrix (two equal rows)
                let mut a = rand_mat(g, ty, n, n);
                if n >= 2 && g.rng.chance(1, 5) {
                    let (_, vals) = a.split_once(':').unwrap();
                    let v: Vec<&str> = vals.split(',').collect();
                    let mut w: Vec<String> = v.iter().map(|s| s.to_string()).collect();
                    for j in 0..n {
                        w[n + j] = w[j].clone();
                    }
                    a = format!("{}x{}:{}", n, n, w.join(","));
                    g.count("user.singular-input");
                }
                emit(g, routine, a);
            }
            let n = g.rng.range(1, 5);
            let args = rand_list(g, ty, n);
            emit(g, "mean", args);
            let args = rand_list(g, ty, n);
            emit(g, "variance", args);
            let args = format!("{} {}", rand_elem(g, ty), rand_elem(g, ty));
            emit(g, "f1_score", args);
            let (r, c) = (g.rng.range(1, 3), g.rng.range(1, 3));
            for routine in [
                "covariance_column_features", "matrix_covariance_column_features", "covariance_row_features",
                "matrix_covariance_row_features", "covariance_tensor_columns", "covariance_tensor_rows",
            ] {
                let args = rand_mat(g, ty, r, c);
                emit(g, routine, args);
            }
            let n = g.rng.range(1, 3);
            for routine in [
                "cholesky_decomposition", "cholesky_decomposition_tensor", "ldlt_decomposition",
                "ldlt_decomposition_tensor",
            ] {
                let breakit = g.rng.chance(1, 4);
                let args = spd_mat(g, ty, n, breakit);
                emit(g, routine, args);
            }
            let args = format!("{} {} {}", rand_elem(g, ty), rand_elem(g, ty), rand_elem(g, ty));
            emit(g, "trace_derivative", args);
            for routine in ["record_derivatives", "record_container_derivatives"] {
                let args = format!("{} {}", rand_elem(g, ty), rand_elem(g, ty));
                emit(g, routine, args);
            }
            if ty == "Fp" {
                let n = g.rng.range(1, 4);
                let args = rand_list(g, ty, n);
                emit(g, "softmax", args);
            }
        }
        if ty == "Fp" {
            // Real-bounded routines that are instantiated and executed only
            let a = rand_mat(g, ty, 3, 2);
            emit(g, "qr_decomposition", a.clone());
            emit(g, "qr_decomposition_tensor", a);
            let args = format!("{} {} {}", rand_elem(g, ty), rand_elem(g, ty), rand_elem(g, ty));
            emit(g, "gaussian_probability", args);
            let args = format!("{} {} {}", rand_elem(g, ty), rand_elem(g, ty), rand_list(g, ty, 8));
            emit(g, "gaussian_draw", args);
            let args = format!("{} {} {}", rand_mat(g, ty, 2, 1), spd_mat(g, ty, 2, false), rand_list(g, ty, 8));
            emit(g, "multivariate_gaussian_draw", args);
        }
    }
}
