//! C19, user-defined element types (stub; filled in below)
use crate::util::*;

pub fn gen(_g: &mut Gen) {}

pub fn run(_toks: &[&str]) -> String {
    "bad-op".into()
}
