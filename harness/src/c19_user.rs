//! C19 — "any user type supplying the same operations can be used as an element type everywhere
//! a numeric type is accepted, and the library's result on it is identical to evaluating the
//! documented formula directly on that type".
//!
//! The user-defined exact types `exact::Fp` (prime field) and `exact::Rat` (rationals) are
//! instantiated here at every generic numeric routine of the crate that can be reached through
//! its public API (that this file compiles is the compile-time part of the claim; the catalogue
//! is listed in the evidence through the `#stat user.<routine>.<type>` lines).  Each routine is
//! run on generated inputs and the result is printed; the Lean side (Driver/C19User.lean)
//! evaluates the documented formula at its own `Fp` / `Rat`.
//!
//!   @ user <routine> <Fp|Rat> <arg> …      matrices `RxC:v,…` (row major), lists `v,…`
//!
//! Routines whose documented formula goes through uninterpreted real functions in an
//! algorithm-specific way (QR, the Gaussian density and draws) are instantiated and executed
//! only (answer `ran`); their formulas are the business of C08 / C17.

use crate::exact::{Fp, Rat, P};
use crate::util::*;
use easy_ml::differentiation::{Record, RecordMatrix, RecordTensor, Trace, WengertList};
use easy_ml::distributions::{Gaussian, MultivariateGaussian};
use easy_ml::linear_algebra;
use easy_ml::matrices::Matrix;
use easy_ml::numeric::extra::{Real, RealRef, Sqrt};
use easy_ml::numeric::{Numeric, NumericRef};
use easy_ml::tensors::Tensor;
use std::fmt::Display;

pub trait UElem: Numeric + easy_ml::differentiation::Primitive + Display + Sqrt<Output = Self> + 'static {
    const NAME: &'static str;
    fn parse(s: &str) -> Option<Self>;
}

impl UElem for Fp {
    const NAME: &'static str = "Fp";
    fn parse(s: &str) -> Option<Fp> {
        s.parse::<u64>().ok().map(Fp::new)
    }
}

impl UElem for Rat {
    const NAME: &'static str = "Rat";
    fn parse(s: &str) -> Option<Rat> {
        match s.split_once('/') {
            Some((n, d)) => Some(Rat::new(n.parse().ok()?, d.parse().ok()?)),
            None => Some(Rat::new(s.parse().ok()?, 1)),
        }
    }
}

fn parse_list<E: UElem>(s: &str) -> Option<Vec<E>> {
    split_comma(s).iter().map(|t| E::parse(t)).collect()
}

/// `RxC:v,v,…`
fn parse_mat<E: UElem>(s: &str) -> Option<(usize, usize, Vec<E>)> {
    let (dims, vals) = s.split_once(':')?;
    let (r, c) = dims.split_once('x')?;
    let (r, c) = (r.parse::<usize>().ok()?, c.parse::<usize>().ok()?);
    let v = parse_list::<E>(vals)?;
    if v.len() == r * c { Some((r, c, v)) } else { None }
}

fn show_list<E: Display>(v: &[E]) -> String {
    if v.is_empty() { "-".into() } else { v.iter().map(|x| x.to_string()).collect::<Vec<_>>().join(",") }
}

fn show_matrix<E: UElem>(m: &Matrix<E>) -> String {
    let v: Vec<E> = m.row_major_iter().collect();
    format!("{}x{}:{}", m.rows(), m.columns(), show_list(&v))
}

fn show_tensor2<E: UElem>(t: &Tensor<E, 2>) -> String {
    let sh = t.shape();
    let v: Vec<E> = t.iter().collect();
    format!("{}x{}:{}", sh[0].1, sh[1].1, show_list(&v))
}

fn mk_matrix<E: UElem>(a: &(usize, usize, Vec<E>)) -> Matrix<E> {
    Matrix::from_flat_row_major((a.0, a.1), a.2.clone())
}

fn mk_tensor<E: UElem>(a: &(usize, usize, Vec<E>)) -> Tensor<E, 2> {
    Tensor::from([("r", a.0), ("c", a.1)], a.2.clone())
}

fn opt<T>(o: Option<T>, f: impl Fn(&T) -> String) -> String {
    match o {
        Some(v) => format!("some({})", f(&v)),
        None => "none".into(),
    }
}

/// The routines that need only `Numeric` (+ `Sqrt` for Cholesky): run at `Fp` and at `Rat`.
fn run_numeric<E: UElem>(routine: &str, args: &[&str]) -> Option<String>
where
    for<'a> &'a E: NumericRef<E>,
{
    let m = |i: usize| args.get(i).and_then(|s| parse_mat::<E>(s));
    let e = |i: usize| args.get(i).and_then(|s| E::parse(s));
    let l = |i: usize| args.get(i).and_then(|s| parse_list::<E>(s));
    Some(match routine {
        // ---- Matrix operators (src/matrices/operations.rs) ----------------------------------
        "matrix_add" => show_matrix(&(&mk_matrix(&m(0)?) + &mk_matrix(&m(1)?))),
        "matrix_sub" => show_matrix(&(mk_matrix(&m(0)?) - &mk_matrix(&m(1)?))),
        "matrix_mul" => show_matrix(&(&mk_matrix(&m(0)?) * mk_matrix(&m(1)?))),
        "matrix_neg" => show_matrix(&(-&mk_matrix(&m(0)?))),
        "matrix_scalar_add" => show_matrix(&(&mk_matrix(&m(0)?) + &e(1)?)),
        "matrix_scalar_sub" => show_matrix(&(mk_matrix(&m(0)?) - e(1)?)),
        "matrix_scalar_mul" => show_matrix(&(&mk_matrix(&m(0)?) * e(1)?)),
        "matrix_scalar_div" => show_matrix(&(mk_matrix(&m(0)?) / &e(1)?)),
        // ---- Tensor operators (src/tensors/operations.rs) -----------------------------------
        "tensor_add" => show_tensor2(&(&mk_tensor(&m(0)?) + &mk_tensor(&m(1)?))),
        "tensor_sub" => show_tensor2(&(mk_tensor(&m(0)?) - &mk_tensor(&m(1)?))),
        "tensor_matmul" => {
            let a = mk_tensor(&m(0)?);
            let b = m(1)?;
            let b: Tensor<E, 2> = Tensor::from([("c", b.0), ("k", b.1)], b.2.clone());
            show_tensor2(&(&a * &b))
        }
        "tensor_scalar_add" => show_tensor2(&(&mk_tensor(&m(0)?) + &e(1)?)),
        "tensor_scalar_sub" => show_tensor2(&(mk_tensor(&m(0)?) - e(1)?)),
        "tensor_scalar_mul" => show_tensor2(&(&mk_tensor(&m(0)?) * e(1)?)),
        "tensor_scalar_div" => show_tensor2(&(mk_tensor(&m(0)?) / &e(1)?)),
        "tensor_scalar_product" => {
            let (a, b) = (l(0)?, l(1)?);
            let a: Tensor<E, 1> = Tensor::from([("i", a.len())], a);
            let b: Tensor<E, 1> = Tensor::from([("i", b.len())], b);
            a.scalar_product(&b).to_string()
        }
        // ---- linear algebra ---------------------------------------------------------------------
        "determinant" => opt(linear_algebra::determinant::<E>(&mk_matrix(&m(0)?)), |d| d.to_string()),
        "matrix_determinant" => opt(mk_matrix(&m(0)?).determinant(), |d| d.to_string()),
        "determinant_tensor" => opt(linear_algebra::determinant_tensor::<E, _, _>(&mk_tensor(&m(0)?)), |d| d.to_string()),
        "tensor_determinant" => opt(mk_tensor(&m(0)?).determinant(), |d| d.to_string()),
        "inverse" => opt(linear_algebra::inverse::<E>(&mk_matrix(&m(0)?)), show_matrix),
        "matrix_inverse" => opt(mk_matrix(&m(0)?).inverse(), show_matrix),
        "inverse_tensor" => opt(linear_algebra::inverse_tensor::<E, _, _>(&mk_tensor(&m(0)?)), show_tensor2),
        "tensor_inverse" => opt(mk_tensor(&m(0)?).inverse(), show_tensor2),
        "mean" => linear_algebra::mean(l(0)?.into_iter()).to_string(),
        "variance" => linear_algebra::variance(l(0)?.into_iter()).to_string(),
        "f1_score" => linear_algebra::f1_score(e(0)?, e(1)?).to_string(),
        "covariance_column_features" => show_matrix(&linear_algebra::covariance_column_features::<E>(&mk_matrix(&m(0)?))),
        "matrix_covariance_column_features" => show_matrix(&mk_matrix(&m(0)?).covariance_column_features()),
        "covariance_row_features" => show_matrix(&linear_algebra::covariance_row_features::<E>(&mk_matrix(&m(0)?))),
        "matrix_covariance_row_features" => show_matrix(&mk_matrix(&m(0)?).covariance_row_features()),
        // features along dimension "c" = column features, along "r" = row features
        "covariance_tensor_columns" => show_tensor2(&linear_algebra::covariance::<E, _, _>(&mk_tensor(&m(0)?), "c")),
        "covariance_tensor_rows" => show_tensor2(&mk_tensor(&m(0)?).covariance("r")),
        "cholesky_decomposition" => opt(linear_algebra::cholesky_decomposition::<E>(&mk_matrix(&m(0)?)), show_matrix),
        "cholesky_decomposition_tensor" => {
            opt(linear_algebra::cholesky_decomposition_tensor::<E, _, _>(&mk_tensor(&m(0)?)), show_tensor2)
        }
        "ldlt_decomposition" => match linear_algebra::ldlt_decomposition::<E>(&mk_matrix(&m(0)?)) {
            Some(d) => format!("some(l={} d={})", show_matrix(&d.l), show_matrix(&d.d)),
            None => "none".into(),
        },
        "ldlt_decomposition_tensor" => match linear_algebra::ldlt_decomposition_tensor::<E, _, _>(&mk_tensor(&m(0)?)) {
            Some(d) => format!("some(l={} d={})", show_tensor2(&d.l), show_tensor2(&d.d)),
            None => "none".into(),
        },
        // ---- automatic differentiation ------------------------------------------------------------
        "trace_derivative" => {
            // f(x) = (x*x + c) / (x - d) + x*c, with every operand form of Trace
            let (x, c, d) = (e(0)?, e(1)?, e(2)?);
            let f = |x: Trace<E>| {
                let v = &x - &d;
                (&x * &x + &c) / &v + &x * c.clone()
            };
            let y = f(Trace::variable(x));
            format!("value={} derivative={}", y.number, y.derivative)
        }
        "record_derivatives" => {
            // g(x, y) = x*y + x/y - y
            let (xv, yv) = (e(0)?, e(1)?);
            let list = WengertList::new();
            let x = Record::variable(xv, &list);
            let y = Record::variable(yv, &list);
            let z = &x * &y + &x / &y - &y;
            let d = z.derivatives();
            format!("value={} dx={} dy={}", z.number, d[&x], d[&y])
        }
        "record_container_derivatives" => {
            // the same g through 1x1 RecordMatrix and 1-element RecordTensor containers
            let (xv, yv) = (e(0)?, e(1)?);
            let list = WengertList::new();
            let x = RecordMatrix::variables(&list, Matrix::from_scalar(xv.clone()));
            let y = RecordMatrix::variables(&list, Matrix::from_scalar(yv.clone()));
            let z = x.elementwise_multiply(&y) + x.elementwise_divide(&y) - &y;
            let d = z.derivatives_for(0, 0)?;
            let zr = z.get_as_record(0, 0);
            let (dx, dy) = (d.at_matrix(&x), d.at_matrix(&y));
            let a = format!("value={} dx={} dy={}", zr.number, dx.get(0, 0), dy.get(0, 0));
            let list2 = WengertList::new();
            let xt = RecordTensor::variables(&list2, Tensor::from([("i", 1)], vec![xv]));
            let yt = RecordTensor::variables(&list2, Tensor::from([("i", 1)], vec![yv]));
            let zt = xt.elementwise_multiply(&yt) + xt.elementwise_divide(&yt) - &yt;
            let dt = zt.derivatives_for([0])?;
            let (dxt, dyt) = (dt.at_tensor(&xt), dt.at_tensor(&yt));
            let zv = zt.view().iter().next()?.0;
            let b = format!("value={} dx={} dy={}", zv, dxt.first(), dyt.first());
            if a == b { a } else { format!("containers-differ(matrix: {} tensor: {})", a, b) }
        }
        _ => return None,
    })
}

/// The routines that need `Real`: `Fp` only (`Rat` has no `exp`, `ln`, …).
fn run_real<E: UElem + Real>(routine: &str, args: &[&str]) -> Option<String>
where
    for<'a> &'a E: RealRef<E>,
{
    let m = |i: usize| args.get(i).and_then(|s| parse_mat::<E>(s));
    let e = |i: usize| args.get(i).and_then(|s| E::parse(s));
    let l = |i: usize| args.get(i).and_then(|s| parse_list::<E>(s));
    Some(match routine {
        "softmax" => show_list(&linear_algebra::softmax(l(0)?.into_iter())),
        // instantiated and executed only
        "qr_decomposition" => {
            let _ = linear_algebra::qr_decomposition::<E>(&mk_matrix(&m(0)?));
            "ran".into()
        }
        "qr_decomposition_tensor" => {
            let _ = linear_algebra::qr_decomposition_tensor::<E, _, _>(&mk_tensor(&m(0)?));
            "ran".into()
        }
        "gaussian_probability" => {
            let g = Gaussian::new(e(0)?, e(1)?);
            let _ = g.probability(&e(2)?);
            "ran".into()
        }
        "gaussian_draw" => {
            let g = Gaussian::new(e(0)?, e(1)?);
            let src = l(2)?;
            let _ = g.draw(&mut src.into_iter(), 2);
            "ran".into()
        }
        "multivariate_gaussian_draw" => {
            let mean = m(0)?;
            let cov = m(1)?;
            let g = MultivariateGaussian::new(mk_matrix(&mean), mk_matrix(&cov));
            let src = l(2)?;
            let _ = g.draw(&mut src.into_iter(), 1);
            "ran".into()
        }
        _ => return None,
    })
}

// ---------------------------------------------------------------------------------------------
// routines that convert a machine-size count into the element type (`T::from_usize`), at small
// wrapper element types with counts below, at and above the type's maximum
// ---------------------------------------------------------------------------------------------

/// Runs `f`; a panic with the documented message of the covariance routines ("… cannot represent
/// this many samples") is reported as such, any other panic by its kind.
fn catch_samples<T>(f: impl FnOnce() -> T) -> Result<T, String> {
    match std::panic::catch_unwind(std::panic::AssertUnwindSafe(f)) {
        Ok(v) => Ok(v),
        Err(payload) => {
            let msg = if let Some(s) = payload.downcast_ref::<&str>() {
                (*s).to_string()
            } else if let Some(s) = payload.downcast_ref::<String>() {
                s.clone()
            } else {
                String::new()
            };
            if msg.contains("cannot represent this many samples") {
                Err("panic(samples-not-representable)".into())
            } else {
                Err(panic_str(classify(&msg)))
            }
        }
    }
}

trait SmallWrap: Numeric + Copy + 'static {
    fn parse(s: &str) -> Option<Self>;
    fn show(&self) -> String;
}
macro_rules! small_wrap {
    ($($T:ty),*) => {$(
        impl SmallWrap for std::num::Wrapping<$T> {
            fn parse(s: &str) -> Option<Self> { s.parse::<$T>().ok().map(std::num::Wrapping) }
            fn show(&self) -> String { self.0.to_string() }
        }
    )*};
}
small_wrap!(i8, u8, i16);

fn run_counting<E: SmallWrap>(routine: &str, arg: &str) -> Option<String>
where
    for<'a> &'a E: NumericRef<E>,
{
    let (dims, vals) = arg.split_once(':')?;
    let (r, c) = dims.split_once('x')?;
    let (r, c) = (r.parse::<usize>().ok()?, c.parse::<usize>().ok()?);
    let data: Vec<E> = split_comma(vals).iter().map(|t| E::parse(t)).collect::<Option<_>>()?;
    if data.len() != r * c {
        return None;
    }
    let matrix = || Matrix::from_flat_row_major((r, c), data.clone());
    let tensor = || Tensor::from([("r", r), ("c", c)], data.clone());
    let show_m = |m: Matrix<E>| {
        let v: Vec<String> = m.row_major_iter().map(|x| x.show()).collect();
        format!("{}x{}:{}", m.rows(), m.columns(), v.join(","))
    };
    let show_t = |t: Tensor<E, 2>| {
        let sh = t.shape();
        let v: Vec<String> = t.iter().map(|x| x.show()).collect();
        format!("{}x{}:{}", sh[0].1, sh[1].1, v.join(","))
    };
    let res = match routine {
        "covariance_column_features" => catch_samples(|| show_m(linear_algebra::covariance_column_features::<E>(&matrix()))),
        "matrix_covariance_column_features" => catch_samples(|| show_m(matrix().covariance_column_features())),
        "covariance_row_features" => catch_samples(|| show_m(linear_algebra::covariance_row_features::<E>(&matrix()))),
        "matrix_covariance_row_features" => catch_samples(|| show_m(matrix().covariance_row_features())),
        "covariance_tensor_columns" => catch_samples(|| show_t(linear_algebra::covariance::<E, _, _>(&tensor(), "c"))),
        "covariance_tensor_rows" => catch_samples(|| show_t(tensor().covariance("r"))),
        _ => return None,
    };
    Some(match res {
        Ok(s) => s,
        Err(e) => e,
    })
}

pub fn run_wrapping(toks: &[&str]) -> String {
    if toks.len() != 3 {
        return "bad-op".into();
    }
    let r = match toks[1] {
        "wrapping_i8" => run_counting::<std::num::Wrapping<i8>>(toks[0], toks[2]),
        "wrapping_u8" => run_counting::<std::num::Wrapping<u8>>(toks[0], toks[2]),
        "wrapping_i16" => run_counting::<std::num::Wrapping<i16>>(toks[0], toks[2]),
        _ => None,
    };
    r.unwrap_or_else(|| "bad-op".into())
}

/// sample counts around the maximum of the element type
fn gen_counting(g: &mut Gen) {
    let routines_cols = ["covariance_column_features", "matrix_covariance_column_features", "covariance_tensor_columns"];
    let routines_rows = ["covariance_row_features", "matrix_covariance_row_features", "covariance_tensor_rows"];
    let plans: [(&str, i64, i64, Vec<usize>); 3] = [
        ("wrapping_i8", -128, 127, vec![1, 2, 126, 127, 128, 129, 255, 256, 257, 300]),
        ("wrapping_u8", 0, 255, vec![1, 2, 127, 128, 254, 255, 256, 257, 300, 511, 512, 513]),
        ("wrapping_i16", -32768, 32767, vec![32766, 32767, 32768, 32769]),
    ];
    for (elem, lo, hi, counts) in plans.iter() {
        for &n in counts {
            let feats = if *elem == "wrapping_i16" { 1 } else { g.rng.range(1, 2) };
            let vals: Vec<String> = (0..n * feats)
                .map(|_| {
                    if g.rng.chance(1, 2) { (g.rng.below(7) as i64 - 3).clamp(*lo, *hi).to_string() } else { (lo + g.rng.below((hi - lo + 1) as usize) as i64).to_string() }
                })
                .collect();
            let representable = (n as i64) <= *hi;
            // samples along the rows (column features) and along the columns (row features)
            let which: Vec<&str> = if *elem == "wrapping_i16" { vec![routines_cols[0], routines_rows[1], routines_cols[2]] } else { routines_cols.iter().chain(routines_rows.iter()).cloned().collect() };
            for routine in which {
                let (r, c) = if routines_cols.contains(&routine) { (n, feats) } else { (feats, n) };
                // the same numbers, laid out so that the sample dimension has length n
                g.op(format!("@ userw {} {} {}x{}:{}", routine, elem, r, c, vals.join(",")));
                g.count(&format!("count.{}.{}", routine, elem));
                g.count(if representable { "count.samples-representable" } else { "count.samples-NOT-representable" });
                g.count(&format!("count.{}.samples={}", elem, n));
            }
        }
    }
}

// ---------------------------------------------------------------------------------------------
// element types whose equality is coarser than identity: value + derivative part
// ---------------------------------------------------------------------------------------------

/// A user-defined dual number `v + d·ε` over an exact field: arithmetic by the product / quotient
/// rules, `sqrt` by `d / (2 sqrt v)`, and — like `Trace` and `Record` — `PartialEq` / `PartialOrd`
/// on the value only.
macro_rules! dual_type {
    ($D:ident, $B:ty) => {
        #[derive(Clone, Debug)]
        pub struct $D {
            pub v: $B,
            pub d: $B,
        }
        impl PartialEq for $D {
            fn eq(&self, o: &$D) -> bool { self.v == o.v }
        }
        impl PartialOrd for $D {
            fn partial_cmp(&self, o: &$D) -> Option<std::cmp::Ordering> { self.v.partial_cmp(&o.v) }
        }
        impl easy_ml::numeric::ZeroOne for $D {
            fn zero() -> $D { $D { v: <$B as easy_ml::numeric::ZeroOne>::zero(), d: <$B as easy_ml::numeric::ZeroOne>::zero() } }
            fn one() -> $D { $D { v: <$B as easy_ml::numeric::ZeroOne>::one(), d: <$B as easy_ml::numeric::ZeroOne>::zero() } }
        }
        impl easy_ml::numeric::FromUsize for $D {
            fn from_usize(n: usize) -> Option<$D> {
                Some($D { v: <$B as easy_ml::numeric::FromUsize>::from_usize(n)?, d: <$B as easy_ml::numeric::ZeroOne>::zero() })
            }
        }
        impl std::iter::Sum for $D {
            fn sum<I: Iterator<Item = $D>>(i: I) -> $D {
                i.fold(<$D as easy_ml::numeric::ZeroOne>::zero(), |a, b| a + b)
            }
        }
        impl $D {
            fn add_(a: &$D, b: &$D) -> $D { $D { v: &a.v + &b.v, d: &a.d + &b.d } }
            fn sub_(a: &$D, b: &$D) -> $D { $D { v: &a.v - &b.v, d: &a.d - &b.d } }
            fn mul_(a: &$D, b: &$D) -> $D { $D { v: &a.v * &b.v, d: &a.d * &b.v + &a.v * &b.d } }
            fn div_(a: &$D, b: &$D) -> $D {
                $D { v: &a.v / &b.v, d: (&a.d * &b.v - &a.v * &b.d) / (&b.v * &b.v) }
            }
            fn sqrt_(a: &$D) -> $D {
                let r = a.v.clone().sqrt();
                let two = <$B as easy_ml::numeric::ZeroOne>::one() + <$B as easy_ml::numeric::ZeroOne>::one();
                $D { v: r.clone(), d: &a.d / (two * r) }
            }
        }
        dual_ops!($D, Add, add, add_);
        dual_ops!($D, Sub, sub, sub_);
        dual_ops!($D, Mul, mul, mul_);
        dual_ops!($D, Div, div, div_);
        impl std::ops::Neg for $D {
            type Output = $D;
            fn neg(self) -> $D { $D { v: -self.v, d: -self.d } }
        }
        impl<'a> std::ops::Neg for &'a $D {
            type Output = $D;
            fn neg(self) -> $D { $D { v: -&self.v, d: -&self.d } }
        }
        impl Sqrt for $D {
            type Output = $D;
            fn sqrt(self) -> $D { $D::sqrt_(&self) }
        }
        impl<'a> Sqrt for &'a $D {
            type Output = $D;
            fn sqrt(self) -> $D { $D::sqrt_(self) }
        }
    };
}
macro_rules! dual_ops {
    ($D:ident, $Trait:ident, $method:ident, $f:ident) => {
        impl std::ops::$Trait<$D> for $D {
            type Output = $D;
            fn $method(self, r: $D) -> $D { $D::$f(&self, &r) }
        }
        impl<'a> std::ops::$Trait<&'a $D> for $D {
            type Output = $D;
            fn $method(self, r: &$D) -> $D { $D::$f(&self, r) }
        }
        impl<'a> std::ops::$Trait<$D> for &'a $D {
            type Output = $D;
            fn $method(self, r: $D) -> $D { $D::$f(self, &r) }
        }
        impl<'a, 'b> std::ops::$Trait<&'b $D> for &'a $D {
            type Output = $D;
            fn $method(self, r: &$D) -> $D { $D::$f(self, r) }
        }
    };
}
dual_type!(DualFp, Fp);
dual_type!(DualRat, Rat);

/// parse `v~d` with the base type's parser
fn split_dual(s: &str) -> Option<(&str, &str)> {
    match s.split_once('~') {
        Some((v, d)) => Some((v, d)),
        None => Some((s, "0")),
    }
}

/// The routines of linear_algebra.rs (and the matrix / tensor products) at an element type given by
/// its parser and printer — so that `Record<'a, Fp>`, which is not `'static`, fits as well.
fn run_coarse<E>(routine: &str, args: &[&str], parse: &dyn Fn(&str) -> Option<E>, show: &dyn Fn(&E) -> String) -> Option<String>
where
    E: Numeric + Sqrt<Output = E>,
    for<'x> &'x E: NumericRef<E>,
{
    let list_of = |s: &str| -> Option<Vec<E>> { split_comma(s).iter().map(|t| parse(t)).collect() };
    let mat = |i: usize| -> Option<Matrix<E>> {
        let (dims, vals) = args.get(i)?.split_once(':')?;
        let (r, c) = dims.split_once('x')?;
        let (r, c) = (r.parse::<usize>().ok()?, c.parse::<usize>().ok()?);
        let v = list_of(vals)?;
        if v.len() == r * c { Some(Matrix::from_flat_row_major((r, c), v)) } else { None }
    };
    let show_m = |m: &Matrix<E>| {
        let v: Vec<String> = m.row_major_iter().map(|x| show(&x)).collect();
        format!("{}x{}:{}", m.rows(), m.columns(), if v.is_empty() { "-".to_string() } else { v.join(",") })
    };
    let opt_m = |o: Option<Matrix<E>>| match o {
        Some(m) => format!("some({})", show_m(&m)),
        None => "none".to_string(),
    };
    Some(match routine {
        "matrix_mul" => show_m(&(&mat(0)? * &mat(1)?)),
        "matrix_add" => show_m(&(&mat(0)? + &mat(1)?)),
        "matrix_sub" => show_m(&(&mat(0)? - &mat(1)?)),
        "tensor_scalar_product" => {
            let (a, b) = (list_of(args.first()?)?, list_of(args.get(1)?)?);
            let a: Tensor<E, 1> = Tensor::from([("i", a.len())], a);
            let b: Tensor<E, 1> = Tensor::from([("i", b.len())], b);
            show(&a.scalar_product(&b))
        }
        "determinant" => match linear_algebra::determinant::<E>(&mat(0)?) {
            Some(d) => format!("some({})", show(&d)),
            None => "none".into(),
        },
        "inverse" => opt_m(linear_algebra::inverse::<E>(&mat(0)?)),
        "cholesky_decomposition" => opt_m(linear_algebra::cholesky_decomposition::<E>(&mat(0)?)),
        "ldlt_decomposition" => match linear_algebra::ldlt_decomposition::<E>(&mat(0)?) {
            Some(d) => format!("some(l={} d={})", show_m(&d.l), show_m(&d.d)),
            None => "none".into(),
        },
        "covariance_column_features" => show_m(&linear_algebra::covariance_column_features::<E>(&mat(0)?)),
        "covariance_row_features" => show_m(&linear_algebra::covariance_row_features::<E>(&mat(0)?)),
        "mean" => show(&linear_algebra::mean(list_of(args.first()?)?.into_iter())),
        "variance" => show(&linear_algebra::variance(list_of(args.first()?)?.into_iter())),
        "f1_score" => show(&linear_algebra::f1_score(parse(args.first()?)?, parse(args.get(1)?)?)),
        _ => return None,
    })
}

fn run_dual(routine: &str, ty: &str, args: &[&str]) -> Option<String> {
    match ty {
        "DualFp" => run_coarse::<DualFp>(
            routine,
            args,
            &|s| split_dual(s).and_then(|(v, d)| Some(DualFp { v: <Fp as UElem>::parse(v)?, d: <Fp as UElem>::parse(d)? })),
            &|x| format!("{}~{}", x.v, x.d),
        ),
        "DualRat" => run_coarse::<DualRat>(
            routine,
            args,
            &|s| split_dual(s).and_then(|(v, d)| Some(DualRat { v: <Rat as UElem>::parse(v)?, d: <Rat as UElem>::parse(d)? })),
            &|x| format!("{}~{}", x.v, x.d),
        ),
        "TraceFp" => run_coarse::<Trace<Fp>>(
            routine,
            args,
            &|s| split_dual(s).and_then(|(v, d)| Some(Trace { number: <Fp as UElem>::parse(v)?, derivative: <Fp as UElem>::parse(d)? })),
            &|x| format!("{}~{}", x.number, x.derivative),
        ),
        "RecordFp" => {
            // reverse mode: every input is a variable; the derivative part of an output is the
            // directional derivative along the inputs' given parts, sum_k seed_k * d(out)/d(input_k)
            let list = WengertList::new();
            let inputs: std::cell::RefCell<Vec<(Record<Fp>, Fp)>> = std::cell::RefCell::new(vec![]);
            let parse = |s: &str| -> Option<Record<Fp>> {
                let (v, d) = split_dual(s)?;
                let r = Record::variable(<Fp as UElem>::parse(v)?, &list);
                inputs.borrow_mut().push((r.clone(), <Fp as UElem>::parse(d)?));
                Some(r)
            };
            let show = |x: &Record<Fp>| -> String {
                let mut acc = Fp(0);
                if let Some(derivatives) = x.try_derivatives() {
                    for (input, seed) in inputs.borrow().iter() {
                        acc = acc + seed * &derivatives[input];
                    }
                }
                format!("{}~{}", x.number, acc)
            };
            run_coarse::<Record<Fp>>(routine, args, &parse, &show)
        }
        _ => None,
    }
}

pub fn run(toks: &[&str]) -> String {
    if toks.len() < 2 {
        return "bad-op".into();
    }
    let (routine, ty, args) = (toks[0], toks[1], &toks[2..]);
    let r = catch(|| match ty {
        "Fp" => run_numeric::<Fp>(routine, args).or_else(|| run_real::<Fp>(routine, args)),
        "Rat" => run_numeric::<Rat>(routine, args),
        "DualFp" | "DualRat" | "TraceFp" | "RecordFp" => run_dual(routine, ty, args),
        _ => None,
    });
    match r {
        Ok(Some(s)) => s,
        Ok(None) => "bad-op".into(),
        Err(k) => panic_str(k),
    }
}

// ---------------------------------------------------------------------------------------------
// generator
// ---------------------------------------------------------------------------------------------

fn rand_elem(g: &mut Gen, ty: &str) -> String {
    if ty == "Fp" {
        if g.rng.chance(1, 6) {
            g.rng.below(4).to_string()
        } else {
            (g.rng.next() % P).to_string()
        }
    } else {
        // small rationals (i128 arithmetic must not overflow in determinants of size 4)
        let n = g.rng.below(13) as i64 - 6;
        if g.rng.chance(1, 3) {
            let d = g.rng.range(2, 4) as i64;
            let r = Rat::new(n as i128, d as i128);
            r.to_string()
        } else {
            n.to_string()
        }
    }
}

fn rand_mat(g: &mut Gen, ty: &str, r: usize, c: usize) -> String {
    let v: Vec<String> = (0..r * c).map(|_| rand_elem(g, ty)).collect();
    format!("{}x{}:{}", r, c, if v.is_empty() { "-".to_string() } else { v.join(",") })
}

fn rand_list(g: &mut Gen, ty: &str, n: usize) -> String {
    (0..n).map(|_| rand_elem(g, ty)).collect::<Vec<_>>().join(",")
}

/// A = M Mᵀ (+ optional defect) for a lower triangular M with positive diagonal: symmetric
/// positive definite, so Cholesky succeeds (over `Rat` with exactly `L = M`).
fn spd_mat(g: &mut Gen, ty: &str, n: usize, breakit: bool) -> String {
    if ty == "Fp" {
        // no notion of definiteness: a random symmetric matrix exercises both outcomes
        let mut a = vec![vec![0u64; n]; n];
        for i in 0..n {
            for j in 0..=i {
                let v = g.rng.next() % P;
                a[i][j] = v;
                a[j][i] = v;
            }
        }
        let flat: Vec<String> = a.iter().flatten().map(|x| x.to_string()).collect();
        return format!("{}x{}:{}", n, n, flat.join(","));
    }
    let mut m = vec![vec![Rat::int(0); n]; n];
    for i in 0..n {
        for j in 0..=i {
            m[i][j] = if i == j {
                Rat::new(g.rng.range(1, 3) as i128, g.rng.range(1, 2) as i128)
            } else {
                Rat::new(g.rng.below(5) as i128 - 2, g.rng.range(1, 2) as i128)
            };
        }
    }
    let mut a = vec![vec![Rat::int(0); n]; n];
    for i in 0..n {
        for j in 0..n {
            let mut s = Rat::int(0);
            for k in 0..n {
                s = s + &m[i][k] * &m[j][k];
            }
            a[i][j] = s;
        }
    }
    if breakit {
        // make a leading pivot non-positive: not positive definite
        let k = g.rng.below(n);
        a[k][k] = Rat::int(-(g.rng.below(3) as i64));
    }
    let flat: Vec<String> = a.iter().flatten().map(|x| x.to_string()).collect();
    format!("{}x{}:{}", n, n, flat.join(","))
}

/// one `value~derivative` element: zero values with non-zero derivative parts and repeated values
/// with different parts are frequent on purpose
fn dual_elem(g: &mut Gen, base: &str) -> String {
    let v = if base == "Fp" {
        if g.rng.chance(1, 2) { g.rng.below(3).to_string() } else { (g.rng.next() % P).to_string() }
    } else {
        (g.rng.below(7) as i64 - 3).to_string()
    };
    let d = if base == "Fp" {
        (1 + g.rng.next() % (P - 1)).to_string()
    } else {
        let n = g.rng.below(9) as i64 - 4;
        if n == 0 { "1".to_string() } else { n.to_string() }
    };
    format!("{}~{}", v, d)
}

fn dual_mat(g: &mut Gen, base: &str, r: usize, c: usize) -> String {
    let v: Vec<String> = (0..r * c).map(|_| dual_elem(g, base)).collect();
    format!("{}x{}:{}", r, c, v.join(","))
}

/// symmetric matrix with zero-valued off-diagonal entries carrying non-zero derivative parts;
/// over `Rat` it is `L0 L0ᵀ` for a lower triangular `L0` with zeros below the diagonal and rational
/// diagonal entries (exact square roots), e.g. the reviewer's `[[2,0,0],[0,3,0],[1,2,1]]`
fn dual_spd(g: &mut Gen, base: &str, n: usize, first: bool) -> String {
    let mut vals = vec![vec![Rat::int(0); n]; n];
    if base == "Rat" {
        let mut l = vec![vec![Rat::int(0); n]; n];
        for i in 0..n {
            for j in 0..=i {
                l[i][j] = if i == j {
                    Rat::int(g.rng.range(1, 3) as i64)
                } else if g.rng.chance(1, 2) {
                    Rat::int(0)
                } else {
                    Rat::int(g.rng.below(5) as i64 - 2)
                };
            }
        }
        if first && n == 3 {
            l = vec![
                vec![Rat::int(2), Rat::int(0), Rat::int(0)],
                vec![Rat::int(0), Rat::int(3), Rat::int(0)],
                vec![Rat::int(1), Rat::int(2), Rat::int(1)],
            ];
        }
        for i in 0..n {
            for j in 0..n {
                let mut s = Rat::int(0);
                for k in 0..n {
                    s = s + &l[i][k] * &l[j][k];
                }
                vals[i][j] = s;
            }
        }
        let flat: Vec<String> = (0..n * n)
            .map(|k| {
                let (i, j) = (k / n, k % n);
                let d = if first && n == 3 { if (i, j) == (1, 0) { 1 } else { 0 } } else { g.rng.below(5) as i64 - 2 };
                format!("{}~{}", vals[i][j], d)
            })
            .collect();
        return format!("{}x{}:{}", n, n, flat.join(","));
    }
    let mut a = vec![vec![String::new(); n]; n];
    for i in 0..n {
        for j in 0..=i {
            let v = if i == j { g.rng.range(1, 50).to_string() } else if g.rng.chance(1, 2) { "0".to_string() } else { g.rng.below(4).to_string() };
            let d = (1 + g.rng.next() % (P - 1)).to_string();
            a[i][j] = format!("{}~{}", v, d);
            a[j][i] = a[i][j].clone();
        }
    }
    let flat: Vec<String> = a.iter().flatten().cloned().collect();
    format!("{}x{}:{}", n, n, flat.join(","))
}

/// every generic routine of linear_algebra.rs and the products at element types that compare by
/// value only: a user-defined dual number over Fp and over Rat, Trace<Fp>, Record<Fp>
fn gen_coarse(g: &mut Gen) {
    let reps = if g.thorough { 30 } else { 5 };
    for ty in ["DualFp", "DualRat", "TraceFp", "RecordFp"] {
        let base = if ty == "DualRat" { "Rat" } else { "Fp" };
        let mut emit = |g: &mut Gen, routine: &str, args: String| {
            g.op(format!("@ user {} {} {}", routine, ty, args));
            g.count(&format!("coarse.{}.{}", routine, ty));
        };
        for rep in 0..reps {
            let (r, k, c) = (g.rng.range(1, 3), g.rng.range(1, 3), g.rng.range(1, 3));
            let args = format!("{} {}", dual_mat(g, base, r, k), dual_mat(g, base, k, c));
            emit(g, "matrix_mul", args);
            let args = format!("{} {}", dual_mat(g, base, r, c), dual_mat(g, base, r, c));
            emit(g, if rep % 2 == 0 { "matrix_add" } else { "matrix_sub" }, args);
            let n = g.rng.range(1, 4);
            let args = format!("{} {}", dual_mat(g, base, 1, n).split_once(':').unwrap().1, dual_mat(g, base, 1, n).split_once(':').unwrap().1);
            emit(g, "tensor_scalar_product", args);
            let n = g.rng.range(1, 3);
            let a = dual_mat(g, base, n, n);
            emit(g, "determinant", a.clone());
            emit(g, "inverse", a);
            let n = g.rng.range(2, 3);
            let a = dual_spd(g, base, if rep == 0 { 3 } else { n }, rep == 0);
            emit(g, "cholesky_decomposition", a.clone());
            emit(g, "ldlt_decomposition", a);
            let (r, c) = (g.rng.range(1, 3), g.rng.range(1, 3));
            let a = dual_mat(g, base, r, c);
            emit(g, "covariance_column_features", a.clone());
            emit(g, "covariance_row_features", a);
            let n = g.rng.range(1, 4);
            let l = dual_mat(g, base, 1, n);
            let l = l.split_once(':').unwrap().1.to_string();
            emit(g, "mean", l.clone());
            emit(g, "variance", l);
            let args = format!("{} {}", dual_elem(g, base), dual_elem(g, base));
            emit(g, "f1_score", args);
        }
    }
}

pub fn gen(g: &mut Gen) {
    gen_coarse(g);
    gen_counting(g);
    let reps = if g.thorough { 40 } else { 6 };
    for ty in ["Fp", "Rat"] {
        let mut emit = |g: &mut Gen, routine: &str, args: String| {
            g.op(format!("@ user {} {} {}", routine, ty, args));
            g.count(&format!("user.{}.{}", routine, ty));
            g.count("user.cases");
        };
        for _ in 0..reps {
            let (r, k, c) = (g.rng.range(1, 3), g.rng.range(1, 3), g.rng.range(1, 3));
            for routine in ["matrix_add", "matrix_sub", "tensor_add", "tensor_sub"] {
                let args = format!("{} {}", rand_mat(g, ty, r, c), rand_mat(g, ty, r, c));
                emit(g, routine, args);
            }
            for routine in ["matrix_mul", "tensor_matmul"] {
                let args = format!("{} {}", rand_mat(g, ty, r, k), rand_mat(g, ty, k, c));
                emit(g, routine, args);
            }
            for routine in ["matrix_neg"] {
                let args = rand_mat(g, ty, r, c);
                emit(g, routine, args);
            }
            for routine in [
                "matrix_scalar_add", "matrix_scalar_sub", "matrix_scalar_mul", "matrix_scalar_div",
                "tensor_scalar_add", "tensor_scalar_sub", "tensor_scalar_mul", "tensor_scalar_div",
            ] {
                let args = format!("{} {}", rand_mat(g, ty, r, c), rand_elem(g, ty));
                emit(g, routine, args);
            }
            let n = g.rng.range(1, 4);
            let args = format!("{} {}", rand_list(g, ty, n), rand_list(g, ty, n));
            emit(g, "tensor_scalar_product", args);
            let n = g.rng.range(1, 4);
            for routine in [
                "determinant", "matrix_determinant", "determinant_tensor", "tensor_determinant", "inverse",
                "matrix_inverse", "inverse_tensor", "tensor_inverse",
            ] {
                // now and then a singular matrix (two equal rows)
                let mut a = rand_mat(g, ty, n, n);
                if n >= 2 && g.rng.chance(1, 5) {
                    let (_, vals) = a.split_once(':').unwrap();
                    let v: Vec<&str> = vals.split(',').collect();
                    let mut w: Vec<String> = v.iter().map(|s| s.to_string()).collect();
                    for j in 0..n {
                        w[n + j] = w[j].clone();
                    }
                    a = format!("{}x{}:{}", n, n, w.join(","));
                    g.count("user.singular-input");
                }
                emit(g, routine, a);
            }
            let n = g.rng.range(1, 5);
            let args = rand_list(g, ty, n);
            emit(g, "mean", args);
            let args = rand_list(g, ty, n);
            emit(g, "variance", args);
            let args = format!("{} {}", rand_elem(g, ty), rand_elem(g, ty));
            emit(g, "f1_score", args);
            let (r, c) = (g.rng.range(1, 3), g.rng.range(1, 3));
            for routine in [
                "covariance_column_features", "matrix_covariance_column_features", "covariance_row_features",
                "matrix_covariance_row_features", "covariance_tensor_columns", "covariance_tensor_rows",
            ] {
                let args = rand_mat(g, ty, r, c);
                emit(g, routine, args);
            }
            let n = g.rng.range(1, 3);
            for routine in [
                "cholesky_decomposition", "cholesky_decomposition_tensor", "ldlt_decomposition",
                "ldlt_decomposition_tensor",
            ] {
                let breakit = g.rng.chance(1, 4);
                let args = spd_mat(g, ty, n, breakit);
                emit(g, routine, args);
            }
            let args = format!("{} {} {}", rand_elem(g, ty), rand_elem(g, ty), rand_elem(g, ty));
            emit(g, "trace_derivative", args);
            for routine in ["record_derivatives", "record_container_derivatives"] {
                let args = format!("{} {}", rand_elem(g, ty), rand_elem(g, ty));
                emit(g, routine, args);
            }
            if ty == "Fp" {
                let n = g.rng.range(1, 4);
                let args = rand_list(g, ty, n);
                emit(g, "softmax", args);
            }
        }
        if ty == "Fp" {
            // Real-bounded routines that are instantiated and executed only
            let a = rand_mat(g, ty, 3, 2);
            emit(g, "qr_decomposition", a.clone());
            emit(g, "qr_decomposition_tensor", a);
            let args = format!("{} {} {}", rand_elem(g, ty), rand_elem(g, ty), rand_elem(g, ty));
            emit(g, "gaussian_probability", args);
            let args = format!("{} {} {}", rand_elem(g, ty), rand_elem(g, ty), rand_list(g, ty, 8));
            emit(g, "gaussian_draw", args);
            let args = format!("{} {} {}", rand_mat(g, ty, 2, 1), spd_mat(g, ty, 2, false), rand_list(g, ty, 8));
            emit(g, "multivariate_gaussian_draw", args);
        }
    }
}
