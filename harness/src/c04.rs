//! C04 — reverse-mode differentiation: random SSA programs over `Record<Fp>` / `Record<Rat>`,
//! every operator in every ownership / operand-kind form.
//!
//! Shared with c05.rs / c15.rs: the program generator (`ProgGen`), the element trait `El`, the
//! form-dispatch macros, the named user functions.
//!
//! Line protocol: see lean/Driver/Prog.lean and lean/Driver/C04.lean.

use crate::exact::{Fp, Rat, P};
use crate::util::*;
use easy_ml::differentiation::record_operations::SwappedOperations;
use easy_ml::differentiation::{Primitive, Record, WengertList};
use easy_ml::numeric::extra::{Cos, Exp, Ln, Pi, Pow, Sin, Sqrt};
use easy_ml::numeric::{FromUsize, Numeric, NumericRef, ZeroOne};
use std::ops::{Add, Div, Mul, Neg, Sub};

// ---------------------------------------------------------------------------------------------
// element types
// ---------------------------------------------------------------------------------------------

pub trait El: Clone + std::fmt::Display + PartialEq + 'static {
    fn parse(s: &str) -> Self;
}
impl El for Fp {
    fn parse(s: &str) -> Fp {
        Fp::new(s.parse::<u64>().expect("fp"))
    }
}
impl El for Rat {
    fn parse(s: &str) -> Rat {
        match s.split_once('/') {
            Some((n, d)) => Rat::new(n.parse().expect("rat n"), d.parse().expect("rat d")),
            None => Rat::new(s.parse().expect("rat"), 1),
        }
    }
}

pub fn show_list<T: std::fmt::Display>(v: &[T]) -> String {
    if v.is_empty() {
        "-".to_string()
    } else {
        v.iter().map(|x| x.to_string()).collect::<Vec<_>>().join(",")
    }
}

/// Result names of a case -> position of the record.
pub type Names = std::collections::HashMap<String, usize>;

/// Do all operand names of an instruction / derivs line exist?  (Dangling names only occur in
/// shrunk replays; such a line is answered `bad-ref` and ignored, by the model too.)
/// index of the first token that may be an operand name
pub fn refs_from(toks: &[&str]) -> usize {
    match toks[0] {
        "derivs" | "tryderivs" | "show" | "reset" | "debug" | "debugd" => 1,
        _ => 2,
    }
}

pub fn refs_ok(names: &Names, toks: &[&str], from: usize) -> bool {
    toks.iter().skip(from).all(|t| {
        t.contains('=')
            || t.split(',').all(|piece| {
                !piece.chars().next().map(|ch| ch.is_ascii_alphabetic()).unwrap_or(false)
                    || names.contains_key(piece)
            })
    })
}

// ---------------------------------------------------------------------------------------------
// operator forms: every by-value / by-reference combination of a binary operator
// ---------------------------------------------------------------------------------------------

pub const FORMS4: [&str; 4] = ["val_val", "val_ref", "ref_val", "ref_ref"];
pub const FORMS2: [&str; 2] = ["val", "ref"];

/// `$a`, `$b` are references; `$f` is the trait method (`Add::add`, `Pow::pow`, ...).
#[macro_export]
macro_rules! op4 {
    ($via:expr, $a:expr, $b:expr, $f:path) => {
        match $via {
            "val_val" => $f($a.clone(), $b.clone()),
            "val_ref" => $f($a.clone(), $b),
            "ref_val" => $f($a, $b.clone()),
            "ref_ref" => $f($a, $b),
            other => panic!("harness: unknown form {}", other),
        }
    };
}

#[macro_export]
macro_rules! op2 {
    ($via:expr, $a:expr, $f:path) => {
        match $via {
            "val" => $f($a.clone()),
            "ref" => $f($a),
            other => panic!("harness: unknown form {}", other),
        }
    };
}

// ---------------------------------------------------------------------------------------------
// named user functions (the same table as lean/Driver/Prog.lean)
// ---------------------------------------------------------------------------------------------

pub fn two<T: Numeric>() -> T {
    T::one() + T::one()
}
pub fn three<T: Numeric>() -> T {
    T::one() + T::one() + T::one()
}

pub type F1<T> = Box<dyn Fn(T) -> T>;
pub type F2<T> = Box<dyn Fn(T, T) -> T>;

pub fn unary_fn<T: Numeric + 'static>(name: &str) -> (F1<T>, F1<T>) {
    match name {
        "cube" => (
            Box::new(|x: T| x.clone() * x.clone() * x),
            Box::new(|x: T| three::<T>() * (x.clone() * x)),
        ),
        "aff" => (Box::new(|x: T| two::<T>() * x + T::one()), Box::new(|_x: T| two::<T>())),
        // deliberately not the derivative: the code must use what it is given
        "odd" => (Box::new(|x: T| x.clone() * x), Box::new(|x: T| x)),
        other => panic!("harness: unknown unary fn {}", other),
    }
}

pub fn binary_fn<T: Numeric + 'static>(name: &str) -> (F2<T>, F2<T>, F2<T>) {
    match name {
        "axy" => (
            Box::new(|x: T, y: T| x.clone() * y + x),
            Box::new(|_x: T, y: T| y + T::one()),
            Box::new(|x: T, _y: T| x),
        ),
        "wsum" => (
            Box::new(|x: T, y: T| two::<T>() * x + three::<T>() * y),
            Box::new(|_x: T, _y: T| two::<T>()),
            Box::new(|_x: T, _y: T| three::<T>()),
        ),
        "psq" => (
            Box::new(|x: T, y: T| x.clone() * x * y),
            Box::new(|x: T, y: T| two::<T>() * x * y),
            Box::new(|x: T, _y: T| x.clone() * x),
        ),
        other => panic!("harness: unknown binary fn {}", other),
    }
}

pub const UNARY_FNS: [&str; 3] = ["cube", "aff", "odd"];
pub const BINARY_FNS: [&str; 3] = ["axy", "wsum", "psq"];

// ---------------------------------------------------------------------------------------------
// generator of SSA programs (shared by C04, C05, C15)
// ---------------------------------------------------------------------------------------------

pub const PI_FP: u64 = 1311325525161987955;

/// Picks one of `forms` for operator `op`: half of the time the form hit least often so far
/// (so every form of every operator is forced to occur), otherwise a random one.
pub fn pick_form(g: &mut Gen, prefix: &str, op: &str, forms: &[&'static str]) -> &'static str {
    let count = |g: &Gen, f: &str| *g.stats.get(&format!("{}.{}.{}", prefix, op, f)).unwrap_or(&0);
    let chosen = if g.rng.chance(1, 2) {
        let mut best = forms[0];
        for f in forms {
            if count(g, f) < count(g, best) {
                best = f;
            }
        }
        best
    } else {
        *g.rng.pick(forms)
    };
    g.count(&format!("{}.{}.{}", prefix, op, chosen));
    chosen
}

#[derive(Clone, Copy, PartialEq)]
pub enum Kind {
    Fp,
    Rat,
}

/// What the generator knows about the instructions emitted so far in a case.
pub struct ProgGen {
    pub kind: Kind,
    pub prefix: &'static str,
    /// number of uses of each result (fan-out is capped at 6)
    pub uses: Vec<usize>,
    pub is_var: Vec<bool>,
    /// does a variable contribute
    pub dep: Vec<bool>,
    /// Rat only: bound on the bit size of numerator/denominator of the value and of any tangent
    pub bits: Vec<u32>,
    pub tbits: Vec<u32>,
    /// Rat only: (parents, weight bit bound) per instruction, for the reverse-sweep size bound
    pub edges: Vec<(Vec<usize>, u32)>,
    /// tape of each result (C15), None for constants
    pub tape: Vec<Option<usize>>,
    /// C15: the record's tape was cleared and the record not reset since
    pub stale: Vec<bool>,
    /// C15: may `operand` hand out stale records (misuse)
    pub allow_stale: bool,
}

impl ProgGen {
    pub fn new(kind: Kind, prefix: &'static str) -> ProgGen {
        ProgGen {
            kind,
            prefix,
            uses: vec![],
            is_var: vec![],
            dep: vec![],
            bits: vec![],
            tbits: vec![],
            edges: vec![],
            tape: vec![],
            stale: vec![],
            allow_stale: false,
        }
    }
    pub fn len(&self) -> usize {
        self.uses.len()
    }

    pub fn value(&self, g: &mut Gen) -> String {
        match self.kind {
            Kind::Fp => {
                if g.rng.chance(1, 5) {
                    g.count(&format!("{}.value.small", self.prefix));
                    format!("{}", *g.rng.pick(&[0u64, 0, 1, 1, P - 1, P - 1, 2, 3, P - 2]))
                } else {
                    g.count(&format!("{}.value.random", self.prefix));
                    format!("{}", g.rng.next() % P)
                }
            }
            Kind::Rat => {
                g.count(&format!("{}.value.rat", self.prefix));
                let n = g.rng.range(0, 12) as i64 - 6;
                if g.rng.chance(1, 4) {
                    let d = g.rng.range(2, 5) as i64;
                    format!("{}", Rat::new(n as i128, d as i128))
                } else {
                    format!("{}", n)
                }
            }
        }
    }

    /// an operand among the earlier results with fan-out < 6, preferring recent ones; `want_tape`
    /// restricts to results usable with that tape (constants or the same tape), C15 only
    pub fn operand(&mut self, g: &mut Gen, want_tape: Option<usize>) -> Option<usize> {
        let ok = |s: &ProgGen, k: usize| {
            s.uses[k] < 6
                && (s.allow_stale || !s.stale[k])
                && (s.kind == Kind::Fp || s.bits[k] <= 24)
                && match (want_tape, s.tape[k]) {
                    (Some(t), Some(u)) => t == u,
                    _ => true,
                }
        };
        let n = self.len();
        let cands: Vec<usize> = (0..n).filter(|&k| ok(self, k)).collect();
        if cands.is_empty() {
            return None;
        }
        let k = if g.rng.chance(1, 2) {
            // recent
            cands[cands.len() - 1 - g.rng.below(cands.len().min(4))]
        } else {
            *g.rng.pick(&cands)
        };
        self.uses[k] += 1;
        Some(k)
    }

    pub fn push(&mut self, is_var: bool, dep: bool, bits: u32, tbits: u32, parents: Vec<usize>, wbits: u32, tape: Option<usize>) {
        self.uses.push(0);
        self.is_var.push(is_var);
        self.dep.push(dep);
        self.bits.push(bits);
        self.tbits.push(tbits);
        self.edges.push((parents, wbits));
        self.tape.push(tape);
        self.stale.push(false);
    }

    pub fn leaf_var(&mut self, g: &mut Gen, tape: usize) -> String {
        let k = self.len();
        let v = self.value(g);
        let via = pick_form(g, self.prefix, "var", &["record", "list"]);
        self.push(true, true, 4, 1, vec![], 0, Some(tape));
        if self.prefix == "c15" {
            format!("var r{} {} t={} via={}", k, v, tape, via)
        } else {
            format!("var r{} {} via={}", k, v, via)
        }
    }

    pub fn leaf_const(&mut self, g: &mut Gen) -> String {
        let k = self.len();
        let forms: &[&'static str] = match self.kind {
            Kind::Fp => &["constant", "constant", "zero", "one", "from_usize", "pi"],
            Kind::Rat => &["constant", "constant", "zero", "one", "from_usize"],
        };
        let via = pick_form(g, self.prefix, "const", forms);
        let v = match via {
            "zero" => "0".to_string(),
            "one" => "1".to_string(),
            "from_usize" => format!("{}", g.rng.below(7)),
            "pi" => format!("{}", PI_FP),
            _ => self.value(g),
        };
        self.push(false, false, 4, 1, vec![], 0, None);
        format!("const r{} {} via={}", k, v, via)
    }

    fn res_tape(&self, ops: &[usize]) -> Option<usize> {
        ops.iter().filter_map(|&k| self.tape[k]).next()
    }

    /// One non-leaf instruction over existing results; None if no operand is available.
    /// `tape`: restrict operands to one tape (C15).
    pub fn op_instr(&mut self, g: &mut Gen, tape: Option<usize>) -> Option<String> {
        let k = self.len();
        let real = self.kind == Kind::Fp;
        // weights of the instruction kinds
        let mut kinds: Vec<&'static str> = vec![
            "add", "sub", "mul", "div", "add", "sub", "mul", "div", "addn", "subn", "muln", "divn",
            "subsw", "divsw", "neg", "sum", "unary", "binary",
        ];
        if real {
            kinds.extend_from_slice(&["sin", "cos", "exp", "ln", "sqrt", "pow", "pow", "pown", "npow"]);
        }
        let kind = *g.rng.pick(&kinds);
        g.count(&format!("{}.instr.{}", self.prefix, kind));
        let p = self.prefix;
        match kind {
            "add" | "sub" | "mul" | "div" | "pow" | "binary" => {
                let a = self.operand(g, tape)?;
                let want = tape.or(self.tape[a]);
                // half of the time look for a second operand of the other kind (variable-dependent
                // vs constant), so that the one-constant-operand arms are exercised
                let mut b = self.operand(g, want)?;
                if g.rng.chance(1, 2) {
                    for _ in 0..4 {
                        if self.dep[b] != self.dep[a] {
                            break;
                        }
                        self.uses[b] -= 1;
                        b = self.operand(g, want)?;
                    }
                }
                let nb = self.bits[a] + self.bits[b] + 1;
                let (bits, wbits) = if kind == "binary" { (3 * nb + 4, 3 * nb + 4) } else { (nb, 2 * nb + 2) };
                let tb = self.tbits[a] + self.tbits[b] + 3 * nb + 4;
                let dep = self.dep[a] || self.dep[b];
                let t = self.res_tape(&[a, b]);
                self.push(false, dep, bits, tb, vec![a, b], wbits, t);
                let pair = match (self.dep[a], self.dep[b]) {
                    (true, true) => "var_var",
                    (true, false) => "var_const",
                    (false, true) => "const_var",
                    (false, false) => "const_const",
                };
                g.count(&format!("{}.pairing.{}.{}", p, kind, pair));
                if a == b {
                    g.count(&format!("{}.same_operand_twice", p));
                }
                if kind == "binary" {
                    let f = *g.rng.pick(&BINARY_FNS);
                    g.count(&format!("{}.binary.fn.{}", p, f));
                    Some(format!("binary r{} r{} r{} fn={}", k, a, b, f))
                } else {
                    let via = pick_form(g, p, kind, &FORMS4);
                    Some(format!("{} r{} r{} r{} via={}", kind, k, a, b, via))
                }
            }
            "addn" | "subn" | "muln" | "divn" | "subsw" | "divsw" | "pown" | "npow" => {
                let a = self.operand(g, tape)?;
                let c = self.value(g);
                let nb = self.bits[a] + 5;
                let dep = self.dep[a];
                let t = self.res_tape(&[a]);
                self.push(false, dep, nb, self.tbits[a] + 3 * nb + 4, vec![a], 2 * nb + 2, t);
                g.count(&format!("{}.pairing.{}.{}", p, kind, if dep { "var" } else { "const" }));
                let via = pick_form(g, p, kind, &FORMS4);
                if kind == "npow" {
                    Some(format!("npow r{} {} r{} via={}", k, c, a, via))
                } else {
                    Some(format!("{} r{} r{} {} via={}", kind, k, a, c, via))
                }
            }
            "neg" | "sin" | "cos" | "exp" | "ln" | "sqrt" | "unary" => {
                let a = self.operand(g, tape)?;
                let nb = if kind == "unary" { 3 * self.bits[a] + 4 } else { self.bits[a] };
                let dep = self.dep[a];
                let t = self.res_tape(&[a]);
                self.push(false, dep, nb, self.tbits[a] + 3 * nb + 4, vec![a], nb + 4, t);
                g.count(&format!("{}.pairing.{}.{}", p, kind, if dep { "var" } else { "const" }));
                if kind == "unary" {
                    let f = *g.rng.pick(&UNARY_FNS);
                    g.count(&format!("{}.unary.fn.{}", p, f));
                    Some(format!("unary r{} r{} fn={}", k, a, f))
                } else {
                    let via = pick_form(g, p, kind, &FORMS2);
                    Some(format!("{} r{} r{} via={}", kind, k, a, via))
                }
            }
            _ => {
                // sum of 0..5 terms
                let n = g.rng.below(6);
                g.count(&format!("{}.sum.terms.{}", p, n));
                let mut ops = vec![];
                let mut want = tape;
                for _ in 0..n {
                    if let Some(a) = self.operand(g, want) {
                        want = want.or(self.tape[a]);
                        ops.push(a);
                    }
                }
                let nb: u32 = ops.iter().map(|&a| self.bits[a] + 1).sum::<u32>() + 1;
                let tb: u32 = ops.iter().map(|&a| self.tbits[a] + 1).sum::<u32>() + 1;
                let dep = ops.iter().any(|&a| self.dep[a]);
                let t = self.res_tape(&ops);
                let nv = ops.iter().filter(|&&a| self.dep[a]).count();
                let pattern = if ops.is_empty() {
                    "empty"
                } else if nv == ops.len() {
                    "all_variables"
                } else if nv == 0 {
                    "all_constants"
                } else if self.dep[ops[0]] {
                    "mixed_variable_first"
                } else {
                    "mixed_constant_first"
                };
                g.count(&format!("{}.sum.pattern.{}", p, pattern));
                self.push(false, dep, nb, tb, ops.clone(), 1, t);
                let names: Vec<String> = ops.iter().map(|a| format!("r{}", a)).collect();
                Some(format!("sum r{} {}", k, if names.is_empty() { "-".to_string() } else { names.join(",") }))
            }
        }
    }

    /// `clone r<k> r<a>`: a copy of an earlier result under a new name
    pub fn clone_instr(&mut self, g: &mut Gen, tape: Option<usize>) -> Option<String> {
        let k = self.len();
        let a = self.operand(g, tape)?;
        g.count(&format!("{}.clone.{}", self.prefix, if self.dep[a] { "variable" } else { "constant" }));
        let (dep, bits, tbits, t) = (self.dep[a], self.bits[a], self.tbits[a], self.tape[a]);
        self.push(false, dep, bits, tbits + 1, vec![a], 1, t);
        Some(format!("clone r{} r{}", k, a))
    }

    /// a comparison of two earlier results (every operator x form, every variable/constant
    /// pairing, sometimes a result with itself) or a `show` line; creates nothing
    pub fn emit_observation(&self, g: &mut Gen) {
        let n = self.len();
        let live: Vec<usize> = (0..n).filter(|&k| self.allow_stale || !self.stale[k]).collect();
        if live.is_empty() {
            return;
        }
        let p = self.prefix;
        if g.rng.chance(1, 5) {
            let a = *g.rng.pick(&live);
            g.count(&format!("{}.show.{}", p, if self.dep[a] { "variable" } else { "constant" }));
            g.op(format!("show r{}", a));
            return;
        }
        let a = *g.rng.pick(&live);
        let mut b = *g.rng.pick(&live);
        if g.rng.chance(1, 2) {
            for _ in 0..4 {
                if self.dep[b] != self.dep[a] {
                    break;
                }
                b = *g.rng.pick(&live);
            }
        }
        if g.rng.chance(1, 6) {
            b = a;
        }
        let op = pick_form(g, p, "cmp", &CMP_OPS);
        let via = pick_form(g, p, &format!("cmp.{}", op), &CMP_FORMS);
        let pair = match (self.dep[a], self.dep[b]) {
            (true, true) => "var_var",
            (true, false) => "var_const",
            (false, true) => "const_var",
            (false, false) => "const_const",
        };
        g.count(&format!("{}.cmp.pairing.{}", p, pair));
        if self.tape[a].is_some() && self.tape[b].is_some() && self.tape[a] != self.tape[b] {
            g.count(&format!("{}.cmp.cross_tape", p));
        }
        g.op(format!("cmp {} r{} r{} via={}", op, a, b, via));
    }

    /// Rat only: bound on the bit size of any adjoint when sweeping back from result `y`
    pub fn sweep_bits(&self, y: usize) -> u32 {
        let mut b = vec![0u32; self.len()];
        b[y] = 1;
        let mut worst = 1;
        for i in (0..=y).rev() {
            if b[i] == 0 {
                continue;
            }
            let (ps, w) = &self.edges[i];
            for &p in ps {
                b[p] = b[p].saturating_add(b[i]).saturating_add(*w).saturating_add(1);
                worst = worst.max(b[p]);
            }
        }
        worst
    }

    /// may result `k` be differentiated / used without leaving i128 (always true for Fp)
    pub fn safe(&self, k: usize) -> bool {
        self.kind == Kind::Fp || (self.bits[k] <= 40 && self.tbits[k] <= 100 && self.sweep_bits(k) <= 100)
    }

    /// Removes the last instruction (Rat: when it grew too large).
    pub fn pop(&mut self) {
        let (ps, _) = self.edges.pop().unwrap();
        for p in ps {
            self.uses[p] -= 1;
        }
        self.uses.pop();
        self.is_var.pop();
        self.dep.pop();
        self.bits.pop();
        self.tbits.pop();
        self.tape.pop();
        self.stale.pop();
    }
}

/// One random program: leaves and operations interleaved, `derivs` lines sprinkled in.
/// `emit_derivs(g, st, k)` produces the derivative line(s) for result `k`.
pub fn gen_program(g: &mut Gen, kind: Kind, prefix: &'static str, header: &str, max_size: usize) {
    let mut st = ProgGen::new(kind, prefix);
    let tape_via = pick_form(g, prefix, "tape", &["new", "default"]);
    g.op(format!("{} via={}", header, tape_via));
    let size = 1 + g.rng.below(max_size);
    g.count(&format!("{}.program.size.{:02}", prefix, (size + 4) / 5 * 5));
    // of 5: share of variables among leaves (one program in 16 has constants only)
    let var_share = if g.rng.chance(1, 16) { 0 } else { *g.rng.pick(&[1usize, 2, 3, 3, 4, 4, 5]) };
    while st.len() < size {
        let n = st.len();
        let leaf = n == 0 || g.rng.chance(1, 4);
        let line = if leaf {
            if g.rng.below(5) < var_share {
                Some(st.leaf_var(g, 0))
            } else {
                Some(st.leaf_const(g))
            }
        } else {
            st.op_instr(g, None)
        };
        let line = match line {
            Some(l) => l,
            None => st.leaf_var(g, 0),
        };
        if !st.safe(st.len() - 1) {
            // a rational grew too large: drop the instruction, end the program
            st.pop();
            g.count(&format!("{}.program.cut_for_size", prefix));
            break;
        }
        g.op(line);
        let k = st.len() - 1;
        if g.rng.chance(1, 8) {
            emit_derivs(g, &st, k);
        }
        if g.rng.chance(1, 6) {
            st.emit_observation(g);
        }
        if g.rng.chance(1, 20) && st.len() < size {
            if let Some(l) = st.clone_instr(g, None) {
                g.op(l);
            }
        }
    }
    if st.len() > 0 {
        let k = st.len() - 1;
        emit_derivs(g, &st, k);
        // and of a random intermediate result
        let j = g.rng.below(st.len());
        emit_derivs(g, &st, j);
    }
    let nvars = st.is_var.iter().filter(|&&v| v).count();
    g.count(&format!("{}.program.vars.{}", prefix, nvars.min(9)));
    let max_fan = st.uses.iter().cloned().max().unwrap_or(0);
    g.count(&format!("{}.program.max_fanout.{}", prefix, max_fan));
}

pub fn emit_derivs(g: &mut Gen, st: &ProgGen, k: usize) {
    let p = st.prefix;
    let name = format!("r{}", k);
    if g.rng.chance(1, 4) {
        g.count(&format!("{}.tryderivs.{}", p, if st.dep[k] { "variable" } else { "constant" }));
        g.op(format!("tryderivs {}", name));
    } else {
        g.count(&format!("{}.derivs.{}", p, if st.dep[k] { "variable" } else { "constant" }));
        let via = pick_form(g, p, "derivs", &["at", "index", "vec"]);
        g.op(format!("derivs {} via={}", name, via));
    }
}

// ---------------------------------------------------------------------------------------------
// LARGE cases: sizes beyond any plausible chunk / threshold constant of an implementation
// ---------------------------------------------------------------------------------------------

/// `sum` instructions with 9, 17, 33, 65 terms: all variables, and constants at the start, in
/// the middle, at the end.  `tape`: tape of the variables (C15), `t_arg` whether `t=` is printed.
pub fn gen_big_sums(g: &mut Gen, st: &mut ProgGen, vars: &[usize], consts: &[usize]) {
    let p = st.prefix;
    for n in [9usize, 17, 33, 65] {
        for pattern in ["all_variables", "constants_start", "constants_middle", "constants_end"] {
            g.count(&format!("{}.large.sum.{}.{}", p, n, pattern));
            let nc = 1 + g.rng.below(3);
            let is_const = |j: usize| match pattern {
                "constants_start" => j < nc,
                "constants_middle" => j >= n / 2 && j < n / 2 + nc,
                "constants_end" => j >= n - nc,
                _ => false,
            };
            let terms: Vec<usize> = (0..n)
                .map(|j| if is_const(j) { consts[j % consts.len()] } else { vars[(j * 7 + n) % vars.len()] })
                .collect();
            let k = st.len();
            let t = st.tape[vars[0]];
            st.push(false, true, 0, 0, terms.clone(), 1, t);
            let names: Vec<String> = terms.iter().map(|a| format!("r{}", a)).collect();
            g.op(format!("sum r{} {}", k, names.join(",")));
            let via = pick_form(g, p, "derivs", &["at", "index", "vec"]);
            g.op(format!("derivs r{} via={}", k, via));
        }
    }
}

/// a binary operation on two given results (operand choice is the caller's: long parent
/// distances), `+ − ×` mostly, `÷`/`pow` sometimes
pub fn far_instr(g: &mut Gen, st: &mut ProgGen, a: usize, b: usize) -> String {
    let kinds: &[&'static str] = if st.kind == Kind::Fp {
        &["add", "sub", "mul", "add", "sub", "mul", "add", "mul", "div", "pow"]
    } else {
        &["add", "sub", "mul"]
    };
    let kind = *g.rng.pick(kinds);
    let k = st.len();
    let dep = st.dep[a] || st.dep[b];
    let t = st.tape[a].or(st.tape[b]);
    st.push(false, dep, 0, 0, vec![a, b], 0, t);
    g.count(&format!("{}.large.far.{}", st.prefix, kind));
    let via = pick_form(g, st.prefix, kind, &FORMS4);
    format!("{} r{} r{} r{} via={}", kind, k, a, b, via)
}

/// One long program: `nvars` variables first, then `size` instructions; about every third
/// instruction combines the latest result with one of the FIRST variables (parent distances up
/// to the program's length, fan-out of the early variables in the hundreds).
pub fn gen_long_program(g: &mut Gen, prefix: &'static str, header: &str, nvars: usize, size: usize) {
    let mut st = ProgGen::new(Kind::Fp, prefix);
    g.op(header.to_string());
    g.count(&format!("{}.large.program.size.{}", prefix, size));
    g.count(&format!("{}.large.program.vars.{}", prefix, nvars));
    for _ in 0..nvars {
        let l = st.leaf_var(g, 0);
        g.op(l);
    }
    let c0 = st.len();
    for _ in 0..3 {
        let l = st.leaf_const(g);
        g.op(l);
    }
    let vars: Vec<usize> = (0..nvars).collect();
    for i in 0..size {
        let last = st.len() - 1;
        let roll = g.rng.below(100);
        let line = if roll < 35 {
            // far back: one of the first variables (the very first ones most often)
            let v = if g.rng.chance(1, 2) { g.rng.below(nvars.min(3)) } else { g.rng.below(nvars) };
            if g.rng.chance(1, 2) { far_instr(g, &mut st, last, v) } else { far_instr(g, &mut st, v, last) }
        } else if roll < 45 {
            let c = c0 + g.rng.below(3);
            far_instr(g, &mut st, last, c)
        } else if roll < 50 {
            // a medium sum over early variables and the latest result
            let n = 9 + g.rng.below(4);
            let mut terms: Vec<usize> = (0..n).map(|_| g.rng.below(nvars)).collect();
            terms.push(last);
            let k = st.len();
            st.push(false, true, 0, 0, terms.clone(), 1, Some(0));
            let names: Vec<String> = terms.iter().map(|a| format!("r{}", a)).collect();
            format!("sum r{} {}", k, names.join(","))
        } else {
            match st.op_instr(g, None) {
                Some(l) => l,
                None => far_instr(g, &mut st, last, 0),
            }
        };
        g.op(line);
        if i == size / 2 {
            let k = st.len() - 1;
            emit_derivs(g, &st, k);
        }
    }
    let _ = vars;
    let k = st.len() - 1;
    emit_derivs(g, &st, k);
    // a result that certainly depends on the first variable, far away from it
    let l = far_instr(g, &mut st, k, 0);
    g.op(l);
    g.op(format!("derivs r{} via=vec", st.len() - 1));
}

/// A chain of `steps` one-entry operations and then an operation that uses the FIRST variable
/// again: a parent more than `steps` entries back.  (Both tiers, once; the Lean side answers it with
/// the array-backed evaluation, header `@ tape fp big`.)
pub fn gen_chain(g: &mut Gen, prefix: &str, header: &str, steps: usize) {
    g.count(&format!("{}.large.chain.{}", prefix, steps));
    g.op(header.to_string());
    let (v0, v1) = (g.rng.next() % P, g.rng.next() % P);
    g.op(format!("var r0 {} via=record", v0));
    g.op(format!("var r1 {} via=list", v1));
    g.op("mul r2 r0 r1 via=ref_ref".to_string());
    let mut k = 3;
    for _ in 0..steps {
        let c = g.rng.next() % P;
        let line = match g.rng.below(6) {
            0 => format!("muln r{} r{} {} via=ref_ref", k, k - 1, c),
            1 => format!("addn r{} r{} {} via=val_ref", k, k - 1, c),
            2 => format!("subsw r{} r{} {} via=ref_val", k, k - 1, c),
            3 => format!("sin r{} r{} via=ref", k, k - 1),
            4 => format!("add r{} r{} r1 via=ref_ref", k, k - 1),
            _ => format!("neg r{} r{} via=ref", k, k - 1),
        };
        g.op(line);
        k += 1;
    }
    g.op(format!("mul r{} r{} r0 via=ref_ref", k, k - 1));
    g.op(format!("derivs r{} via=vec", k));
    g.op(format!("sub r{} r{} r0 via=val_val", k + 1, k));
    g.op(format!("derivs r{} via=at", k + 1));
}

// ---------------------------------------------------------------------------------------------
// DEGENERATE data: operands 0, 1, -1, equal to each other, the same record on both sides
// ---------------------------------------------------------------------------------------------

/// Small cases in which every binary operator (forms rotating) meets: the same record on both
/// sides (variable, constant, value 0/1), a variable against the constants 0, 1, -1 and against a
/// constant / another variable of equal value, in both operand orders; every record∘number and
/// number∘record form with the numbers 0, 1, -1; the unary functions at 0 and 1; sums of zeros;
/// and the first few operations recorded a second time.  After every operation `derivs` (so
/// exactly-zero derivatives, the unused variable and the tape length are observed).
/// `head`: `@ tape` / `@ trace` / `@ tapes 1`; `ty`: ` fp` / ` rat` / ``.
pub fn gen_degenerate(g: &mut Gen, prefix: &str, head: &str, ty: &str, kind: Kind) {
    let minus1 = if kind == Kind::Fp { format!("{}", P - 1) } else { "-1".to_string() };
    let rnd = |g: &mut Gen| if kind == Kind::Fp { format!("{}", g.rng.next() % P) } else { format!("{}", g.rng.range(2, 9)) };
    let mut form = 0usize;
    let mut next_form = |forms: &[&'static str]| { form += 1; forms[form % forms.len()] };
    let bin_ops: &[&str] = if kind == Kind::Fp { &["add", "sub", "mul", "div", "pow", "binary"] } else { &["add", "sub", "mul", "div", "binary"] };
    let v0s = [rnd(g), "0".to_string(), "1".to_string(), minus1.clone()];
    for v0 in &v0s {
        let leaves = |g: &mut Gen, v0: &str| {
            g.op(format!("{}{}", head, ty));
            g.op(format!("var r0 {} t=0 via=record", v0));
            let v1 = rnd(g);
            g.op(format!("var r1 {} t=0 via=list", v1));
            g.op("const r2 0 via=zero".into());
            g.op("const r3 1 via=one".into());
            g.op(format!("const r4 {} via=constant", minus1));
            g.op(format!("const r5 {} via=constant", v0));
            g.op("var r6 0 t=0 via=record".into());
            g.op("var r7 1 t=0 via=list".into());
            g.op(format!("var r8 {} t=0 via=record", v0));
        };
        let pairs: [(usize, usize); 22] = [
            (0, 0), (2, 2), (6, 6), (7, 7), (3, 3), (0, 2), (2, 0), (0, 3), (3, 0), (0, 4), (4, 0),
            (0, 6), (6, 0), (0, 7), (7, 0), (0, 5), (5, 0), (0, 8), (8, 0), (6, 2), (2, 6), (7, 3),
        ];
        for op in bin_ops {
            g.count(&format!("{}.degenerate.binary.{}", prefix, op));
            leaves(g, v0);
            let mut k = 9;
            let mut emit = |g: &mut Gen, a: usize, b: usize, k: usize| {
                if *op == "binary" {
                    g.op(format!("binary r{} r{} r{} fn={}", k, a, b, BINARY_FNS[k % 3]));
                } else {
                    g.op(format!("{} r{} r{} r{} via={}", op, k, a, b, next_form(&FORMS4)));
                }
                g.op(format!("derivs r{} via={}", k, ["vec", "at", "index"][k % 3]));
            };
            for &(a, b) in &pairs {
                emit(g, a, b, k);
                k += 1;
            }
            // second level: a result against itself and against its own operand
            emit(g, 9, 9, k);
            emit(g, k, 0, k + 1);
            k += 2;
            // the same computation recorded a second time
            for &(a, b) in &pairs[..4] {
                emit(g, a, b, k);
                k += 1;
            }
        }
        // record∘number, number∘record, unary functions, sums
        g.count(&format!("{}.degenerate.numbers", prefix));
        leaves(g, v0);
        let mut k = 9;
        let num_ops: &[&str] = if kind == Kind::Fp {
            &["addn", "subn", "muln", "divn", "subsw", "divsw", "pown", "npow"]
        } else {
            &["addn", "subn", "muln", "divn", "subsw", "divsw"]
        };
        for op in num_ops {
            for c in ["0", "1", minus1.as_str()] {
                for a in [0usize, 2, 6, 7] {
                    let via = next_form(&FORMS4);
                    if *op == "npow" {
                        g.op(format!("npow r{} {} r{} via={}", k, c, a, via));
                    } else {
                        g.op(format!("{} r{} r{} {} via={}", op, k, a, c, via));
                    }
                    g.op(format!("derivs r{} via=vec", k));
                    k += 1;
                }
            }
        }
        let un_ops: &[&str] = if kind == Kind::Fp { &["neg", "sin", "cos", "exp", "ln", "sqrt"] } else { &["neg"] };
        for op in un_ops {
            for a in [0usize, 2, 3, 6, 7] {
                g.op(format!("{} r{} r{} via={}", op, k, a, next_form(&FORMS2)));
                g.op(format!("derivs r{} via=vec", k));
                k += 1;
            }
        }
        for f in UNARY_FNS {
            for a in [0usize, 6, 7, 2] {
                g.op(format!("unary r{} r{} fn={}", k, a, f));
                g.op(format!("derivs r{} via=vec", k));
                k += 1;
            }
        }
        for terms in ["r2,r2,r2", "r6,r6", "r2,r6,r2", "r6,r2,r6,r0", "r0,r0,r0", "r2,r0", "r3,r7,r3"] {
            g.op(format!("sum r{} {}", k, terms));
            g.op(format!("derivs r{} via=vec", k));
            k += 1;
        }
        // a chain in which every entry depends on the one variable r0 (r1 stays unused)
        let mut last = 0;
        for op in ["mul", "add", "sub", "div"] {
            g.op(format!("{} r{} r{} r{} via={}", op, k, last, last, next_form(&FORMS4)));
            last = k;
            k += 1;
        }
        g.op(format!("derivs r{} via=vec", last));
    }
}

// ---------------------------------------------------------------------------------------------
// f64 at degenerate values: implementation vs the documented formulae, evaluated here
// ---------------------------------------------------------------------------------------------
//
//   @ f64 rec|trace <op> <pairing> <x bits> <y bits> via=<form> [adj=inf]     → f64=ok | f64=DIFF …
//
// Each line is a case of its own.  The Lean model cannot (and must not) answer these: the driver
// answers `f64=ok` to every `@ f64` line, the harness compares the implementation run at
// `Record<f64>` / `Trace<f64>` with the formula the source documents, by `to_bits` (any NaN equals
// any NaN; +0.0 and -0.0 differ).

pub const F64_VALUES: [f64; 16] = [
    0.0, -0.0, 1.0, -1.0, f64::INFINITY, f64::NEG_INFINITY, f64::NAN, 5e-324, -5e-324, 2.5, -3.75,
    1e308, -1e-308, f64::MIN_POSITIVE, 0.5, 1e200,
];

pub fn same_bits(a: f64, b: f64) -> bool {
    (a.is_nan() && b.is_nan()) || a.to_bits() == b.to_bits()
}

pub fn parse_bits(s: &str) -> f64 {
    f64::from_bits(u64::from_str_radix(s.trim_start_matches("0x"), 16).expect("f64 bits"))
}

pub fn show_f64(v: f64) -> String {
    format!("{:?}/0x{:016x}", v, v.to_bits())
}

/// plain value of `left op right`
pub fn f64_value(op: &str, l: f64, r: f64) -> f64 {
    match op {
        "add" => l + r,
        "sub" => l - r,
        "mul" => l * r,
        "div" => l / r,
        "pow" => l.powf(r),
        // unary: `l` is the operand.  Negation: the plain computation `-x`; the sign of a ZERO
        // result is not compared for `neg` (`0 - x`, as Trace computes it, gives +0.0 for x = 0.0,
        // `-x` gives -0.0; the property is met by either), see `f64_compare`
        "neg" => -l,
        "sin" => l.sin(),
        "cos" => l.cos(),
        "exp" => l.exp(),
        "ln" => l.ln(),
        "sqrt" => l.sqrt(),
        other => panic!("harness: f64 op {}", other),
    }
}

/// the local derivatives documented in functions.rs: (d/d left, d/d right)
pub fn f64_local(op: &str, x: f64, y: f64) -> (f64, f64) {
    match op {
        "add" => (1.0, 1.0),
        "sub" => (1.0, -1.0),
        "mul" => (y, x),
        "div" => (1.0 / y, -x / (y * y)),
        "pow" => (y * x.powf(y - 1.0), x.powf(y) * x.ln()),
        "neg" => (-1.0, 0.0),
        "sin" => (x.cos(), 0.0),
        "cos" => (-x.sin(), 0.0),
        "exp" => (x.exp(), 0.0),
        "ln" => (1.0 / x, 0.0),
        "sqrt" => (1.0 / (2.0 * x.sqrt()), 0.0),
        other => panic!("harness: f64 op {}", other),
    }
}

pub fn is_unary(op: &str) -> bool {
    matches!(op, "neg" | "sin" | "cos" | "exp" | "ln" | "sqrt")
}

/// What reverse mode documents: `δy/δx = Σ over the parents (δy/δw · δw/δx)`, accumulated from
/// zero in tape order — (value, ∂/∂x if x is a variable, ∂/∂y if y is a variable).
pub fn f64_expect_rec(op: &str, pairing: &str, x: f64, y: f64) -> (f64, Option<f64>, Option<f64>) {
    if is_unary(op) {
        let v = f64_value(op, x, 0.0);
        let (w, _) = f64_local(op, x, 0.0);
        return (v, if pairing == "v" { Some(0.0 + 1.0 * w) } else { None }, None);
    }
    // number∘record forms (`nv`): the number is the LEFT operand, the record the right one
    let (l, r) = if pairing == "xx" { (x, x) } else { (x, y) };
    let v = f64_value(op, l, r);
    let (wl, wr) = f64_local(op, l, r);
    match pairing {
        "vv" => (v, Some(0.0 + 1.0 * wl), Some(0.0 + 1.0 * wr)),
        "xx" => (v, Some((0.0 + 1.0 * wl) + 1.0 * wr), None),
        "vc" | "vn" => (v, Some(0.0 + 1.0 * wl), None),
        "cv" | "nv" => (v, None, Some(0.0 + 1.0 * wr)),
        "cc" => (v, None, None),
        other => panic!("harness: f64 pairing {}", other),
    }
}

pub fn f64_run_rec(op: &str, pairing: &str, x: f64, y: f64, via: &str) -> Result<(f64, Option<f64>, Option<f64>), PanicKind> {
    catch(|| {
        let list = WengertList::<f64>::new();
        let mk = |is_var: bool, v: f64| if is_var { Record::variable(v, &list) } else { Record::constant(v) };
        if is_unary(op) {
            let a = mk(pairing == "v", x);
            let r = match op {
                "neg" => op2!(via, &a, Neg::neg),
                "sin" => op2!(via, &a, Sin::sin),
                "cos" => op2!(via, &a, Cos::cos),
                "exp" => op2!(via, &a, Exp::exp),
                "ln" => op2!(via, &a, Ln::ln),
                _ => op2!(via, &a, Sqrt::sqrt),
            };
            let dx = r.try_derivatives().filter(|_| pairing == "v").map(|d| d[&a]);
            return (r.number, dx, None);
        }
        let (xv, yv) = match pairing {
            "vv" => (true, true),
            "vc" | "vn" | "xx" => (true, false),
            "cv" | "nv" => (false, true),
            _ => (false, false),
        };
        let a = mk(xv, x);
        let b = mk(yv, y);
        let r = match (pairing, op) {
            ("xx", "add") => op4!(via, &a, &a, Add::add),
            ("xx", "sub") => op4!(via, &a, &a, Sub::sub),
            ("xx", "mul") => op4!(via, &a, &a, Mul::mul),
            ("xx", "div") => op4!(via, &a, &a, Div::div),
            ("xx", _) => op4!(via, &a, &a, Pow::pow),
            ("vn", "add") => op4!(via, &a, &y, Add::add),
            ("vn", "sub") => op4!(via, &a, &y, Sub::sub),
            ("vn", "mul") => op4!(via, &a, &y, Mul::mul),
            ("vn", "div") => op4!(via, &a, &y, Div::div),
            ("vn", _) => op4!(via, &a, &y, Pow::pow),
            ("nv", "sub") => op4!(via, &b, &x, SwappedOperations::sub_swapped),
            ("nv", "div") => op4!(via, &b, &x, SwappedOperations::div_swapped),
            ("nv", _) => op4!(via, &x, &b, Pow::pow),
            (_, "add") => op4!(via, &a, &b, Add::add),
            (_, "sub") => op4!(via, &a, &b, Sub::sub),
            (_, "mul") => op4!(via, &a, &b, Mul::mul),
            (_, "div") => op4!(via, &a, &b, Div::div),
            (_, _) => op4!(via, &a, &b, Pow::pow),
        };
        let d = r.try_derivatives();
        let dx = d.as_ref().filter(|_| xv).map(|d| d[&a]);
        let dy = d.as_ref().filter(|_| yv).map(|d| d[&b]);
        (r.number, dx, dy)
    })
}

/// `zero_sign_free`: a zero equals a zero of either sign (used for `neg` only)
pub fn f64_compare(got: (f64, Option<f64>, Option<f64>), want: (f64, Option<f64>, Option<f64>), zero_sign_free: bool) -> String {
    let same = |a: f64, b: f64| same_bits(a, b) || (zero_sign_free && a == 0.0 && b == 0.0);
    let opt = |a: Option<f64>, b: Option<f64>| match (a, b) {
        (None, None) => true,
        (Some(a), Some(b)) => same(a, b),
        _ => false,
    };
    if same(got.0, want.0) && opt(got.1, want.1) && opt(got.2, want.2) {
        return "f64=ok".into();
    }
    let sh = |o: Option<f64>| o.map(show_f64).unwrap_or("-".into());
    // the one deviation on record: an infinite adjoint comes back as NaN (see fixes/F-16)
    let inf_nan = |a: Option<f64>, b: Option<f64>| match (a, b) {
        (Some(a), Some(b)) => same_bits(a, b) || (b.is_infinite() && a.is_nan()),
        (None, None) => true,
        _ => false,
    };
    let class = if same_bits(got.0, want.0) && inf_nan(got.1, want.1) && inf_nan(got.2, want.2) { "inf-adjoint-reported-as-nan" } else { "other" };
    format!(
        "f64=DIFF class={} value got={} want={} dx got={} want={} dy got={} want={}",
        class, show_f64(got.0), show_f64(want.0), sh(got.1), sh(want.1), sh(got.2), sh(want.2)
    )
}

pub fn f64_line_rec(toks: &[&str]) -> String {
    let (op, pairing) = (toks[3], toks[4]);
    let (x, y) = (parse_bits(toks[5]), parse_bits(toks[6]));
    let via = opt_arg("via", toks).unwrap_or("ref_ref");
    match f64_run_rec(op, pairing, x, y, via) {
        Ok(got) => f64_compare(got, f64_expect_rec(op, pairing, x, y), op == "neg"),
        Err(k) => panic_str(k),
    }
}

/// the `@ f64` lines of one mode (`rec`: C04, `trace`: C05); `expect` tags the lines whose
/// documented adjoint is infinite
pub fn gen_f64(g: &mut Gen, prefix: &str, mode: &str, pairings: &[&str], expect: &dyn Fn(&str, &str, f64, f64) -> (f64, Option<f64>, Option<f64>)) {
    let mut n = 0usize;
    let mut line = |g: &mut Gen, op: &str, pairing: &str, x: f64, y: f64, forms: &[&'static str]| {
        n += 1;
        let via = forms[n % forms.len()];
        let (_, dx, dy) = expect(op, pairing, x, y);
        let inf = dx.map(|d| d.is_infinite()).unwrap_or(false) || dy.map(|d| d.is_infinite()).unwrap_or(false);
        g.count(&format!("{}.f64.{}.{}", prefix, op, pairing));
        g.op(format!(
            "@ f64 {} {} {} 0x{:016x} 0x{:016x} via={}{}",
            mode, op, pairing, x.to_bits(), y.to_bits(), via, if inf { " adj=inf" } else { "" }
        ));
    };
    for op in ["add", "sub", "mul", "div", "pow"] {
        for pairing in pairings {
            if *pairing == "nv" && (op == "add" || op == "mul") {
                continue;
            }
            if *pairing == "v" || *pairing == "c" {
                continue;
            }
            for &x in &F64_VALUES {
                if *pairing == "xx" {
                    line(g, op, pairing, x, x, &FORMS4);
                    continue;
                }
                for &y in &F64_VALUES {
                    line(g, op, pairing, x, y, &FORMS4);
                }
            }
        }
    }
    for op in ["neg", "sin", "cos", "exp", "ln", "sqrt"] {
        for pairing in ["v", "c"] {
            for &x in &F64_VALUES {
                line(g, op, pairing, x, 0.0, &FORMS2);
            }
        }
    }
}

// ---------------------------------------------------------------------------------------------
// the operator x operand-form x pairing MATRIX, enumerated exhaustively once per run
// ---------------------------------------------------------------------------------------------

/// Every cell of: {record∘number `+ − × ÷ pow`, number∘record `− ÷ pow`} x 4 forms x {variable,
/// constant record}, and record∘record `+ − × ÷ pow` x 4 forms x 4 pairings, with distinct,
/// non-commutative witness values (x = 3, y = 5, number 7: `x^c ≠ c^x`, `x−c ≠ c−x`, …), each
/// followed by `derivs`.  Counted as `<prefix>.matrix.<op>.<form>.<pairing>`.
pub fn gen_matrix(g: &mut Gen, prefix: &str, head: &str, ty: &str, kind: Kind) {
    g.op(format!("{}{}", head, ty));
    g.op("var r0 3 t=0 via=record".into());
    g.op("const r1 3 via=constant".into());
    g.op("var r2 5 t=0 via=list".into());
    g.op("const r3 5 via=constant".into());
    let mut k = 4;
    let real = kind == Kind::Fp;
    let num_ops: &[&str] = if real {
        &["addn", "subn", "muln", "divn", "pown", "subsw", "divsw", "npow"]
    } else {
        &["addn", "subn", "muln", "divn", "subsw", "divsw"]
    };
    for op in num_ops {
        for via in FORMS4 {
            for (a, pairing) in [(0usize, "variable"), (1, "constant")] {
                g.count(&format!("{}.matrix.{}.{}.{}", prefix, op, via, pairing));
                if *op == "npow" {
                    g.op(format!("npow r{} 7 r{} via={}", k, a, via));
                } else {
                    g.op(format!("{} r{} r{} 7 via={}", op, k, a, via));
                }
                g.op(format!("derivs r{} via=vec", k));
                k += 1;
            }
        }
    }
    let bin_ops: &[&str] = if real { &["add", "sub", "mul", "div", "pow"] } else { &["add", "sub", "mul", "div"] };
    for op in bin_ops {
        for via in FORMS4 {
            for (a, b, pairing) in [(0usize, 2usize, "var_var"), (0, 3, "var_const"), (1, 2, "const_var"), (1, 3, "const_const")] {
                g.count(&format!("{}.matrix.{}.{}.{}", prefix, op, via, pairing));
                g.op(format!("{} r{} r{} r{} via={}", op, k, a, b, via));
                g.op(format!("derivs r{} via=vec", k));
                k += 1;
            }
        }
    }
    for op in ["neg", "sin", "cos", "exp", "ln", "sqrt"] {
        if !real && op != "neg" {
            continue;
        }
        for via in FORMS2 {
            for (a, pairing) in [(0usize, "variable"), (1, "constant")] {
                g.count(&format!("{}.matrix.{}.{}.{}", prefix, op, via, pairing));
                g.op(format!("{} r{} r{} via={}", op, k, a, via));
                g.op(format!("derivs r{} via=vec", k));
                k += 1;
            }
        }
    }
    // Sum over every mix of constants (c) and variables (v) in every order, up to four terms
    for n in 0..=4usize {
        for mask in 0..(1usize << n) {
            let pattern: String = (0..n).map(|j| if mask >> j & 1 == 1 { 'v' } else { 'c' }).collect();
            // distinct records: variables r0, r2, constants r1, r3
            let terms: Vec<String> = (0..n)
                .map(|j| format!("r{}", if mask >> j & 1 == 1 { [0, 2][j % 2] } else { [1, 3][j % 2] }))
                .collect();
            g.count(&format!("{}.matrix.sum.{}", prefix, if n == 0 { "empty".to_string() } else { pattern }));
            g.op(format!("sum r{} {}", k, if n == 0 { "-".to_string() } else { terms.join(",") }));
            g.op(format!("derivs r{} via=vec", k));
            k += 1;
        }
    }
    // the non-operator API on a computed result whose number (21), derivative (7) and position
    // all differ: x * 7 with x = 3
    g.op(format!("muln r{} r0 7 via=ref_ref", k));
    let y = k;
    k += 1;
    for via in ["clone", "clone_from"] {
        g.count(&format!("{}.matrix.clone.{}", prefix, via));
        g.op(format!("clone r{} r{} via={}", k, y, via));
        g.op(format!("derivs r{} via=vec", k));
        g.op(format!("cmp eq r{} r{} via=ref", k, y));
        k += 1;
    }
    for op in CMP_OPS {
        for via in CMP_FORMS {
            g.count(&format!("{}.matrix.cmp.{}.{}", prefix, op, via));
            g.op(format!("cmp {} r{} r2 via={}", op, y, via));
            g.op(format!("cmp {} r3 r{} via={}", op, y, via));
        }
    }
    g.count(&format!("{}.matrix.show", prefix));
    g.op(format!("show r{}", y));
    g.op("show r1".into());
    g.count(&format!("{}.matrix.debug", prefix));
    g.op(format!("debug r{}", y));
    g.op("debug r1".into());
    for via in ["at", "index", "vec", "into"] {
        g.count(&format!("{}.matrix.derivs.{}", prefix, via));
        g.op(format!("derivs r{} via={}", y, via));
    }
    if head == "@ tape" {
        g.count(&format!("{}.matrix.tryderivs", prefix));
        g.op(format!("tryderivs r{}", y));
        g.op("tryderivs r1".into());
        g.count(&format!("{}.matrix.debugd", prefix));
        g.op(format!("debugd r{}", y));
        g.op("debugd r1".into());
    }
    for via in ["constant", "zero", "one", "from_usize"] {
        g.count(&format!("{}.matrix.const.{}", prefix, via));
        let v = match via { "zero" => "0", "one" => "1", _ => "6" };
        g.op(format!("const r{} {} via={}", k, v, via));
        g.op(format!("add r{} r{} r{} via=ref_ref", k + 1, k, y));
        k += 2;
    }
    if real {
        g.count(&format!("{}.matrix.const.pi", prefix));
        g.op(format!("const r{} {} via=pi", k, PI_FP));
        g.op(format!("add r{} r{} r{} via=ref_ref", k + 1, k, y));
        k += 2;
    }
    for via in ["record", "list"] {
        g.count(&format!("{}.matrix.var.{}", prefix, via));
        g.op(format!("var r{} 11 t=0 via={}", k, via));
        g.op(format!("mul r{} r{} r{} via=ref_ref", k + 1, k, y));
        g.op(format!("derivs r{} via=vec", k + 1));
        k += 2;
    }
    for f in UNARY_FNS {
        g.count(&format!("{}.matrix.unary.{}", prefix, f));
        g.op(format!("unary r{} r{} fn={}", k, y, f));
        g.op(format!("derivs r{} via=vec", k));
        k += 1;
    }
    for f in BINARY_FNS {
        for (a, b, pairing) in [(y, 2usize, "var_var"), (y, 3, "var_const"), (1, y, "const_var"), (1, 3, "const_const")] {
            g.count(&format!("{}.matrix.binary.{}.{}", prefix, f, pairing));
            g.op(format!("binary r{} r{} r{} fn={}", k, a, b, f));
            g.op(format!("derivs r{} via=vec", k));
            k += 1;
        }
    }
}

// ---------------------------------------------------------------------------------------------
// integer element types at their boundary values: implementation vs the plain operator
// ---------------------------------------------------------------------------------------------
//
//   @ int rec|trace i32|i64 <op> <pairing> <x> <y> via=<form>      → int=ok | int=DIFF …
//
// Like the `@ f64` lines: each line a case of its own, the Lean driver answers `int=ok`, the
// harness compares `Record<i32>` / `Record<i64>` with the plain operator evaluated inside
// `catch` (dev profile: overflow checks on): the value, or the panic kind.  A result that needs a
// derivative is expected to panic where the documented rule of functions.rs itself overflows.

pub const INT_PAIRINGS: [&str; 7] = ["vv", "vc", "cv", "xx", "vn", "nv", "cc"];

macro_rules! int_checks {
    ($T:ty, $modname:ident) => {
        pub mod $modname {
            use super::*;
            pub const VALUES: [$T; 7] = [<$T>::MIN, <$T>::MIN + 1, -1, 0, 1, <$T>::MAX - 1, <$T>::MAX];

            pub fn value(op: &str, l: $T, r: $T) -> $T {
                match op {
                    "add" => l + r,
                    "sub" => l - r,
                    "mul" => l * r,
                    "div" => l / r,
                    _ => -l,
                }
            }
            /// the local derivatives as functions.rs documents them
            pub fn local(op: &str, x: $T, y: $T) -> ($T, $T) {
                match op {
                    "add" => (1, 1),
                    "sub" => (1, -1),
                    "mul" => (y, x),
                    "div" => (1 / y, -x / (y * y)),
                    _ => (-1, 0),
                }
            }
            /// only the derivative(s) the pairing records are evaluated, left before right
            pub fn expect_rec(op: &str, pairing: &str, x: $T, y: $T) -> Result<($T, Option<$T>, Option<$T>), PanicKind> {
                catch(|| {
                    if op == "neg" {
                        let v = value(op, x, 0);
                        return (v, if pairing == "v" { Some(0 + 1 * -1) } else { None }, None);
                    }
                    let (l, r) = if pairing == "xx" { (x, x) } else { (x, y) };
                    let v = value(op, l, r);
                    match pairing {
                        "vv" => { let (wl, wr) = local(op, l, r); (v, Some(0 + 1 * wl), Some(0 + 1 * wr)) }
                        "xx" => { let (wl, wr) = local(op, l, r); (v, Some((0 + 1 * wl) + 1 * wr), None) }
                        "vc" | "vn" => { let wl = local_left(op, l, r); (v, Some(0 + 1 * wl), None) }
                        "cv" | "nv" => { let wr = local_right(op, l, r); (v, None, Some(0 + 1 * wr)) }
                        _ => (v, None, None),
                    }
                })
            }
            pub fn local_left(op: &str, _x: $T, y: $T) -> $T {
                match op { "add" | "sub" => 1, "mul" => y, _ => 1 / y }
            }
            pub fn local_right(op: &str, x: $T, y: $T) -> $T {
                match op { "add" => 1, "sub" => -1, "mul" => x, _ => -x / (y * y) }
            }
            pub fn run_rec(op: &str, pairing: &str, x: $T, y: $T, via: &str) -> Result<($T, Option<$T>, Option<$T>), PanicKind> {
                catch(|| {
                    let list = WengertList::<$T>::new();
                    let mk = |is_var: bool, v: $T| if is_var { Record::variable(v, &list) } else { Record::constant(v) };
                    if op == "neg" {
                        let a = mk(pairing == "v", x);
                        let r = op2!(via, &a, Neg::neg);
                        let dx = r.try_derivatives().filter(|_| pairing == "v").map(|d| d[&a]);
                        return (r.number, dx, None);
                    }
                    let (xv, yv) = match pairing {
                        "vv" => (true, true),
                        "vc" | "vn" | "xx" => (true, false),
                        "cv" | "nv" => (false, true),
                        _ => (false, false),
                    };
                    let a = mk(xv, x);
                    let b = mk(yv, y);
                    let r = match (pairing, op) {
                        ("xx", "add") => op4!(via, &a, &a, Add::add),
                        ("xx", "sub") => op4!(via, &a, &a, Sub::sub),
                        ("xx", "mul") => op4!(via, &a, &a, Mul::mul),
                        ("xx", _) => op4!(via, &a, &a, Div::div),
                        ("vn", "add") => op4!(via, &a, &y, Add::add),
                        ("vn", "sub") => op4!(via, &a, &y, Sub::sub),
                        ("vn", "mul") => op4!(via, &a, &y, Mul::mul),
                        ("vn", _) => op4!(via, &a, &y, Div::div),
                        ("nv", "sub") => op4!(via, &b, &x, SwappedOperations::sub_swapped),
                        ("nv", _) => op4!(via, &b, &x, SwappedOperations::div_swapped),
                        (_, "add") => op4!(via, &a, &b, Add::add),
                        (_, "sub") => op4!(via, &a, &b, Sub::sub),
                        (_, "mul") => op4!(via, &a, &b, Mul::mul),
                        (_, _) => op4!(via, &a, &b, Div::div),
                    };
                    let d = r.try_derivatives();
                    let dx = d.as_ref().filter(|_| xv).map(|d| d[&a]);
                    let dy = d.as_ref().filter(|_| yv).map(|d| d[&b]);
                    (r.number, dx, dy)
                })
            }
            pub fn compare(got: Result<($T, Option<$T>, Option<$T>), PanicKind>, want: Result<($T, Option<$T>, Option<$T>), PanicKind>) -> String {
                if got == want {
                    return "int=ok".into();
                }
                let sh = |r: &Result<($T, Option<$T>, Option<$T>), PanicKind>| match r {
                    Ok(t) => format!("{:?}", t),
                    Err(k) => panic_str(*k),
                };
                format!("int=DIFF got={} want={}", sh(&got), sh(&want))
            }
            pub fn line_rec(toks: &[&str]) -> String {
                let (op, pairing) = (toks[4], toks[5]);
                let (x, y): ($T, $T) = (toks[6].parse().unwrap(), toks[7].parse().unwrap());
                let via = opt_arg("via", toks).unwrap_or("ref_ref");
                compare(run_rec(op, pairing, x, y, via), expect_rec(op, pairing, x, y))
            }
        }
    };
}
int_checks!(i32, int32);
int_checks!(i64, int64);

/// the `@ int` lines of one mode: every operator x pairing x form x 7 x 7 boundary values
pub fn gen_int(g: &mut Gen, prefix: &str, mode: &str, pairings: &[&str]) {
    fn values(ty: &str) -> Vec<String> {
        if ty == "i32" { int32::VALUES.iter().map(|v| v.to_string()).collect() } else { int64::VALUES.iter().map(|v| v.to_string()).collect() }
    }
    for ty in ["i32", "i64"] {
        let vals = values(ty);
        for op in ["add", "sub", "mul", "div"] {
            for pairing in pairings {
                if *pairing == "nv" && (op == "add" || op == "mul") {
                    continue;
                }
                for via in FORMS4 {
                    g.count(&format!("{}.int.{}.{}.{}.{}", prefix, ty, op, pairing, via));
                    for x in &vals {
                        if *pairing == "xx" {
                            g.op(format!("@ int {} {} {} {} {} {} via={}", mode, ty, op, pairing, x, x, via));
                            continue;
                        }
                        for y in &vals {
                            g.op(format!("@ int {} {} {} {} {} {} via={}", mode, ty, op, pairing, x, y, via));
                        }
                    }
                }
            }
        }
        for pairing in ["v", "c"] {
            for via in FORMS2 {
                g.count(&format!("{}.int.{}.neg.{}.{}", prefix, ty, pairing, via));
                for x in &vals {
                    g.op(format!("@ int {} {} neg {} {} 0 via={}", mode, ty, pairing, x, via));
                }
            }
        }
    }
}

/// the LARGE section of C04 / C05 (`header`: `@ tape fp` / `@ trace fp`)
pub fn gen_large(g: &mut Gen, prefix: &'static str, header: &str) {
    // big sums
    let mut st = ProgGen::new(Kind::Fp, prefix);
    g.op(header.to_string());
    for _ in 0..6 {
        let l = st.leaf_var(g, 0);
        g.op(l);
    }
    for _ in 0..2 {
        let l = st.leaf_const(g);
        g.op(l);
    }
    gen_big_sums(g, &mut st, &[0, 1, 2, 3, 4, 5], &[6, 7]);
    // long programs, many variables
    let sizes: &[(usize, usize)] = if g.thorough { &[(72, 300), (90, 1000), (10, 3000)] } else { &[(72, 300), (80, 700)] };
    for &(nvars, size) in sizes {
        gen_long_program(g, prefix, header, nvars, size);
    }
}

pub fn gen(g: &mut Gen) {
    let (n_fp, n_rat) = if g.thorough { (20000, 4000) } else { (1500, 400) };
    gen_large(g, "c04.fp", "@ tape fp");
    gen_degenerate(g, "c04.fp", "@ tape", " fp", Kind::Fp);
    gen_degenerate(g, "c04.rat", "@ tape", " rat", Kind::Rat);
    gen_f64(g, "c04", "rec", &["vv", "vc", "cv", "xx", "vn", "nv", "cc"], &f64_expect_rec);
    gen_matrix(g, "c04.fp", "@ tape", " fp", Kind::Fp);
    gen_matrix(g, "c04.rat", "@ tape", " rat", Kind::Rat);
    gen_int(g, "c04", "rec", &INT_PAIRINGS);
    if g.thorough {
        gen_chain(g, "c04.fp", "@ tape fp big", 70_100);
    }
    // hand-written cases first: one of each one-constant-operand shape
    for line in [
        "@ tape fp", "var r0 5 via=record", "const r1 7 via=constant", "sub r2 r1 r0 via=ref_ref",
        "div r3 r1 r0 via=ref_ref", "mul r4 r1 r0 via=ref_ref", "add r5 r1 r0 via=ref_ref",
        "pow r6 r1 r0 via=ref_ref", "pow r7 r0 r1 via=ref_ref", "binary r8 r1 r0 fn=psq",
        "binary r9 r0 r1 fn=psq", "sum r10 r1,r0,r1,r0", "derivs r2 via=vec", "derivs r3 via=vec",
        "derivs r4 via=vec", "derivs r5 via=vec", "derivs r6 via=vec", "derivs r7 via=vec",
        "derivs r8 via=vec", "derivs r9 via=vec", "derivs r10 via=vec", "derivs r1 via=vec",
        "tryderivs r1", "tryderivs r0",
        // equal numbers at different positions / of different kinds
        "@ tape fp via=default", "var r0 5 via=record", "const r1 5 via=constant", "var r2 5 via=list",
        "addn r3 r0 0 via=ref_ref", "clone r4 r3", "cmp eq r0 r1 via=ref", "cmp eq r0 r2 via=val",
        "cmp ne r0 r3 via=method", "cmp le r3 r1 via=ref", "cmp ge r1 r3 via=val", "cmp lt r0 r2 via=ref",
        "cmp pcmp r2 r3 via=ref", "cmp eq r4 r3 via=ref", "cmp pcmp r1 r1 via=ref", "show r3", "show r1",
        "derivs r4 via=vec",
    ] {
        g.op(line.to_string());
    }
    for _ in 0..n_fp {
        gen_program(g, Kind::Fp, "c04.fp", "@ tape fp", 40);
    }
    for _ in 0..n_rat {
        gen_program(g, Kind::Rat, "c04.rat", "@ tape rat", 10);
    }
    if !g.thorough {
        // the quick tier too sees ONE tape of more than 65 535 entries whose last operations use
        // the first variable (a parent more than 70 000 entries back); emitted last, so that every
        // other quick case is the one it was
        gen_chain(g, "c04.fp", "@ tape fp big", 70_100);
    }
}

// ---------------------------------------------------------------------------------------------
// execution against the implementation
// ---------------------------------------------------------------------------------------------

/// A `WengertList` that outlives the records pointing into it: allocated on the heap, freed by
/// hand when the case is dropped (after the records).
pub struct TapeBox<T: Primitive + 'static> {
    ptr: *mut WengertList<T>,
}
impl<T: Primitive + 'static> TapeBox<T> {
    pub fn new() -> TapeBox<T> {
        TapeBox { ptr: Box::into_raw(Box::new(WengertList::new())) }
    }
    /// `via=default`: `WengertList::default()` instead of `WengertList::new()`
    pub fn via(via: &str) -> TapeBox<T> {
        match via {
            "default" => TapeBox::from_list(<WengertList<T> as Default>::default()),
            _ => TapeBox::new(),
        }
    }
    pub fn from_list(list: WengertList<T>) -> TapeBox<T> {
        TapeBox { ptr: Box::into_raw(Box::new(list)) }
    }
    pub fn get(&self) -> &'static WengertList<T> {
        unsafe { &*self.ptr }
    }
}
impl<T: Primitive + 'static> Drop for TapeBox<T> {
    fn drop(&mut self) {
        unsafe { drop(Box::from_raw(self.ptr)) }
    }
}

pub type Rc<T> = Record<'static, T>;

pub struct CaseG<T: Numeric + Primitive + 'static> {
    // field order matters: records are dropped before the tapes
    pub recs: Vec<Rc<T>>,
    pub names: Names,
    pub vars: Vec<usize>,
    pub tapes: Vec<TapeBox<T>>,
}

impl<T: Numeric + Primitive + 'static> CaseG<T> {
    pub fn new(ntapes: usize) -> CaseG<T> {
        CaseG::new_via(ntapes, "new")
    }
    pub fn new_via(ntapes: usize, via: &str) -> CaseG<T> {
        CaseG { recs: vec![], names: Names::new(), vars: vec![], tapes: (0..ntapes).map(|_| TapeBox::via(via)).collect() }
    }
}

pub fn show_rec<T: Numeric + Primitive + std::fmt::Display>(r: &Rc<T>) -> String {
    format!("v={} const={} ## idx={}", r.number, if r.history().is_none() { 1 } else { 0 }, r.index)
}

/// Instruction kinds available for every Numeric element type.  Returns None when `toks` is not
/// such an instruction.
pub fn arith_instr<T>(c: &CaseG<T>, toks: &[&str], tape: usize) -> Option<Result<Rc<T>, PanicKind>>
where
    T: Numeric + Primitive + El,
    for<'a> &'a T: NumericRef<T>,
{
    let via = opt_arg("via", toks).unwrap_or("");
    let rec = |s: &str| &c.recs[c.names[s]];
    let r = match toks[0] {
        "const" => {
            let v = T::parse(toks[2]);
            catch(|| match via {
                "zero" => <Rc<T> as ZeroOne>::zero(),
                "one" => <Rc<T> as ZeroOne>::one(),
                "from_usize" => <Rc<T> as FromUsize>::from_usize(toks[2].parse().unwrap()).unwrap(),
                _ => Record::constant(v),
            })
        }
        "var" => {
            let v = T::parse(toks[2]);
            let list = c.tapes[tape].get();
            catch(|| match via {
                "list" => list.variable(v),
                _ => Record::variable(v, list),
            })
        }
        "add" => { let (a, b) = (rec(toks[2]), rec(toks[3])); catch(|| op4!(via, a, b, Add::add)) }
        "sub" => { let (a, b) = (rec(toks[2]), rec(toks[3])); catch(|| op4!(via, a, b, Sub::sub)) }
        "mul" => { let (a, b) = (rec(toks[2]), rec(toks[3])); catch(|| op4!(via, a, b, Mul::mul)) }
        "div" => { let (a, b) = (rec(toks[2]), rec(toks[3])); catch(|| op4!(via, a, b, Div::div)) }
        "addn" => { let (a, b) = (rec(toks[2]), &T::parse(toks[3])); catch(|| op4!(via, a, b, Add::add)) }
        "subn" => { let (a, b) = (rec(toks[2]), &T::parse(toks[3])); catch(|| op4!(via, a, b, Sub::sub)) }
        "muln" => { let (a, b) = (rec(toks[2]), &T::parse(toks[3])); catch(|| op4!(via, a, b, Mul::mul)) }
        "divn" => { let (a, b) = (rec(toks[2]), &T::parse(toks[3])); catch(|| op4!(via, a, b, Div::div)) }
        "subsw" => {
            let (a, b) = (rec(toks[2]), &T::parse(toks[3]));
            catch(|| op4!(via, a, b, SwappedOperations::sub_swapped))
        }
        "divsw" => {
            let (a, b) = (rec(toks[2]), &T::parse(toks[3]));
            catch(|| op4!(via, a, b, SwappedOperations::div_swapped))
        }
        "neg" => { let a = rec(toks[2]); catch(|| op2!(via, a, Neg::neg)) }
        "clone" => {
            let a = rec(toks[2]);
            // `clone_from`: into an unrelated existing record (all three fields are overwritten)
            let dest = c.recs.first().cloned().unwrap_or_else(|| Record::constant(T::zero()));
            catch(|| match via {
                "clone_from" => {
                    let mut d = dest;
                    Clone::clone_from(&mut d, a);
                    d
                }
                _ => Clone::clone(a),
            })
        }
        "sum" => {
            let items: Vec<Rc<T>> = split_comma(toks[2]).iter().map(|s| rec(s).clone()).collect();
            catch(|| items.into_iter().sum::<Rc<T>>())
        }
        "unary" => {
            let a = rec(toks[2]);
            let (f, df) = unary_fn::<T>(opt_arg("fn", toks).unwrap());
            catch(|| a.unary(f, df))
        }
        "binary" => {
            let (a, b) = (rec(toks[2]), rec(toks[3]));
            let (f, dfx, dfy) = binary_fn::<T>(opt_arg("fn", toks).unwrap());
            catch(|| a.binary(b, f, dfx, dfy))
        }
        _ => return None,
    };
    Some(r)
}

/// The real-function instructions (element type Fp only).
pub fn real_instr(c: &CaseG<Fp>, toks: &[&str]) -> Option<Result<Rc<Fp>, PanicKind>> {
    let via = opt_arg("via", toks).unwrap_or("");
    let rec = |s: &str| &c.recs[c.names[s]];
    let r = match toks[0] {
        "const" if via == "pi" => catch(|| <Rc<Fp> as Pi>::pi()),
        "sin" => { let a = rec(toks[2]); catch(|| op2!(via, a, Sin::sin)) }
        "cos" => { let a = rec(toks[2]); catch(|| op2!(via, a, Cos::cos)) }
        "exp" => { let a = rec(toks[2]); catch(|| op2!(via, a, Exp::exp)) }
        "ln" => { let a = rec(toks[2]); catch(|| op2!(via, a, Ln::ln)) }
        "sqrt" => { let a = rec(toks[2]); catch(|| op2!(via, a, Sqrt::sqrt)) }
        "pow" => { let (a, b) = (rec(toks[2]), rec(toks[3])); catch(|| op4!(via, a, b, Pow::pow)) }
        "pown" => { let (a, b) = (rec(toks[2]), &Fp::parse(toks[3])); catch(|| op4!(via, a, b, Pow::pow)) }
        "npow" => { let (a, b) = (&Fp::parse(toks[2]), rec(toks[3])); catch(|| op4!(via, a, b, Pow::pow)) }
        _ => return None,
    };
    Some(r)
}

/// `cmp <op> <a> <b> via=ref|val|method` on any type with PartialEq + PartialOrd (records, traces)
pub fn cmp_answer<V: PartialOrd>(op: &str, via: &str, a: &V, b: &V) -> String {
    use std::cmp::Ordering;
    let flag = |x: bool| format!("c={}", x);
    match (op, via) {
        ("eq", "val") => flag(*a == *b),
        ("eq", "method") => flag(PartialEq::eq(a, b)),
        ("eq", _) => flag(a == b),
        ("ne", "val") => flag(*a != *b),
        ("ne", "method") => flag(PartialEq::ne(a, b)),
        ("ne", _) => flag(a != b),
        ("lt", "val") => flag(*a < *b),
        ("lt", "method") => flag(PartialOrd::lt(a, b)),
        ("lt", _) => flag(a < b),
        ("le", "val") => flag(*a <= *b),
        ("le", "method") => flag(PartialOrd::le(a, b)),
        ("le", _) => flag(a <= b),
        ("gt", "val") => flag(*a > *b),
        ("gt", "method") => flag(PartialOrd::gt(a, b)),
        ("gt", _) => flag(a > b),
        ("ge", "val") => flag(*a >= *b),
        ("ge", "method") => flag(PartialOrd::ge(a, b)),
        ("ge", _) => flag(a >= b),
        ("pcmp", _) => match a.partial_cmp(b) {
            Some(Ordering::Less) => "c=less".into(),
            Some(Ordering::Equal) => "c=equal".into(),
            Some(Ordering::Greater) => "c=greater".into(),
            None => "c=none".into(),
        },
        _ => "bad-op".into(),
    }
}

pub const CMP_OPS: [&str; 7] = ["eq", "ne", "lt", "le", "gt", "ge", "pcmp"];
pub const CMP_FORMS: [&str; 3] = ["ref", "val", "method"];

/// `cmp` / `show` lines on records
pub fn observe_line<T>(c: &CaseG<T>, toks: &[&str]) -> Option<String>
where
    T: Numeric + Primitive + El,
{
    match toks[0] {
        "cmp" => {
            let (a, b) = (&c.recs[c.names[toks[2]]], &c.recs[c.names[toks[3]]]);
            let via = opt_arg("via", toks).unwrap_or("ref");
            Some(match catch(|| cmp_answer(toks[1], via, a, b)) {
                Ok(s) => s,
                Err(k) => panic_str(k),
            })
        }
        "show" => {
            let a = &c.recs[c.names[toks[1]]];
            Some(match catch(|| format!("s={}", a)) {
                Ok(s) => s,
                Err(k) => panic_str(k),
            })
        }
        "debug" => {
            let a = &c.recs[c.names[toks[1]]];
            Some(match catch(|| format!("dbg ## {:?}", a)) {
                Ok(s) => s,
                Err(k) => panic_str(k),
            })
        }
        _ => None,
    }
}

pub fn derivs_line<T>(c: &CaseG<T>, toks: &[&str]) -> String
where
    T: Numeric + Primitive + El,
    for<'a> &'a T: NumericRef<T>,
{
    let via = opt_arg("via", toks).unwrap_or("vec");
    let r = &c.recs[c.names[toks[1]]];
    if toks[0] == "debugd" {
        return match catch(|| format!("dbg ## {:?}", r.derivatives())) {
            Ok(s) => s,
            Err(k) => panic_str(k),
        };
    }
    let try_ = toks[0] == "tryderivs";
    let d = if try_ {
        match catch(|| r.try_derivatives()) {
            Ok(None) => return "none".to_string(),
            Ok(Some(d)) => d,
            Err(k) => return panic_str(k),
        }
    } else {
        match catch(|| r.derivatives()) {
            Ok(d) => d,
            Err(k) => return panic_str(k),
        }
    };
    let per_input = catch(|| {
        c.vars
            .iter()
            .map(|&i| {
                let x = &c.recs[i];
                match via {
                    "at" => d.at(x),
                    "index" => d[x].clone(),
                    "into" => { let v: Vec<T> = d.clone().into(); v[x.index].clone() }
                    _ => Vec::from(d.clone())[x.index].clone(),
                }
            })
            .collect::<Vec<T>>()
    });
    let per_input = match per_input {
        Ok(v) => v,
        Err(k) => return panic_str(k),
    };
    let full: Vec<T> = Vec::from(d);
    format!("{}d={} ## full={}", if try_ { "some " } else { "" }, show_list(&per_input), show_list(&full))
}

enum Case {
    None,
    Fp(CaseG<Fp>),
    Rat(CaseG<Rat>),
}

pub struct Runner {
    case: Case,
}

fn finish<T: Numeric + Primitive + El>(c: &mut CaseG<T>, toks: &[&str], r: Result<Rc<T>, PanicKind>) -> String {
    match r {
        Ok(r) => {
            let s = show_rec(&r);
            if toks[0] == "var" {
                c.vars.push(c.recs.len());
            }
            c.names.insert(toks[1].to_string(), c.recs.len());
            c.recs.push(r);
            s
        }
        Err(k) => panic_str(k),
    }
}

impl Runner {
    pub fn new() -> Runner {
        Runner { case: Case::None }
    }

    pub fn step(&mut self, toks: &[&str]) -> String {
        if toks.is_empty() {
            return "bad-op".into();
        }
        if toks[0] == "@" && toks.get(1) == Some(&"f64") {
            self.case = Case::None;
            return f64_line_rec(toks);
        }
        if toks[0] == "@" && toks.get(1) == Some(&"int") {
            self.case = Case::None;
            return if toks[3] == "i32" { int32::line_rec(toks) } else { int64::line_rec(toks) };
        }
        if toks[0] == "@" {
            // drop the old case (records, then tapes) before the new one is made
            self.case = Case::None;
            let via = opt_arg("via", toks).unwrap_or("new");
            self.case = match toks.get(2) {
                Some(&"rat") => Case::Rat(CaseG::new_via(1, via)),
                _ => Case::Fp(CaseG::new_via(1, via)),
            };
            return "ok".into();
        }
        match &mut self.case {
            Case::None => "bad-op".into(),
            Case::Fp(c) => {
                if !refs_ok(&c.names, toks, refs_from(toks)) {
                    return "bad-ref".into();
                }
                if let Some(ans) = observe_line(c, toks) {
                    return ans;
                }
                if toks[0] == "derivs" || toks[0] == "tryderivs" || toks[0] == "debugd" {
                    return derivs_line::<Fp>(c, toks);
                }
                let r = real_instr(c, toks).or_else(|| arith_instr::<Fp>(c, toks, 0));
                match r {
                    Some(r) => finish(c, toks, r),
                    None => "bad-op".into(),
                }
            }
            Case::Rat(c) => {
                if !refs_ok(&c.names, toks, refs_from(toks)) {
                    return "bad-ref".into();
                }
                if let Some(ans) = observe_line(c, toks) {
                    return ans;
                }
                if toks[0] == "derivs" || toks[0] == "tryderivs" || toks[0] == "debugd" {
                    return derivs_line::<Rat>(c, toks);
                }
                match arith_instr::<Rat>(c, toks, 0) {
                    Some(r) => finish(c, toks, r),
                    None => "bad-op".into(),
                }
            }
        }
    }
}
