//! User-defined exact element types used to drive easy-ml's generic numeric code.
//!
//! `Fp` — the prime field with p = 2^61 - 1.  `x / 0 = 0` (the convention of Lean/Mathlib
//! fields, so the Lean model instantiated at its own `Fp` agrees bit for bit).  The
//! transcendental functions (`sqrt exp ln sin cos pow`, `pi`) are *uninterpreted*: fixed
//! pseudo-random functions of their argument(s), identical to `EasyMl.Fp.uf` in
//! lean/EasyMl/Model/Fp.lean.  Two rational expressions (with these function symbols) that
//! differ as formulas differ at a random point of Fp with probability about 1 - degree/2^61,
//! so one evaluation at random inputs compares the *formula* the code computes, not a sample
//! of a float function.  The order is that of the signed representative in (-p/2, p/2], so both
//! outcomes of comparisons such as `x <= 0` occur for random values.
//!
//! `Rat` — exact rationals over i128 (checked; panics with "Rat overflow" if exceeded).

use easy_ml::differentiation::Primitive;
use easy_ml::numeric::extra::{Cos, Exp, Ln, Pi, Pow, Sin, Sqrt};
use easy_ml::numeric::{FromUsize, ZeroOne};
use std::cmp::Ordering;
use std::iter::Sum;
use std::ops::{Add, Div, Mul, Neg, Sub};

pub const P: u64 = (1u64 << 61) - 1;

#[derive(Clone, Debug, PartialEq, Eq, Hash)]
pub struct Fp(pub u64);

pub fn mix(mut z: u64) -> u64 {
    z = z.wrapping_add(0x9E37_79B9_7F4A_7C15);
    z = (z ^ (z >> 30)).wrapping_mul(0xBF58_476D_1CE4_E5B9);
    z = (z ^ (z >> 27)).wrapping_mul(0x94D0_49BB_1331_11EB);
    z ^ (z >> 31)
}

/// The uninterpreted function symbol number `tag` applied to `x`.
pub fn uf(tag: u64, x: u64) -> u64 {
    mix(tag.wrapping_mul(0x2545_F491_4F6C_DD1D).wrapping_add(x)) % P
}

pub fn uf2(tag: u64, x: u64, y: u64) -> u64 {
    uf(tag, mix(x).wrapping_add(y.wrapping_mul(3)))
}

pub const TAG_SQRT: u64 = 1;
pub const TAG_EXP: u64 = 2;
pub const TAG_LN: u64 = 3;
pub const TAG_SIN: u64 = 4;
pub const TAG_COS: u64 = 5;
pub const TAG_POW: u64 = 6;
pub const TAG_PI: u64 = 7;

impl Fp {
    pub fn new(v: u64) -> Fp {
        Fp(v % P)
    }
    pub fn from_i64(v: i64) -> Fp {
        if v >= 0 { Fp::new(v as u64) } else { -Fp::new(v.unsigned_abs()) }
    }
    pub fn pow_u64(&self, mut e: u64) -> Fp {
        let mut base = self.clone();
        let mut acc = Fp(1);
        while e > 0 {
            if e & 1 == 1 {
                acc = &acc * &base;
            }
            base = &base * &base;
            e >>= 1;
        }
        acc
    }
    /// multiplicative inverse, with inv(0) = 0
    pub fn inv(&self) -> Fp {
        self.pow_u64(P - 2)
    }
    /// signed representative in (-p/2, p/2]
    pub fn signed(&self) -> i64 {
        if self.0 > P / 2 { self.0 as i64 - P as i64 } else { self.0 as i64 }
    }
}

impl std::fmt::Display for Fp {
    fn fmt(&self, f: &mut std::fmt::Formatter) -> std::fmt::Result {
        write!(f, "{}", self.0)
    }
}

fn fp_add(a: &Fp, b: &Fp) -> Fp {
    Fp((a.0 + b.0) % P)
}
fn fp_sub(a: &Fp, b: &Fp) -> Fp {
    Fp((a.0 + P - b.0) % P)
}
fn fp_mul(a: &Fp, b: &Fp) -> Fp {
    Fp(((a.0 as u128 * b.0 as u128) % P as u128) as u64)
}
fn fp_div(a: &Fp, b: &Fp) -> Fp {
    fp_mul(a, &b.inv())
}

macro_rules! four_forms {
    ($T:ident, $Trait:ident, $method:ident, $f:ident) => {
        impl $Trait<$T> for $T {
            type Output = $T;
            fn $method(self, rhs: $T) -> $T { $f(&self, &rhs) }
        }
        impl<'a> $Trait<&'a $T> for $T {
            type Output = $T;
            fn $method(self, rhs: &$T) -> $T { $f(&self, rhs) }
        }
        impl<'a> $Trait<$T> for &'a $T {
            type Output = $T;
            fn $method(self, rhs: $T) -> $T { $f(self, &rhs) }
        }
        impl<'a, 'b> $Trait<&'b $T> for &'a $T {
            type Output = $T;
            fn $method(self, rhs: &$T) -> $T { $f(self, rhs) }
        }
    };
}

four_forms!(Fp, Add, add, fp_add);
four_forms!(Fp, Sub, sub, fp_sub);
four_forms!(Fp, Mul, mul, fp_mul);
four_forms!(Fp, Div, div, fp_div);

impl Neg for Fp {
    type Output = Fp;
    fn neg(self) -> Fp { Fp((P - self.0) % P) }
}
impl<'a> Neg for &'a Fp {
    type Output = Fp;
    fn neg(self) -> Fp { Fp((P - self.0) % P) }
}

impl ZeroOne for Fp {
    fn zero() -> Fp { Fp(0) }
    fn one() -> Fp { Fp(1) }
}
impl FromUsize for Fp {
    fn from_usize(n: usize) -> Option<Fp> { Some(Fp((n as u64) % P)) }
}
impl Sum for Fp {
    fn sum<I: Iterator<Item = Fp>>(iter: I) -> Fp {
        iter.fold(Fp(0), |a, b| a + b)
    }
}
impl<'a> Sum<&'a Fp> for Fp {
    fn sum<I: Iterator<Item = &'a Fp>>(iter: I) -> Fp {
        iter.fold(Fp(0), |a, b| a + b)
    }
}
impl PartialOrd for Fp {
    fn partial_cmp(&self, other: &Fp) -> Option<Ordering> {
        Some(self.signed().cmp(&other.signed()))
    }
}
impl Primitive for Fp {}

macro_rules! unary_uf {
    ($T:ident, $Trait:ident, $method:ident, $tag:expr) => {
        impl $Trait for $T {
            type Output = $T;
            fn $method(self) -> $T { $T(uf($tag, self.0)) }
        }
        impl<'a> $Trait for &'a $T {
            type Output = $T;
            fn $method(self) -> $T { $T(uf($tag, self.0)) }
        }
    };
}
unary_uf!(Fp, Sqrt, sqrt, TAG_SQRT);
unary_uf!(Fp, Exp, exp, TAG_EXP);
unary_uf!(Fp, Ln, ln, TAG_LN);
unary_uf!(Fp, Sin, sin, TAG_SIN);
unary_uf!(Fp, Cos, cos, TAG_COS);

fn fp_pow(a: &Fp, b: &Fp) -> Fp {
    Fp(uf2(TAG_POW, a.0, b.0))
}
four_forms!(Fp, Pow, pow, fp_pow);

impl Pi for Fp {
    fn pi() -> Fp { Fp(uf(TAG_PI, 0)) }
}

// ---------------------------------------------------------------------------------------------
// exact rationals
// ---------------------------------------------------------------------------------------------

#[derive(Clone, Debug, PartialEq, Eq, Hash)]
pub struct Rat {
    pub n: i128,
    pub d: i128, // > 0, gcd(n, d) = 1
}

fn gcd(mut a: i128, mut b: i128) -> i128 {
    a = a.abs();
    b = b.abs();
    while b != 0 {
        let t = a % b;
        a = b;
        b = t;
    }
    a
}

impl Rat {
    pub fn new(n: i128, d: i128) -> Rat {
        // x / 0 = 0, the same convention as Fp and as Lean's Rat
        if d == 0 {
            return Rat { n: 0, d: 1 };
        }
        let g = gcd(n, d);
        let (mut n, mut d) = (n / g, d / g);
        if d < 0 {
            n = -n;
            d = -d;
        }
        Rat { n, d }
    }
    pub fn int(n: i64) -> Rat {
        Rat { n: n as i128, d: 1 }
    }
}

impl std::fmt::Display for Rat {
    fn fmt(&self, f: &mut std::fmt::Formatter) -> std::fmt::Result {
        if self.d == 1 { write!(f, "{}", self.n) } else { write!(f, "{}/{}", self.n, self.d) }
    }
}

fn ck(v: Option<i128>) -> i128 {
    v.expect("Rat overflow")
}
fn rat_add(a: &Rat, b: &Rat) -> Rat {
    Rat::new(ck(ck(a.n.checked_mul(b.d)).checked_add(ck(b.n.checked_mul(a.d)))), ck(a.d.checked_mul(b.d)))
}
fn rat_sub(a: &Rat, b: &Rat) -> Rat {
    Rat::new(ck(ck(a.n.checked_mul(b.d)).checked_sub(ck(b.n.checked_mul(a.d)))), ck(a.d.checked_mul(b.d)))
}
fn rat_mul(a: &Rat, b: &Rat) -> Rat {
    Rat::new(ck(a.n.checked_mul(b.n)), ck(a.d.checked_mul(b.d)))
}
fn rat_div(a: &Rat, b: &Rat) -> Rat {
    Rat::new(ck(a.n.checked_mul(b.d)), ck(a.d.checked_mul(b.n)))
}
four_forms!(Rat, Add, add, rat_add);
four_forms!(Rat, Sub, sub, rat_sub);
four_forms!(Rat, Mul, mul, rat_mul);
four_forms!(Rat, Div, div, rat_div);
impl Neg for Rat {
    type Output = Rat;
    fn neg(self) -> Rat { Rat { n: -self.n, d: self.d } }
}
impl<'a> Neg for &'a Rat {
    type Output = Rat;
    fn neg(self) -> Rat { Rat { n: -self.n, d: self.d } }
}
impl ZeroOne for Rat {
    fn zero() -> Rat { Rat::int(0) }
    fn one() -> Rat { Rat::int(1) }
}
impl FromUsize for Rat {
    fn from_usize(n: usize) -> Option<Rat> { Some(Rat { n: n as i128, d: 1 }) }
}
impl Sum for Rat {
    fn sum<I: Iterator<Item = Rat>>(iter: I) -> Rat {
        iter.fold(Rat::int(0), |a, b| a + b)
    }
}
impl<'a> Sum<&'a Rat> for Rat {
    fn sum<I: Iterator<Item = &'a Rat>>(iter: I) -> Rat {
        iter.fold(Rat::int(0), |a, b| a + b)
    }
}
impl PartialOrd for Rat {
    fn partial_cmp(&self, other: &Rat) -> Option<Ordering> {
        Some(ck(self.n.checked_mul(other.d)).cmp(&ck(other.n.checked_mul(self.d))))
    }
}
impl Primitive for Rat {}

/// exact square root of a rational that is a perfect square; panics ("Rat inexact sqrt") otherwise
pub fn isqrt(v: i128) -> Option<i128> {
    if v < 0 {
        return None;
    }
    let mut r = (v as f64).sqrt() as i128;
    while r * r > v {
        r -= 1;
    }
    while (r + 1) * (r + 1) <= v {
        r += 1;
    }
    if r * r == v { Some(r) } else { None }
}
fn rat_sqrt(a: &Rat) -> Rat {
    match (isqrt(a.n), isqrt(a.d)) {
        (Some(n), Some(d)) => Rat::new(n, d),
        _ => panic!("Rat inexact sqrt of {}", a),
    }
}
impl Sqrt for Rat {
    type Output = Rat;
    fn sqrt(self) -> Rat { rat_sqrt(&self) }
}
impl<'a> Sqrt for &'a Rat {
    type Output = Rat;
    fn sqrt(self) -> Rat { rat_sqrt(self) }
}

#[cfg(test)]
mod tests {
    use super::*;
    #[test]
    fn agrees_with_lean() {
        assert_eq!((Fp(12345) / Fp(678)).0, 1397789788771133077);
        assert_eq!(Fp(12345).sqrt().0, 1312343415642084235);
        assert_eq!(Fp(12345).pow(Fp(77)).0, 1417914145097520075);
        assert_eq!(Fp::pi().0, 1311325525161987955);
        assert_eq!((Fp(5) / Fp(0)).0, 0);
        assert_eq!(Fp::from_i64(-5).0, 2305843009213693946);
    }
    fn takes_real<T: easy_ml::numeric::extra::Real>()
    where
        for<'a> &'a T: easy_ml::numeric::extra::RealRef<T>,
    {
    }
    #[test]
    fn fp_is_real() {
        takes_real::<Fp>();
    }
}
