//! C01 — named-dimension addressing.  See lean/Driver/C01.lean for the protocol.

use crate::util::*;
#[path = "surface.rs"]
mod surface;
use crate::with_d;
use easy_ml::tensors::indexing::TensorAccess;
use easy_ml::tensors::views::{TensorMut, TensorRef};
use easy_ml::tensors::Tensor;

const SENTINEL: u64 = 999_999_999;

/// An element type without `Clone`.
#[derive(Debug, PartialEq)]
struct NoClone(u64);

// ---------------------------------------------------------------------------------------------
// generation
// ---------------------------------------------------------------------------------------------

fn shapes_up_to(max_d: usize, max_product: usize) -> Vec<Vec<usize>> {
    fn go(cur: &mut Vec<usize>, prod: usize, max_d: usize, max_product: usize, out: &mut Vec<Vec<usize>>) {
        out.push(cur.clone());
        if cur.len() == max_d {
            return;
        }
        let mut l = 1;
        while prod * l <= max_product {
            cur.push(l);
            go(cur, prod * l, max_d, max_product, out);
            cur.pop();
            l += 1;
        }
    }
    let mut out = vec![];
    go(&mut vec![], 1, max_d, max_product, &mut out);
    out
}

const NAME_POOL: [&str; 8] = ["a", "b", "c", "d", "e", "f", "row", "column"];

fn named(g: &mut Gen, lens: &[usize]) -> Vec<(&'static str, usize)> {
    let mut pool: Vec<&str> = NAME_POOL.to_vec();
    g.rng.shuffle(&mut pool);
    lens.iter().enumerate().map(|(i, l)| (intern(pool[i]), *l)).collect()
}

const GET_VIAS: [&str; 12] = [
    "try_get_reference", "get_ref", "get", "try_get_reference_mut", "get_ref_mut", "tensorref",
    "tensormut", "noclone", "view_index_by", "view_index_by_mut", "view_index_by_owned",
    "view_owned",
];
/// getters that go through the source-order accessors (`index`, `index_mut`, `index_owned` of
/// Tensor and TensorView); only meaningful when the requested order is the tensor's own
const GET_VIAS_SOURCE_ORDER: [&str; 6] =
    ["index", "index_mut", "index_owned", "view_index", "view_index_mut", "view_index_owned"];
const SET_VIAS: [&str; 3] = ["get_ref_mut", "try_get_reference_mut", "tensormut"];
const INDEX_VIAS: [&str; 9] = [
    "index_by", "index_by_mut", "index_by_owned", "try_from", "from", "view_index_by",
    "view_index_by_mut", "view_index_by_owned", "view_owned",
];

/// the producer handed to `Tensor::from_fn` (the Lean driver uses the same)
fn code(idx: &[usize]) -> u64 {
    idx.iter().fold(1000u64, |acc, &i| acc * 7 + i as u64 + 1)
}

fn index_tuples(lens: &[usize], ring: &[usize]) -> Vec<Vec<usize>> {
    // every coordinate in 0..=len plus the extra `ring` values, for every dimension
    let mut out: Vec<Vec<usize>> = vec![vec![]];
    for &l in lens {
        let mut choices: Vec<usize> = (0..=l).collect();
        choices.extend_from_slice(ring);
        let mut next = vec![];
        for prefix in &out {
            for &c in &choices {
                let mut p = prefix.clone();
                p.push(c);
                next.push(p);
            }
        }
        out = next;
    }
    out
}

fn gen_tensor_case(g: &mut Gen, shape: &[(&'static str, usize)], all_perms: bool, full_indexes: bool, ctor: &str) {
    let max_perms = if all_perms { usize::MAX } else { 3 };
    gen_tensor_case_sized(g, shape, max_perms, &[], full_indexes, 24, ctor);
}

/// `max_perms`: how many orderings (always including `must_include`); `tuples`: sampled index
/// tuples per ordering when not `full_indexes`.
fn gen_tensor_case_sized(
    g: &mut Gen,
    shape: &[(&'static str, usize)],
    max_perms: usize,
    must_include: &[Vec<usize>],
    full_indexes: bool,
    tuples: usize,
    ctor: &str,
) {
    let d = shape.len();
    let n: usize = shape.iter().map(|s| s.1).product();
    if ctor == "from_fn" {
        g.op(format!("@ from_fn {}", show_shape(shape)));
        g.count("constructor.from_fn");
    } else {
        g.op(format!("@ from {} {}", show_shape(shape), n));
    }
    g.count(&format!("tensor.D={}", d));
    // shape look-ups: names, element count, position / length / last index of every name
    g.op("names".to_string());
    g.count("names");
    {
        let mut asked: Vec<&str> = shape.iter().map(|s| s.0).collect();
        asked.push("zz");
        for name in asked {
            let via = *g.rng.pick(&["tensor", "view", "dims"]);
            g.op(format!("dim {} via={}", name, via));
            g.count(&format!("dim.via.{}", via));
        }
    }
    let mut perms = permutations(d);
    if perms.len() > max_perms {
        g.rng.shuffle(&mut perms);
        perms.truncate(max_perms);
        for m in must_include {
            if !perms.contains(m) {
                perms.push(m.clone());
            }
        }
    }
    for perm in perms {
        let names: Vec<&str> = perm.iter().map(|&p| shape[p].0).collect();
        let lens: Vec<usize> = perm.iter().map(|&p| shape[p].1).collect();
        let identity = (0..d).all(|i| perm[i] == i);
        let via = if identity && g.rng.chance(1, 2) {
            *g.rng.pick(&GET_VIAS_SOURCE_ORDER)
        } else {
            *g.rng.pick(&INDEX_VIAS)
        };
        g.op(format!("index_by {} via={}", show_names(&names), via));
        g.count("index_by.permutation");
        g.count(&format!("index_by.via.{}", via));
        let involution = (0..d).all(|i| perm[perm[i]] == i);
        if !involution {
            g.count("index_by.non_involutive_permutation");
        }
        let tuples = if full_indexes {
            index_tuples(&lens, &[usize::MAX])
        } else {
            let mut t = vec![];
            for _ in 0..tuples {
                t.push(
                    lens.iter()
                        .map(|&l| match g.rng.below(10) {
                            0 => l,
                            1 => usize::MAX,
                            2 => l + 1,
                            _ => g.rng.below(l),
                        })
                        .collect::<Vec<usize>>(),
                );
            }
            t
        };
        for idx in tuples {
            let inside = idx.iter().zip(lens.iter()).all(|(i, l)| i < l);
            g.count(if inside { "get.in_bounds" } else { "get.out_of_bounds" });
            let via = if inside && g.rng.chance(1, 8) {
                "unchecked"
            } else if identity && g.rng.chance(1, 3) {
                *g.rng.pick(&GET_VIAS_SOURCE_ORDER)
            } else {
                *g.rng.pick(&GET_VIAS)
            };
            g.op(format!("get {} via={}", show_usizes(&idx), via));
            if g.rng.chance(1, 3) {
                let via = *g.rng.pick(&SET_VIAS);
                g.op(format!("set {} via={}", show_usizes(&idx), via));
                g.count(if inside { "set.in_bounds" } else { "set.out_of_bounds" });
            }
        }
    }
    // name lists that are not permutations: a repeated name, an unknown name, both
    if d >= 1 {
        let names: Vec<&str> = shape.iter().map(|s| s.0).collect();
        let mut bad = vec![];
        if d >= 2 {
            let mut rep = names.clone();
            rep[1] = rep[0];
            bad.push(rep);
            let mut rep = names.clone();
            rep[0] = rep[d - 1];
            bad.push(rep);
        }
        let mut unk = names.clone();
        unk[d - 1] = "zz";
        bad.push(unk);
        let mut unk = names.clone();
        unk[0] = "zz";
        bad.push(unk);
        if d >= 3 {
            let mut both = names.clone();
            both[0] = both[1];
            both[2] = "zz";
            bad.push(both);
            let mut swapped_rep = names.clone();
            swapped_rep.swap(0, 2);
            swapped_rep[1] = swapped_rep[0];
            bad.push(swapped_rep);
        }
        for b in bad {
            let via = *g.rng.pick(&INDEX_VIAS);
            g.op(format!("index_by {} via={}", show_names(&b), via));
            g.count("index_by.non_permutation");
        }
    }
}

fn gen_constructor_cases(g: &mut Gen) {
    // Tensor::from / try_from validation: wrong counts, duplicate names, zero lengths
    let shapes: Vec<Vec<(&str, usize)>> = vec![
        vec![],
        vec![("a", 1)],
        vec![("a", 3)],
        vec![("a", 0)],
        vec![("a", 2), ("b", 3)],
        vec![("a", 2), ("a", 3)],
        vec![("a", 2), ("b", 0)],
        vec![("a", 0), ("b", 0)],
        vec![("a", 2), ("b", 3), ("a", 2)],
        vec![("a", 2), ("b", 3), ("c", 2)],
        vec![("b", 2), ("b", 1), ("b", 1)],
        vec![("a", 1), ("b", 1), ("c", 1), ("d", 1), ("e", 1), ("f", 1)],
        vec![("a", 1), ("b", 1), ("c", 1), ("d", 1), ("e", 1), ("a", 1)],
    ];
    for shape in shapes {
        let shape: Vec<(&'static str, usize)> = shape.iter().map(|(n, l)| (intern(n), *l)).collect();
        let p: usize = shape.iter().map(|s| s.1).product();
        for n in [0usize, 1, p.saturating_sub(1), p, p + 1] {
            for kind in ["from", "try_from"] {
                g.op(format!("@ {} {} {}", kind, show_shape(&shape), n));
                g.count("constructor.case");
            }
        }
    }
}

fn gen_overflow_constructor_cases(g: &mut Gen) {
    // element counts that do not fit in a usize: rejected, never accepted with a wrapped product
    const H: usize = 1 << 63;
    const M: usize = usize::MAX;
    for shape in [
        vec![("a", H), ("b", 2usize)],
        vec![("a", 2), ("b", H)],
        vec![("a", M), ("b", M)],
        vec![("a", M), ("b", 2)],
        vec![("a", 1 << 32), ("b", 1 << 32)],
        vec![("a", 1 << 32), ("b", 1 << 31), ("c", 2)],
        vec![("a", H), ("b", 2), ("c", 0)],
        vec![("a", 0), ("b", H), ("c", 2)],
        vec![("a", H), ("a", 2)],
        vec![("a", M)],
        vec![("a", 1 << 22), ("b", 1 << 21), ("c", 1 << 21), ("d", 2)],
    ] {
        let shape: Vec<(&'static str, usize)> = shape.iter().map(|(n, l)| (intern(n), *l)).collect();
        for n in [0usize, 1, 2] {
            for kind in ["from", "try_from"] {
                g.op(format!("@ {} {} {}", kind, show_shape(&shape), n));
                g.count("constructor.count_overflows_usize");
            }
        }
    }
}

fn gen_extra_constructor_cases(g: &mut Gen) {
    gen_overflow_constructor_cases(g);
    // Tensor::from_fn on shapes it must reject (the producer is never or partly run)
    for shape in [
        vec![("a", 0usize)],
        vec![("a", 2), ("a", 3)],
        vec![("a", 2), ("b", 0)],
        vec![("a", 0), ("a", 0)],
        vec![("a", 2), ("b", 3), ("a", 2)],
    ] {
        let shape: Vec<(&'static str, usize)> = shape.iter().map(|(n, l)| (intern(n), *l)).collect();
        g.op(format!("@ from_fn {}", show_shape(&shape)));
        g.count("constructor.from_fn.rejected");
    }
    // 0-dimensional tensors from a scalar
    for via in ["from_scalar", "from", "into"] {
        let v = g.rng.below(1000);
        g.op(format!("@ from_scalar {} via={}", v, via));
        g.op("names".to_string());
        g.op("dim zz via=tensor".to_string());
        for iv in ["index_by", "index", "index_owned", "view_index_owned", "try_from"] {
            g.op(format!("index_by - via={}", iv));
            g.op("get - via=get".to_string());
            g.op("get - via=index_owned".to_string());
            g.op("set - via=get_ref_mut".to_string());
        }
        g.count("constructor.from_scalar");
    }
    // the plain record InvalidDimensionsError<D, P>
    for (provided, valid) in [
        ("-", "-"), ("a", "a,b"), ("a,a", "a,b"), ("x,y,x", "a"), ("a,b,c", "a,b,c"), ("-", "a,b,c"),
        ("b,a", "-"),
    ] {
        g.op(format!("@ from a:1 1"));
        g.op(format!("dimerr {} {}", provided, valid));
        g.count("dimerr");
    }
}

pub fn gen(g: &mut Gen) {
    gen_constructor_cases(g);
    gen_extra_constructor_cases(g);
    let (max_d, max_p) = if g.thorough { (4, 24) } else { (3, 12) };
    for lens in shapes_up_to(max_d, max_p) {
        let shape = named(g, &lens);
        gen_tensor_case(g, &shape, true, true, "from");
        // the same shape built by `from_fn` (sampled index tuples)
        gen_tensor_case(g, &shape, true, false, "from_fn");
    }
    // random larger shapes, D up to 6
    let n_random = if g.thorough { 400 } else { 60 };
    for _ in 0..n_random {
        let d = g.rng.range(3, 6);
        let mut lens = vec![];
        let mut prod = 1usize;
        for _ in 0..d {
            let l = g.rng.range(1, 5);
            if prod * l > 4096 {
                lens.push(1);
            } else {
                lens.push(l);
                prod *= l;
            }
        }
        let shape = named(g, &lens);
        let ctor = if g.rng.chance(1, 3) { "from_fn" } else { "from" };
        gen_tensor_case(g, &shape, false, false, ctor);
    }
    gen_large_cases(g);
    gen_names_cases(g);
    gen_surface_cases(g);
}

/// "API surface": every public read / write route of TensorAccess, TensorTranspose and Tensor
/// (see surface.rs), on shapes of dimensionality ≥ 3 with unequal lengths first.
fn gen_surface_cases(g: &mut Gen) {
    for lens in surface::SURFACE_SHAPES {
        let shape = named(g, lens);
        let n: usize = lens.iter().product();
        g.op(format!("@ from {} {}", show_shape(&shape), n));
        let names: Vec<&'static str> = shape.iter().map(|s| s.0).collect();
        surface::gen_surface_ops(g, &names);
    }
}

/// Adversarial dimension names: the names the library uses internally ("row", "column", "r",
/// "c", …), names that are prefixes of one another, one-letter names and the empty name; every
/// ordering, plus orderings that replace one name by a look-alike the tensor does not have.
fn gen_names_cases(g: &mut Gen) {
    for lens in [vec![3], vec![2, 3], vec![2, 2], vec![3, 2, 2], vec![1, 2, 1], vec![2, 3, 1, 2], vec![2, 1, 2, 1, 2]] {
        for _round in 0..3 {
            let d = lens.len();
            let names = adversarial_names(&mut g.rng, d);
            let shape: Vec<(&'static str, usize)> = names.iter().zip(lens.iter()).map(|(n, l)| (*n, *l)).collect();
            let ctor = if g.rng.chance(1, 3) { "from_fn" } else { "from" };
            gen_tensor_case_sized(g, &shape, 24, &[], false, 12, ctor);
            g.count("names.adversarial_case");
            let others: Vec<&str> = ADVERSARIAL_NAMES.iter().copied().filter(|n| !names.contains(n)).collect();
            for k in 0..d {
                let mut bad = names.clone();
                bad[k] = *g.rng.pick(&others);
                let via = *g.rng.pick(&INDEX_VIAS);
                g.op(format!("index_by {} via={}", show_names(&bad), via));
                g.op(format!("dim {} via=tensor", bad[k]));
                g.count("names.unknown_lookalike");
            }
        }
    }
    // constructors: repeated adversarial names (incl. the empty name twice) must be rejected
    for (a, b) in [(EMPTY_NAME, EMPTY_NAME), ("row", "row"), ("r", "rr"), ("row", "rows"), (EMPTY_NAME, "a")] {
        for kind in ["from", "try_from"] {
            g.op(format!("@ {} {}:2,{}:3 6", kind, a, b));
        }
        g.op(format!("@ from_fn {}:2,{}:3", a, b));
        g.count("names.constructor_pairs");
    }
}

/// Large cases (also in the quick tier): dimensionality 5 with all 120 orderings, dimensionality
/// 6 with a few hundred of the 720 (always including orderings that mix a swap with a 3-cycle,
/// 4-, 5- and 6-cycles), sides up to 12 in one dimension, larger 2-D and 3-D shapes with every
/// ordering and every boundary index tuple.
fn gen_large_cases(g: &mut Gen) {
    // D = 5, every ordering
    for lens in [vec![2, 1, 3, 2, 2], vec![2, 2, 2, 2, 2], vec![9, 1, 2, 1, 2], vec![1, 2, 1, 3, 11]] {
        let shape = named(g, &lens);
        let ctor = if g.rng.chance(1, 2) { "from_fn" } else { "from" };
        gen_tensor_case_sized(g, &shape, usize::MAX, &[], false, 6, ctor);
        g.count("large.D5.all_120_orderings");
    }
    // D = 6, a few hundred orderings, cycle types that only exist from D = 5 / 6 on
    let mixed: Vec<Vec<usize>> = vec![
        vec![1, 0, 3, 4, 2, 5], // swap + 3-cycle
        vec![1, 0, 3, 4, 5, 2], // swap + 4-cycle
        vec![1, 2, 0, 4, 5, 3], // two 3-cycles
        vec![1, 2, 3, 4, 5, 0], // 6-cycle
        vec![5, 0, 1, 2, 3, 4], // its inverse
        vec![1, 0, 3, 2, 5, 4], // three swaps
        vec![5, 4, 3, 2, 1, 0], // reversal
        vec![0, 2, 3, 4, 1, 5], // 4-cycle, two fixed
        vec![2, 3, 4, 0, 1, 5], // 5-cycle
    ];
    for (lens, k) in [(vec![2, 3, 1, 2, 2, 2], 240usize), (vec![2, 2, 2, 2, 2, 2], 120), (vec![1, 2, 10, 1, 2, 1], 120)] {
        let shape = named(g, &lens);
        let ctor = if g.rng.chance(1, 2) { "from_fn" } else { "from" };
        gen_tensor_case_sized(g, &shape, k, &mixed, false, 5, ctor);
        g.count("large.D6.sampled_orderings");
    }
    // long sides; every ordering and every boundary tuple
    for lens in [vec![12], vec![12, 2], vec![3, 11], vec![9, 9], vec![2, 10, 3], vec![5, 5, 5], vec![12, 12]] {
        let shape = named(g, &lens);
        let full = lens.iter().map(|l| l + 2).product::<usize>() <= 400;
        gen_tensor_case_sized(g, &shape, usize::MAX, &[], full, 40, "from");
        g.count("large.long_sides");
    }
}

// ---------------------------------------------------------------------------------------------
// execution against the implementation
// ---------------------------------------------------------------------------------------------

struct St<const D: usize> {
    tensor: Tensor<u64, D>,
    names: Option<[&'static str; D]>,
}

fn fresh<const D: usize>(shape: &[(&'static str, usize)], n: usize, kind: &str) -> (Option<St<D>>, String) {
    let shape: [(&'static str, usize); D] = shape_array(shape);
    let data: Vec<u64> = (0..n as u64).collect();
    if kind == "from_fn" {
        match catch(|| Tensor::from_fn(shape, |idx: [usize; D]| code(&idx))) {
            Ok(t) => (Some(St { tensor: t, names: None }), "ok".into()),
            Err(k) => (None, panic_str(k)),
        }
    } else if kind == "from" {
        match catch(|| Tensor::from(shape, data)) {
            Ok(t) => (Some(St { tensor: t, names: None }), "ok".into()),
            Err(k) => (None, panic_str(k)),
        }
    } else {
        match catch(|| Tensor::try_from(shape, data)) {
            Ok(Ok(t)) => (Some(St { tensor: t, names: None }), "ok".into()),
            Ok(Err(e)) => {
                // the error carries the offending shape; `is_valid` says whether only the
                // element count was wrong
                let same = e.shape() == shape
                    && *e.shape_ref() == shape
                    && e == easy_ml::tensors::InvalidShapeError::new(shape)
                    && !format!("{}", e).is_empty();
                if same {
                    (None, format!("err valid={}", e.is_valid()))
                } else {
                    (None, "err-wrong-payload".into())
                }
            }
            Err(k) => (None, panic_str(k)),
        }
    }
}

fn reject(k: PanicKind) -> String {
    if k == PanicKind::Explicit { "reject".into() } else { panic_str(k) }
}

fn index_by<const D: usize>(st: &mut St<D>, names: &[&'static str], via: &str) -> String {
    let names: [&'static str; D] = names_array(names);
    let t = &mut st.tensor;
    let result: Result<[(&'static str, usize); D], String> = match via {
        "index_by" => catch(|| t.index_by(names).shape()).map_err(reject),
        "index_by_mut" => catch(|| t.index_by_mut(names).shape()).map_err(reject),
        "index_by_owned" => {
            let copy = t.clone();
            catch(move || copy.index_by_owned(names).shape()).map_err(reject)
        }
        "from" => catch(|| TensorAccess::from(&*t, names).shape()).map_err(reject),
        "try_from" => {
            let shape = t.shape();
            match catch(|| TensorAccess::try_from(&*t, names).map(|a| a.shape())) {
                Ok(Ok(s)) => Ok(s),
                // the error reports the source's shape and the names that were asked for
                Ok(Err(e)) => {
                    if e.actual == shape && e.requested == names && !format!("{}", e).is_empty() {
                        Err("reject".into())
                    } else {
                        Err("reject-wrong-payload".into())
                    }
                }
                Err(k) => Err(panic_str(k)),
            }
        }
        "view_index_by" => catch(|| t.view().index_by(names).shape()).map_err(reject),
        "view_index_by_mut" => catch(|| t.view_mut().index_by_mut(names).shape()).map_err(reject),
        "view_index_by_owned" => {
            let copy = t.clone();
            catch(move || copy.view_owned().index_by_owned(names).shape()).map_err(reject)
        }
        "view_owned" => {
            let copy = t.clone();
            catch(move || copy.view_owned().index_by(names).shape()).map_err(reject)
        }
        // source-order accessors: no names are passed, the order is the tensor's own
        "index" | "index_mut" | "index_owned" | "view_index" | "view_index_mut" | "view_index_owned" => {
            if easy_ml::tensors::dimensions::names_of(&t.shape()) != names {
                return "bad-op".into();
            }
            let copy = t.clone();
            catch(move || {
                let mut copy = copy;
                match via {
                    "index" => copy.index().shape(),
                    "index_mut" => copy.index_mut().shape(),
                    "index_owned" => copy.index_owned().shape(),
                    "view_index" => copy.view().index().shape(),
                    "view_index_mut" => copy.view_mut().index_mut().shape(),
                    _ => copy.view_owned().index_owned().shape(),
                }
            })
            .map_err(reject)
        }
        other => panic!("unknown via {}", other),
    };
    match result {
        Ok(shape) => {
            st.names = Some(names);
            format!("ok shape={}", show_shape(&shape))
        }
        Err(s) => {
            st.names = None;
            s
        }
    }
}

fn none_or(k: PanicKind) -> String {
    if k == PanicKind::Explicit { "none".into() } else { panic_str(k) }
}

fn show_opt(o: Option<u64>) -> String {
    match o {
        Some(v) => format!("some({})", v),
        None => "none".into(),
    }
}

fn get<const D: usize>(st: &mut St<D>, idx: &[usize], via: &str) -> String {
    let names = match st.names {
        Some(n) => n,
        None => return "no-access".into(),
    };
    let idx: [usize; D] = to_array(idx);
    let t = &mut st.tensor;
    let r: Result<Option<u64>, PanicKind> = match via {
        "try_get_reference" => catch(|| t.index_by(names).try_get_reference(idx).copied()),
        "get_ref" => return match catch(|| *t.index_by(names).get_ref(idx)) {
            Ok(v) => show_opt(Some(v)),
            Err(k) => none_or(k),
        },
        "get" => return match catch(|| t.index_by(names).get(idx)) {
            Ok(v) => show_opt(Some(v)),
            Err(k) => none_or(k),
        },
        "try_get_reference_mut" => catch(|| t.index_by_mut(names).try_get_reference_mut(idx).map(|r| *r)),
        "get_ref_mut" => return match catch(|| *t.index_by_mut(names).get_ref_mut(idx)) {
            Ok(v) => show_opt(Some(v)),
            Err(k) => none_or(k),
        },
        "tensorref" => catch(|| TensorRef::get_reference(&t.index_by(names), idx).copied()),
        "tensormut" => catch(|| TensorMut::get_reference_mut(&mut t.index_by_mut(names), idx).map(|r| *r)),
        "unchecked" => catch(|| Some(unsafe { *t.index_by(names).get_reference_unchecked(idx) })),
        "view_index_by" => catch(|| t.view().index_by(names).try_get_reference(idx).copied()),
        "view_index_by_mut" => {
            catch(|| t.view_mut().index_by_mut(names).try_get_reference_mut(idx).map(|r| *r))
        }
        "view_index_by_owned" => {
            let copy = t.clone();
            catch(move || copy.view_owned().index_by_owned(names).try_get_reference(idx).copied())
        }
        "view_owned" => {
            let copy = t.clone();
            catch(move || copy.view_owned().index_by(names).try_get_reference(idx).copied())
        }
        "index" | "index_mut" | "index_owned" | "view_index" | "view_index_mut" | "view_index_owned" => {
            if easy_ml::tensors::dimensions::names_of(&t.shape()) != names {
                // not the tensor's own order: these accessors do not apply
                catch(|| t.index_by(names).try_get_reference(idx).copied())
            } else {
                let copy = t.clone();
                catch(move || {
                    let mut copy = copy;
                    match via {
                        "index" => copy.index().try_get_reference(idx).copied(),
                        "index_mut" => copy.index_mut().try_get_reference_mut(idx).map(|r| *r),
                        "index_owned" => copy.index_owned().try_get_reference(idx).copied(),
                        "view_index" => copy.view().index().try_get_reference(idx).copied(),
                        "view_index_mut" => copy.view_mut().index_mut().try_get_reference_mut(idx).map(|r| *r),
                        _ => copy.view_owned().index_owned().try_get_reference(idx).copied(),
                    }
                })
            }
        }
        "noclone" => {
            let nc: Tensor<NoClone, D> = Tensor::from(t.shape(), t.iter().map(NoClone).collect());
            catch(move || nc.index_by(names).try_get_reference(idx).map(|r| r.0))
        }
        other => panic!("unknown via {}", other),
    };
    match r {
        Ok(o) => show_opt(o),
        Err(k) => panic_str(k),
    }
}

fn set<const D: usize>(st: &mut St<D>, idx: &[usize], via: &str) -> String {
    let names = match st.names {
        Some(n) => n,
        None => return "no-access".into(),
    };
    let idx: [usize; D] = to_array(idx);
    let before: Vec<u64> = st.tensor.iter().collect();
    let t = &mut st.tensor;
    let r: Result<bool, PanicKind> = match via {
        "get_ref_mut" => match catch(|| { *t.index_by_mut(names).get_ref_mut(idx) = SENTINEL; true }) {
            Ok(b) => Ok(b),
            Err(PanicKind::Explicit) => Ok(false),
            Err(k) => Err(k),
        },
        "try_get_reference_mut" => catch(|| match t.index_by_mut(names).try_get_reference_mut(idx) {
            Some(r) => { *r = SENTINEL; true }
            None => false,
        }),
        "tensormut" => catch(|| match TensorMut::get_reference_mut(&mut t.index_by_mut(names), idx) {
            Some(r) => { *r = SENTINEL; true }
            None => false,
        }),
        other => panic!("unknown via {}", other),
    };
    let after: Vec<u64> = st.tensor.iter().collect();
    let changed: Vec<usize> = (0..before.len()).filter(|&i| before[i] != after[i]).collect();
    // restore
    let shape = st.tensor.shape();
    st.tensor = Tensor::from(shape, before);
    match r {
        Err(k) => panic_str(k),
        Ok(wrote) => {
            if !wrote && changed.is_empty() {
                "none".into()
            } else if wrote && changed.len() == 1 && after[changed[0]] == SENTINEL {
                format!("changed={}", changed[0])
            } else {
                format!("changed-unexpected={}", show_usizes(&changed))
            }
        }
    }
}

fn show_opt_usize(o: Option<usize>) -> String {
    match o {
        Some(v) => format!("some({})", v),
        None => "none".into(),
    }
}

fn dim<const D: usize>(st: &St<D>, name: &'static str, via: &str) -> String {
    use easy_ml::tensors::dimensions;
    let t = &st.tensor;
    let shape = t.shape();
    if t.shape_ref_check() != shape {
        return "shape-vs-shape_ref".into();
    }
    let (len, last) = match via {
        "tensor" => (t.length_of(name), t.last_index_of(name)),
        "view" => (t.view().length_of(name), t.view().last_index_of(name)),
        _ => (dimensions::length_of(&shape, name), dimensions::last_index_of(&shape, name)),
    };
    format!(
        "pos={} contains={} len={} last={}",
        show_opt_usize(dimensions::position_of(&shape, name)),
        dimensions::contains(&shape, name),
        show_opt_usize(len),
        show_opt_usize(last)
    )
}

trait ShapeRefCheck<const D: usize> {
    fn shape_ref_check(&self) -> [(&'static str, usize); D];
}
impl<const D: usize> ShapeRefCheck<D> for Tensor<u64, D> {
    // `view_shape` of the TensorRef impl, which must agree with `shape()`
    fn shape_ref_check(&self) -> [(&'static str, usize); D] {
        TensorRef::view_shape(self)
    }
}

fn names_op<const D: usize>(st: &St<D>) -> String {
    use easy_ml::tensors::dimensions;
    let shape = st.tensor.shape();
    let names = dimensions::names_of(&shape);
    format!("names={} elements={}", show_names(&names), dimensions::elements(&shape))
}

fn dimerr(provided: &[&'static str], valid: &[&'static str]) -> String {
    use easy_ml::tensors::InvalidDimensionsError;
    with_d!(valid.len(), D => {
        with_d!(provided.len(), P => {
            let p: [&'static str; P] = names_array(provided);
            let v: [&'static str; D] = names_array(valid);
            let e: InvalidDimensionsError<D, P> = InvalidDimensionsError::new(p, v);
            let consistent = e.provided_names() == *e.provided_names_ref()
                && e.valid_names() == *e.valid_names_ref()
                && e.clone() == e
                && !format!("{}", e).is_empty();
            if !consistent {
                "dimerr-inconsistent".to_string()
            } else {
                format!(
                    "provided={} valid={} dup={}",
                    show_names(&e.provided_names()),
                    show_names(&e.valid_names()),
                    e.has_duplicates()
                )
            }
        })
    })
}

enum AnySt {
    None,
    D0(St<0>), D1(St<1>), D2(St<2>), D3(St<3>), D4(St<4>), D5(St<5>), D6(St<6>),
}

macro_rules! on_state {
    ($st:expr, $s:ident => $body:expr) => {
        match $st {
            AnySt::None => "no-tensor".to_string(),
            AnySt::D0($s) => $body, AnySt::D1($s) => $body, AnySt::D2($s) => $body,
            AnySt::D3($s) => $body, AnySt::D4($s) => $body, AnySt::D5($s) => $body,
            AnySt::D6($s) => $body,
        }
    };
}

pub struct Runner {
    st: AnySt,
}

impl Runner {
    pub fn new() -> Runner {
        Runner { st: AnySt::None }
    }

    pub fn step(&mut self, toks: &[&str]) -> String {
        match toks {
            ["@", "from_fn", shape_s, ..] => {
                let shape = parse_shape(shape_s);
                macro_rules! mk {
                    ($D:literal, $V:ident) => {{
                        let (st, ans) = fresh::<$D>(&shape, 0, "from_fn");
                        self.st = match st { Some(s) => AnySt::$V(s), None => AnySt::None };
                        ans
                    }};
                }
                match shape.len() {
                    0 => mk!(0, D0), 1 => mk!(1, D1), 2 => mk!(2, D2), 3 => mk!(3, D3),
                    4 => mk!(4, D4), 5 => mk!(5, D5), 6 => mk!(6, D6),
                    _ => "bad-op".into(),
                }
            }
            ["@", "from_scalar", v_s, rest @ ..] => {
                let v: u64 = v_s.parse().unwrap();
                let t: Tensor<u64, 0> = match opt_arg("via", rest).unwrap_or("from_scalar") {
                    "from" => <Tensor<u64, 0> as From<u64>>::from(v),
                    "into" => v.into(),
                    _ => Tensor::from_scalar(v),
                };
                self.st = AnySt::D0(St { tensor: t, names: None });
                "ok".into()
            }
            ["dimerr", provided_s, valid_s, ..] => match &self.st {
                AnySt::None => "no-tensor".into(),
                _ => dimerr(&parse_names(provided_s), &parse_names(valid_s)),
            },
            ["dim", name, rest @ ..] => {
                let via = opt_arg("via", rest).unwrap_or("tensor");
                let name = intern(name);
                on_state!(&mut self.st, s => dim(s, name, via))
            }
            ["names", ..] => on_state!(&mut self.st, s => names_op(s)),
            [op @ ("sread" | "swrite"), kind, names_s, rest @ ..] => {
                let names = parse_names(names_s);
                let route = opt_arg("route", rest).unwrap_or("");
                let read = *op == "sread";
                on_state!(&mut self.st, s => if read {
                    surface::sread(&s.tensor, kind, &names, route)
                } else {
                    surface::swrite(&s.tensor, kind, &names, route)
                })
            }
            ["@", kind, shape_s, n_s] => {
                let shape = parse_shape(shape_s);
                let n: usize = n_s.parse().unwrap();
                macro_rules! mk {
                    ($D:literal, $V:ident) => {{
                        let (st, ans) = fresh::<$D>(&shape, n, kind);
                        self.st = match st { Some(s) => AnySt::$V(s), None => AnySt::None };
                        ans
                    }};
                }
                match shape.len() {
                    0 => mk!(0, D0), 1 => mk!(1, D1), 2 => mk!(2, D2), 3 => mk!(3, D3),
                    4 => mk!(4, D4), 5 => mk!(5, D5), 6 => mk!(6, D6),
                    _ => "bad-op".into(),
                }
            }
            ["index_by", names_s, rest @ ..] => {
                let names = parse_names(names_s);
                let via = opt_arg("via", rest).unwrap_or("index_by");
                on_state!(&mut self.st, s => index_by(s, &names, via))
            }
            ["get", idx_s, rest @ ..] => {
                let idx = parse_usizes(idx_s);
                let via = opt_arg("via", rest).unwrap_or("try_get_reference");
                on_state!(&mut self.st, s => get(s, &idx, via))
            }
            ["set", idx_s, rest @ ..] => {
                let idx = parse_usizes(idx_s);
                let via = opt_arg("via", rest).unwrap_or("get_ref_mut");
                on_state!(&mut self.st, s => set(s, &idx, via))
            }
            _ => "bad-op".into(),
        }
    }
}

#[allow(unused)]
fn _unused() {
    let _ = with_d!(0usize, D => D);
}
