//! C13 — tensor transformations equal their lazy views; equality and similarity.
//! See lean/Driver/C13.lean for the protocol.

use crate::util::*;
#[path = "surface.rs"]
mod surface;
use crate::with_d;
use easy_ml::matrices::Matrix;
use easy_ml::tensors::indexing::{TensorAccess, TensorTranspose};
use easy_ml::tensors::operations::Similar;
use easy_ml::tensors::views::{TensorMut, TensorRef, TensorRename, TensorView};
use easy_ml::tensors::Tensor;

// ---------------------------------------------------------------------------------------------
// element functions (the Lean driver uses the same)
// ---------------------------------------------------------------------------------------------

fn map_f(x: u64) -> u64 {
    3 * x + 1
}
fn code(idx: &[usize]) -> u64 {
    idx.iter().fold(0u64, |acc, &i| acc * 7 + i as u64 + 1)
}
fn mapi_f(idx: &[usize], x: u64) -> u64 {
    1000 * x + code(idx)
}
fn zip_f(x: u64, y: u64) -> u64 {
    1000 * x + y
}
fn zipi_f(idx: &[usize], x: u64, y: u64) -> u64 {
    (1000 * x + y) * 10_000_000 + code(idx)
}

// ---------------------------------------------------------------------------------------------
// generation
// ---------------------------------------------------------------------------------------------

fn shapes_up_to(max_d: usize, max_product: usize) -> Vec<Vec<usize>> {
    fn go(cur: &mut Vec<usize>, prod: usize, max_d: usize, max_product: usize, out: &mut Vec<Vec<usize>>) {
        out.push(cur.clone());
        if cur.len() == max_d {
            return;
        }
        let mut l = 1;
        while prod * l <= max_product {
            cur.push(l);
            go(cur, prod * l, max_d, max_product, out);
            cur.pop();
            l += 1;
        }
    }
    let mut out = vec![];
    go(&mut vec![], 1, max_d, max_product, &mut out);
    out
}

const NAME_POOL: [&str; 8] = ["a", "b", "c", "d", "e", "f", "row", "column"];
const FRESH_POOL: [&str; 6] = ["p", "q", "r", "s", "u", "w"];

fn named(g: &mut Gen, lens: &[usize]) -> Vec<(&'static str, usize)> {
    let mut pool: Vec<&str> = NAME_POOL.to_vec();
    g.rng.shuffle(&mut pool);
    lens.iter().enumerate().map(|(i, l)| (intern(pool[i]), *l)).collect()
}

/// every index tuple of a grid, row-major (the harness's own odometer, independent of the library)
fn all_indexes(lens: &[usize]) -> Vec<Vec<usize>> {
    let mut out: Vec<Vec<usize>> = vec![vec![]];
    for &l in lens {
        let mut next = Vec::with_capacity(out.len() * l);
        for prefix in &out {
            for c in 0..l {
                let mut p = prefix.clone();
                p.push(c);
                next.push(p);
            }
        }
        out = next;
    }
    out
}

fn ravel(lens: &[usize], idx: &[usize]) -> usize {
    let mut o = 0;
    for d in 0..lens.len() {
        o = o * lens[d] + idx[d];
    }
    o
}

/// data of the tensor with dimensions reordered to `perm` (new dimension k = old dimension perm[k])
fn reordered_data(lens: &[usize], data: &[u64], perm: &[usize]) -> (Vec<usize>, Vec<u64>) {
    let new_lens: Vec<usize> = perm.iter().map(|&p| lens[p]).collect();
    let mut out = vec![];
    for idx in all_indexes(&new_lens) {
        let mut old = vec![0; lens.len()];
        for (k, &p) in perm.iter().enumerate() {
            old[p] = idx[k];
        }
        out.push(data[ravel(lens, &old)]);
    }
    (new_lens, out)
}

fn show_data(v: &[u64]) -> String {
    if v.is_empty() {
        "-".to_string()
    } else {
        v.iter().map(|x| x.to_string()).collect::<Vec<_>>().join(",")
    }
}

fn src_spec(g: &mut Gen, names: &[&'static str], allow_tensor: bool) -> String {
    let d = names.len();
    let mut order: Vec<&str> = names.to_vec();
    g.rng.shuffle(&mut order);
    let lo = if allow_tensor { 0 } else { 1 };
    match g.rng.range(lo, 4) {
        0 => "t".to_string(),
        1 => "v".to_string(),
        2 => format!("a:{}", show_names(&order)),
        3 => format!("x:{}", show_names(&order)),
        _ => {
            let mut fresh: Vec<&str> = FRESH_POOL.to_vec();
            g.rng.shuffle(&mut fresh);
            format!("r:{}", show_names(&fresh[..d]))
        }
    }
}

/// names of the view `spec` of a tensor with names `names` (for choosing valid orderings of it)
fn view_names(names: &[&'static str], spec: &str) -> Vec<&'static str> {
    if let Some(rest) = spec.strip_prefix("a:") {
        parse_names(rest)
    } else if let Some(rest) = spec.strip_prefix("r:") {
        parse_names(rest)
    } else {
        names.to_vec()
    }
}

fn factorizations(n: usize, max_d: usize) -> Vec<Vec<usize>> {
    fn go(n: usize, max_d: usize, cur: &mut Vec<usize>, out: &mut Vec<Vec<usize>>) {
        if n == 1 {
            out.push(cur.clone());
        }
        if cur.len() == max_d {
            return;
        }
        for l in 1..=n {
            if n % l == 0 {
                if l == 1 && cur.contains(&1) {
                    continue; // at most one length-1 dimension, keeps the list short
                }
                cur.push(l);
                go(n / l, max_d, cur, out);
                cur.pop();
            }
        }
    }
    let mut out = vec![];
    go(n, max_d, &mut vec![], &mut out);
    out.sort();
    out.dedup();
    out
}

fn gen_case(g: &mut Gen, shape: &[(&'static str, usize)], exhaustive: bool) {
    let max_perms = if exhaustive { usize::MAX } else { 4 };
    gen_case_sized(g, shape, exhaustive, max_perms, &[]);
}

/// `max_perms`: how many orderings are used for reorder / transpose and for the reordered
/// equality / similarity pairs (always including `must_include`).
fn gen_case_sized(
    g: &mut Gen,
    shape: &[(&'static str, usize)],
    exhaustive: bool,
    max_perms: usize,
    must_include: &[Vec<usize>],
) {
    let d = shape.len();
    let names: Vec<&'static str> = shape.iter().map(|s| s.0).collect();
    let lens: Vec<usize> = shape.iter().map(|s| s.1).collect();
    let n: usize = lens.iter().product();
    let start = g.rng.below(40) as u64;
    let data: Vec<u64> = (0..n as u64).map(|i| i + start).collect();
    g.op(format!("@ t {} i{}x{}", show_shape(shape), start, n));
    g.count(&format!("tensor.D={}", d));
    let square2 = d == 2 && lens[0] == lens[1];
    if square2 {
        g.count(&format!("tensor.square2d.n={}", lens[0]));
    }

    // ---- reorder / transpose: every ordering (or a sample), every form
    let mut perms = permutations(d);
    if perms.len() > max_perms {
        g.rng.shuffle(&mut perms);
        perms.truncate(max_perms);
        for m in must_include {
            if !perms.contains(m) {
                perms.push(m.clone());
            }
        }
    }
    for perm in &perms {
        let order: Vec<&str> = perm.iter().map(|&p| names[p]).collect();
        let identity = (0..d).all(|i| perm[i] == i);
        for op in ["reorder", "transpose"] {
            for form in ["alloc", "mut", "lazy"] {
                let src = if form == "mut" { "t".to_string() } else if g.rng.chance(1, 2) { "t".into() } else { "v".into() };
                g.op(format!("{} {} src={} form={}", op, show_names(&order), src, form));
                g.count(&format!("{}.{}", op, form));
                if form == "mut" {
                    g.count(if square2 { "inplace.square_branch" } else { "inplace.fallback_branch" });
                    if square2 && identity {
                        g.count("inplace.square_branch.identity_order");
                    }
                }
            }
        }
        // through a view that is itself reordered / transposed / renamed
        let src = src_spec(g, &names, false);
        let vnames = view_names(&names, &src);
        let order2: Vec<&str> = perm.iter().map(|&p| vnames[p]).collect();
        let op = *g.rng.pick(&["reorder", "transpose"]);
        let form = *g.rng.pick(&["alloc", "lazy"]);
        g.op(format!("{} {} src={} form={}", op, show_names(&order2), src, form));
        g.count(&format!("{}.through_view.{}", op, &src[..1]));
    }
    // orderings that are not permutations
    if d >= 1 {
        let mut bad: Vec<Vec<&str>> = vec![];
        let mut unk = names.clone();
        unk[d - 1] = "zz";
        bad.push(unk);
        if d >= 2 {
            let mut rep = names.clone();
            rep[1] = rep[0];
            bad.push(rep);
        }
        for b in bad {
            for op in ["reorder", "transpose"] {
                let form = *g.rng.pick(&["alloc", "mut", "lazy"]);
                let src = if form == "mut" || g.rng.chance(1, 2) { "t" } else { "v" };
                g.op(format!("{} {} src={} form={}", op, show_names(&b), src, form));
                g.count(&format!("{}.non_permutation", op));
            }
        }
    }

    // ---- reshape: every factorisation of the element count (D2 <= 3), plus bad targets
    let mut targets = factorizations(n, 3);
    if !exhaustive && targets.len() > 5 {
        g.rng.shuffle(&mut targets);
        targets.truncate(5);
    }
    for tl in targets {
        let tshape = named(g, &tl);
        g.op(format!("reshape {} form=owned", show_shape(&tshape)));
        g.count("reshape.owned");
        if tl.len() == d {
            g.op(format!("reshape {} form=mut", show_shape(&tshape)));
            g.count("reshape.mut");
        }
    }
    {
        // wrong count, repeated name, zero length — same dimensionality so that both forms apply
        let mut wrong = shape.to_vec();
        if d >= 1 {
            wrong[0].1 += 1;
            for form in ["owned", "mut"] {
                g.op(format!("reshape {} form={}", show_shape(&wrong), form));
                g.count("reshape.bad.count");
            }
            let mut zero = shape.to_vec();
            zero[0].1 = 0;
            for form in ["owned", "mut"] {
                g.op(format!("reshape {} form={}", show_shape(&zero), form));
                g.count("reshape.bad.zero");
            }
        }
        if d >= 2 {
            let mut rep = shape.to_vec();
            rep[1].0 = rep[0].0;
            for form in ["owned", "mut"] {
                g.op(format!("reshape {} form={}", show_shape(&rep), form));
                g.count("reshape.bad.repeated_name");
            }
        }
    }

    // ---- rename
    {
        let mut fresh: Vec<&str> = FRESH_POOL.to_vec();
        g.rng.shuffle(&mut fresh);
        let good: Vec<&str> = fresh[..d].to_vec();
        for form in ["mut", "owned", "view"] {
            g.op(format!("rename {} src=t form={}", show_names(&good), form));
            g.count(&format!("rename.{}", form));
        }
        // swap the names of the first two dimensions (legal, keeps the set of names)
        if d >= 2 {
            let mut sw = names.clone();
            sw.swap(0, 1);
            let form = *g.rng.pick(&["mut", "owned", "view"]);
            g.op(format!("rename {} src=t form={}", show_names(&sw), form));
            g.count("rename.swap_names");
            let mut rep = good.clone();
            rep[d - 1] = rep[0];
            for form in ["mut", "owned", "view"] {
                g.op(format!("rename {} src=t form={}", show_names(&rep), form));
                g.count("rename.bad.repeated_name");
            }
        }
        let src = src_spec(g, &names, false);
        g.op(format!("rename {} src={} form=view", show_names(&good), src));
        g.count("rename.through_view");
    }

    // ---- map / mapi
    for op in ["map", "mapi"] {
        for form in ["alloc", "mut"] {
            g.op(format!("{} src=t form={}", op, form));
            g.op(format!("{} src=v form={}", op, form));
            let src = src_spec(g, &names, false);
            let via = if src.starts_with("a:") && g.rng.chance(1, 2) { " via=access" } else { "" };
            g.op(format!("{} src={} form={}{}", op, src, form, via));
            g.count_n(&format!("{}.{}", op, form), 3);
        }
    }

    // ---- elementwise
    {
        let start2 = 100 + g.rng.below(40) as u64;
        let same = format!("{} i{}x{}", show_shape(shape), start2, n);
        for idx in [0, 1] {
            for (src, rsrc) in [("t", "t"), ("t", "v"), ("v", "t"), ("v", "v")] {
                let via = *g.rng.pick(&["val", "ref"]);
                g.op(format!("zip {} src={} rsrc={} idx={} via={}", same, src, rsrc, idx, via));
                g.count("zip.same_shape");
            }
        }
        // both operands seen through the same reordering (shapes agree again)
        if d >= 2 {
            let perm = g.rng.pick(&permutations(d)).clone();
            let order: Vec<&str> = perm.iter().map(|&p| names[p]).collect();
            let kind = *g.rng.pick(&["a", "x"]);
            let spec = format!("{}:{}", kind, show_names(&order));
            let idx = g.rng.below(2);
            g.op(format!("zip {} src={} rsrc={} idx={} via=val", same, spec, spec, idx));
            g.count("zip.both_through_view");
            // left reordered, right not: shapes differ unless the ordering is the identity
            g.op(format!("zip {} src={} rsrc=t idx={} via=val", same, spec, idx));
            g.count("zip.shape_mismatch_or_identity");
            // right operand stored in the other order, seen through the inverse ordering
            let (nl, nd) = reordered_data(&lens, &(0..n as u64).map(|i| i + start2).collect::<Vec<_>>(), &perm);
            let nshape: Vec<(&str, usize)> = perm.iter().zip(nl.iter()).map(|(&p, &l)| (names[p], l)).collect();
            g.op(format!(
                "zip {} {} src=t rsrc=a:{} idx={} via=ref",
                show_shape(&nshape), show_data(&nd), show_names(&names), idx
            ));
            g.count("zip.right_reordered_back");
        }
        if d >= 1 {
            let mut other = shape.to_vec();
            other[0].0 = "zz";
            g.op(format!("zip {} i0x{} src=t rsrc=t idx=0 via=val", show_shape(&other), n));
            g.op(format!("zip {} i0x{} src=v rsrc=v idx=1 via=val", show_shape(&other), n));
            g.count_n("zip.name_mismatch", 2);
            let mut longer = shape.to_vec();
            longer[0].1 += 1;
            let n2: usize = longer.iter().map(|s| s.1).product();
            g.op(format!("zip {} i0x{} src=t rsrc=t idx=0 via=ref", show_shape(&longer), n2));
            g.count("zip.length_mismatch");
        }
    }

    // ---- first / scalar
    g.op("first src=t".to_string());
    g.op("first src=v".to_string());
    let src = src_spec(g, &names, false);
    g.op(format!("first src={}", src));
    g.count_n("first", 3);
    {
        // TensorAccess::first directly (not through a TensorView)
        let mut order: Vec<&str> = names.clone();
        g.rng.shuffle(&mut order);
        g.op(format!("first src=a:{} via=access", show_names(&order)));
        g.count("first.tensor_access");
    }
    // ---- taking the source back out of a view; squareness
    for via in ["source", "source_ref"] {
        let src = src_spec(g, &names, false);
        g.op(format!("source src={} via={}", src, via));
        g.count(&format!("source.{}", &src[..1]));
    }
    g.op("is_square".to_string());
    g.count("is_square");
    if d == 0 {
        for src in ["t", "v", "a:-", "x:-", "r:-"] {
            g.op(format!("scalar src={} form=into", src));
            g.count("scalar.into_scalar");
        }
        g.op("scalar src=t".to_string());
        g.op("scalar src=v".to_string());
        g.op("scalar src=a:-".to_string());
        g.op("scalar src=x:-".to_string());
        g.op("scalar src=r:-".to_string());
        g.count_n("scalar", 5);
    }

    // ---- matrices
    if d == 2 {
        g.op("into_matrix".to_string());
        g.op("roundtrip".to_string());
        g.op(format!("from_matrix {} {} i{}x{} {} {}", lens[0], lens[1], start, n, names[1], names[0]));
        g.op(format!("from_matrix {} {} i{}x{} {} {}", lens[0], lens[1], start, n, names[0], names[0]));
        g.count_n("matrix.conversions", 4);
    }

    // ---- equality / similarity
    let pairings = [("t", "t"), ("t", "v"), ("v", "t"), ("v", "v")];
    let mut pair = |g: &mut Gen, what: &str, shape2: &[(&str, usize)], data2: &[u64], srcs: Option<(String, String)>| {
        for kind in ["eq", "similar"] {
            let (src, rsrc) = match &srcs {
                Some((a, b)) => (a.clone(), b.clone()),
                None => {
                    let p = g.rng.pick(&pairings);
                    (p.0.to_string(), p.1.to_string())
                }
            };
            g.op(format!("{} {} {} src={} rsrc={}", kind, show_shape(shape2), show_data(data2), src, rsrc));
            g.count(&format!("{}.{}", kind, what));
            let pk = format!("{}{}", if src == "t" { "t" } else { "v" }, if rsrc == "t" { "t" } else { "v" });
            g.count(&format!("{}.pairing.{}", kind, pk));
        }
    };
    // identical copy, in all four pairings
    for p in pairings {
        pair(g, "identical", shape, &data, Some((p.0.into(), p.1.into())));
    }
    // one element perturbed (first, last, random)
    for pos in [0, n - 1, g.rng.below(n)] {
        let mut d2 = data.clone();
        d2[pos] += 1000;
        pair(g, "perturbed", shape, &d2, None);
    }
    // renamed copy
    if d >= 1 {
        let mut ren = shape.to_vec();
        ren[d - 1].0 = "zz";
        pair(g, "renamed", &ren, &data, None);
    }
    // every reordering of the dimensions: similar but (unless identity / indistinguishable) not equal
    let mut perms2 = permutations(d);
    if perms2.len() > max_perms {
        g.rng.shuffle(&mut perms2);
        perms2.truncate(max_perms);
        for m in must_include {
            if !perms2.contains(m) {
                perms2.push(m.clone());
            }
        }
    }
    for perm in &perms2 {
        let (nl, nd) = reordered_data(&lens, &data, perm);
        let nshape: Vec<(&str, usize)> = perm.iter().zip(nl.iter()).map(|(&p, &l)| (names[p], l)).collect();
        pair(g, "reordered", &nshape, &nd, None);
        // reordered and perturbed
        let mut nd2 = nd.clone();
        let pos = g.rng.below(n);
        nd2[pos] += 1000;
        pair(g, "reordered_perturbed", &nshape, &nd2, None);
        // shape reordered but the data left in the old order
        pair(g, "shape_reordered_data_not", &nshape, &data, None);
        // the reordered copy seen through the ordering that undoes it: equal again
        let back = format!("a:{}", show_names(&names));
        pair(g, "reordered_viewed_back", &nshape, &nd, Some(("t".into(), back.clone())));
        pair(g, "reordered_viewed_back", &nshape, &nd, Some(("v".into(), back)));
        // left seen through the same ordering
        let order: Vec<&str> = perm.iter().map(|&p| names[p]).collect();
        let fwd = format!("a:{}", show_names(&order));
        pair(g, "left_viewed_forward", &nshape, &nd, Some((fwd, "t".into())));
        // transposed views on either side
        let tv = format!("x:{}", show_names(&order));
        pair(g, "transposed_view", shape, &data, Some((tv.clone(), tv.clone())));
        pair(g, "transposed_view_vs_plain", shape, &data, Some((tv, "v".into())));
    }
    // same names, lengths permuted (dimension lengths differ)
    if d >= 2 && lens[0] != lens[1] {
        let mut sw = shape.to_vec();
        let l0 = sw[0].1;
        sw[0].1 = sw[1].1;
        sw[1].1 = l0;
        pair(g, "lengths_swapped", &sw, &data, None);
    }
    // one dimension longer
    if d >= 1 {
        let mut longer = shape.to_vec();
        longer[0].1 += 1;
        let n2: usize = longer.iter().map(|s| s.1).product();
        let d2: Vec<u64> = (0..n2 as u64).map(|i| i + start).collect();
        pair(g, "longer", &longer, &d2, None);
    }
}

pub fn gen(g: &mut Gen) {
    let (max_d, max_p) = if g.thorough { (4, 24) } else { (3, 12) };
    for lens in shapes_up_to(max_d, max_p) {
        let shape = named(g, &lens);
        gen_case(g, &shape, true);
    }
    // all square 2-D shapes up to 5x5 (the separate in-place path)
    for n in 1..=5usize {
        let shape = named(g, &[n, n]);
        gen_case(g, &shape, true);
    }
    // cubes and other shapes with repeated lengths (D = 3 must not take the square path)
    for lens in [vec![2, 2, 2], vec![3, 3, 3], vec![2, 2, 3], vec![1, 1], vec![1, 1, 1]] {
        let shape = named(g, &lens);
        gen_case(g, &shape, true);
    }
    // random larger shapes, D up to 6
    let n_random = if g.thorough { 150 } else { 25 };
    for _ in 0..n_random {
        let d = g.rng.range(3, 6);
        let mut lens = vec![];
        let mut prod = 1usize;
        for _ in 0..d {
            let l = g.rng.range(1, 4);
            if prod * l > 400 {
                lens.push(1);
            } else {
                lens.push(l);
                prod *= l;
            }
        }
        let shape = named(g, &lens);
        gen_case(g, &shape, false);
    }
    gen_large_cases(g);
    gen_float_cases(g);
    gen_names_cases(g);
    gen_chain_cases(g);
    gen_surface_cases(g);
}

/// "API surface": every public read / write route of TensorAccess, TensorTranspose and Tensor
/// (see surface.rs), on shapes of dimensionality ≥ 3 with unequal lengths first.
fn gen_surface_cases(g: &mut Gen) {
    for lens in surface::SURFACE_SHAPES {
        let shape = named(g, lens);
        let n: usize = lens.iter().product();
        let start = g.rng.below(40);
        g.op(format!("@ t {} i{}x{}", show_shape(&shape), start, n));
        let names: Vec<&'static str> = shape.iter().map(|s| s.0).collect();
        surface::gen_surface_ops(g, &names);
    }
}

// ---- "transformation then consumer": after a history of in-place transformations every
// consumer that reads the data in storage order must see the logical row-major content

const CONSUMERS: [&str; 16] = [
    "zipl", "zipli", "zipr", "zipri", "map", "mapi", "matrix", "iter", "add", "add_r", "add_v",
    "add_vr", "display", "eq", "first", "reshape",
];

fn gen_chain_cases(g: &mut Gen) {
    let mut shapes: Vec<Vec<usize>> = shapes_up_to(3, 8);
    for n in 1..=5usize {
        shapes.push(vec![n, n]);
    }
    shapes.extend([vec![2, 2, 2], vec![3, 3, 3], vec![2, 3, 2], vec![7, 7], vec![2, 2, 2, 2]]);
    for lens in shapes {
        let d = lens.len();
        let shape = named(g, &lens);
        let names: Vec<&'static str> = shape.iter().map(|s| s.0).collect();
        let n: usize = lens.iter().product();
        let start = g.rng.below(40);
        g.op(format!("@ t {} i{}x{}", show_shape(&shape), start, n));
        let square2 = d == 2 && lens[0] == lens[1];
        let perms = permutations(d);
        let order_of = |names: &[&'static str], perm: &[usize]| -> Vec<&'static str> { perm.iter().map(|&p| names[p]).collect() };
        let mut fresh: Vec<&str> = FRESH_POOL.to_vec();
        g.rng.shuffle(&mut fresh);
        let fresh: Vec<&'static str> = fresh[..d].iter().map(|n| intern(n)).collect();
        // same-D reshape target with other lengths (if any) under fresh names
        let mut alts: Vec<Vec<usize>> = factorizations(n, d).into_iter().filter(|f| f.len() == d).collect();
        g.rng.shuffle(&mut alts);
        let alt = alts.first().cloned().unwrap_or(lens.clone());
        let alt_shape: Vec<(&'static str, usize)> = fresh.iter().zip(alt.iter()).map(|(n, l)| (*n, *l)).collect();
        let mut histories: Vec<String> = vec!["-".into(), "map".into(), "mapi".into()];
        for perm in &perms {
            let o = show_names(&order_of(&names, perm));
            histories.push(format!("reorder:{}", o));
            histories.push(format!("transpose:{}", o));
        }
        histories.push(format!("reshape:{}", show_shape(&alt_shape)));
        histories.push(format!("rename:{}", show_names(&fresh)));
        // chained twice
        for _ in 0..4 {
            let p1 = g.rng.pick(&perms).clone();
            let p2 = g.rng.pick(&perms).clone();
            let o1 = order_of(&names, &p1);
            // names after a reorder are o1; after a transpose they stay `names`
            histories.push(format!("reorder:{}/reorder:{}", show_names(&o1), show_names(&order_of(&o1, &p2))));
            histories.push(format!("reorder:{}/transpose:{}", show_names(&o1), show_names(&order_of(&o1, &p2))));
            histories.push(format!("transpose:{}/reorder:{}", show_names(&o1), show_names(&order_of(&names, &p2))));
            histories.push(format!("transpose:{}/transpose:{}", show_names(&o1), show_names(&order_of(&names, &p2))));
            histories.push(format!("reorder:{}/mapi", show_names(&o1)));
            histories.push(format!("transpose:{}/map/rename:{}", show_names(&o1), show_names(&fresh)));
            histories.push(format!("rename:{}/reorder:{}", show_names(&fresh), show_names(&order_of(&fresh, &p1))));
            histories.push(format!("reorder:{}/reshape:{}", show_names(&o1), show_shape(&alt_shape)));
            histories.push(format!("reshape:{}/transpose:{}", show_shape(&alt_shape), show_names(&order_of(&fresh, &p2))));
        }
        histories.sort();
        histories.dedup();
        for h in histories {
            let in_place_reorder = h.contains("reorder") || h.contains("transpose");
            let mut cons: Vec<&str> = CONSUMERS.to_vec();
            if !(square2 && in_place_reorder) {
                g.rng.shuffle(&mut cons);
                cons.truncate(5);
            }
            for c in cons {
                let c = if c == "matrix" && d != 2 { "iter" } else { c };
                let ctok = if c == "reshape" {
                    let form = *g.rng.pick(&["reshape_owned", "reshape_mut"]);
                    let mut back: Vec<&str> = NAME_POOL.to_vec();
                    g.rng.shuffle(&mut back);
                    if form == "reshape_owned" && g.rng.chance(1, 2) {
                        format!("reshape_owned:{}:{}", back[0], n)
                    } else {
                        let mut l2 = alt.clone();
                        l2.reverse();
                        let sh: Vec<(&str, usize)> = back[..d].iter().zip(l2.iter()).map(|(n, l)| (*n, *l)).collect();
                        format!("{}:{}", form, show_shape(&sh))
                    }
                } else {
                    c.to_string()
                };
                g.op(format!("chain {} cons={}", h, ctok));
                g.count(&format!("chain.consumer.{}", c));
                if square2 && in_place_reorder {
                    g.count("chain.after_square_in_place_branch");
                }
            }
        }
    }
}

// ---- f64 "degenerate data": NaN, signed zeros, infinities, repeated and all-equal elements

fn flip_zero(tok: &str) -> String {
    match tok {
        "0" => "-0".to_string(),
        "-0" => "0".to_string(),
        other => other.to_string(),
    }
}

fn gen_float_cases(g: &mut Gen) {
    const POOL: [&str; 10] = ["nan", "0", "-0", "inf", "-inf", "1", "1", "2", "-1", "0.5"];
    let shapes: Vec<Vec<usize>> = vec![vec![], vec![1], vec![3], vec![2, 2], vec![2, 3], vec![3, 3], vec![3, 2, 2]];
    for lens in shapes {
        let shape = named(g, &lens);
        let d = lens.len();
        let n: usize = lens.iter().product();
        let mut datasets: Vec<(&str, Vec<String>)> = vec![];
        let mut with_nan: Vec<String> = (0..n).map(|_| g.rng.pick(&POOL).to_string()).collect();
        let pos = g.rng.below(n);
        with_nan[pos] = "nan".into();
        datasets.push(("one_or_more_nan", with_nan));
        datasets.push(("all_nan", vec!["nan".to_string(); n]));
        datasets.push(("zeros_infs", (0..n).map(|_| g.rng.pick(&["0", "-0", "inf", "-inf", "1"]).to_string()).collect()));
        datasets.push(("all_equal", vec!["1".to_string(); n]));
        datasets.push(("all_zero", vec!["0".to_string(); n]));
        datasets.push(("repeated", (0..n).map(|i| ["2", "2", "-1"][i % 3].to_string()).collect()));
        for (what, data) in datasets {
            let line = |sh: &[(&str, usize)], dt: &[String]| -> String {
                format!("{} {}", show_shape(sh), if dt.is_empty() { "-".to_string() } else { dt.join(",") })
            };
            g.op(format!("@ f {}", line(&shape, &data)));
            g.count(&format!("float.{}", what));
            // the same object on both sides, and a clone
            g.op(format!("fcmp {} rel=self", line(&shape, &data)));
            g.op(format!("fcmp {} rel=clone", line(&shape, &data)));
            g.count_n("float.self_and_clone", 2);
            // another tensor: identical tokens, signed zeros flipped, one cell changed, renamed
            g.op(format!("fcmp {} rel=other", line(&shape, &data)));
            let flipped: Vec<String> = data.iter().map(|t| flip_zero(t)).collect();
            g.op(format!("fcmp {} rel=other", line(&shape, &flipped)));
            let mut changed = data.clone();
            changed[g.rng.below(n)] = "7".into();
            g.op(format!("fcmp {} rel=other", line(&shape, &changed)));
            g.count_n("float.other", 3);
            if d >= 1 {
                let mut ren = shape.clone();
                ren[0].0 = "zz";
                g.op(format!("fcmp {} rel=other", line(&ren, &data)));
            }
            // every reordered copy, and one with the signed zeros flipped
            for perm in permutations(d) {
                let idxs: Vec<u64> = (0..n as u64).collect();
                let (nl, order) = reordered_data(&lens, &idxs, &perm);
                let nshape: Vec<(&str, usize)> = perm.iter().zip(nl.iter()).map(|(&p, &l)| (shape[p].0, l)).collect();
                let nd: Vec<String> = order.iter().map(|&i| data[i as usize].clone()).collect();
                g.op(format!("fcmp {} rel=other", line(&nshape, &nd)));
                let nf: Vec<String> = nd.iter().map(|t| flip_zero(t)).collect();
                g.op(format!("fcmp {} rel=other", line(&nshape, &nf)));
                g.count_n("float.reordered_copy", 2);
            }
        }
    }
}

// ---- adversarial dimension names (internal names, prefixes of one another, the empty name)

fn gen_names_cases(g: &mut Gen) {
    for lens in [vec![3], vec![2, 3], vec![2, 2], vec![3, 2, 2], vec![2, 1, 3], vec![2, 3, 1, 2]] {
        for _round in 0..2 {
            let d = lens.len();
            let names = adversarial_names(&mut g.rng, d);
            let shape: Vec<(&'static str, usize)> = names.iter().zip(lens.iter()).map(|(n, l)| (*n, *l)).collect();
            gen_case_sized(g, &shape, true, 24, &[]);
            g.count("names.adversarial_case");
            // rename to other adversarial names, and to the current names in another order
            let fresh = adversarial_names(&mut g.rng, d);
            for form in ["mut", "owned", "view"] {
                g.op(format!("rename {} src=t form={}", show_names(&fresh), form));
            }
            let mut rotated = names.clone();
            rotated.rotate_left(1);
            g.op(format!("rename {} src=t form=mut", show_names(&rotated)));
            g.op(format!("rename {} src=a:{} form=view", show_names(&fresh), show_names(&rotated)));
            g.count_n("names.rename", 5);
            // reshape targets reusing the current names: same / reversed order, other lengths
            let n: usize = lens.iter().product();
            let mut alt: Vec<Vec<usize>> = factorizations(n, d).into_iter().filter(|f| f.len() == d && *f != lens).collect();
            g.rng.shuffle(&mut alt);
            alt.truncate(3);
            let mut reversed = names.clone();
            reversed.reverse();
            for tl in alt {
                for order in [&names, &reversed] {
                    let tshape: Vec<(&str, usize)> = order.iter().zip(tl.iter()).map(|(n, l)| (*n, *l)).collect();
                    for form in ["mut", "owned"] {
                        g.op(format!("reshape {} form={}", show_shape(&tshape), form));
                        g.count("names.reshape_reusing_names");
                    }
                }
            }
            // same lengths, names reversed (a pure renaming done by reshape)
            let tshape: Vec<(&str, usize)> = reversed.iter().zip(lens.iter()).map(|(n, l)| (*n, *l)).collect();
            g.op(format!("reshape {} form=mut", show_shape(&tshape)));
            // orderings that replace one name by another adversarial name the tensor lacks
            let others: Vec<&str> = ADVERSARIAL_NAMES.iter().copied().filter(|n| !names.contains(n)).collect();
            for k in 0..d {
                let mut bad = names.clone();
                bad[k] = *g.rng.pick(&others);
                let op = *g.rng.pick(&["reorder", "transpose"]);
                let form = *g.rng.pick(&["alloc", "mut", "lazy"]);
                g.op(format!("{} {} src=t form={}", op, show_names(&bad), form));
                g.count("names.unknown_lookalike");
            }
        }
    }
}

/// Large cases (also in the quick tier): square 2-D tensors of side 6..12 (the in-place branch
/// of reorder_mut / transpose_mut), dimensionality 5 with all 120 orderings and 6 with a sample
/// that always contains the cycle types which first exist there, long sides, tensors of 64..100
/// elements with every reshape factorisation, equality / similarity pairs at those sizes.
fn gen_large_cases(g: &mut Gen) {
    for n in 6..=12usize {
        let shape = named(g, &[n, n]);
        gen_case(g, &shape, true);
        g.count("large.square2d");
    }
    for lens in [vec![2, 1, 3, 2, 2], vec![2, 2, 2, 2, 2], vec![9, 1, 2, 1, 2]] {
        let shape = named(g, &lens);
        gen_case_sized(g, &shape, false, usize::MAX, &[]);
        g.count("large.D5.all_120_orderings");
    }
    let mixed: Vec<Vec<usize>> = vec![
        vec![1, 0, 3, 4, 2, 5], // swap + 3-cycle
        vec![1, 0, 3, 4, 5, 2], // swap + 4-cycle
        vec![1, 2, 0, 4, 5, 3], // two 3-cycles
        vec![1, 2, 3, 4, 5, 0], // 6-cycle
        vec![5, 0, 1, 2, 3, 4], // its inverse
        vec![1, 0, 3, 2, 5, 4], // three swaps
        vec![5, 4, 3, 2, 1, 0], // reversal
        vec![2, 3, 4, 0, 1, 5], // 5-cycle
    ];
    for (lens, k) in [(vec![2, 3, 1, 2, 2, 2], 60usize), (vec![2, 2, 2, 2, 2, 2], 40), (vec![1, 2, 10, 1, 2, 1], 40)] {
        let shape = named(g, &lens);
        gen_case_sized(g, &shape, false, k, &mixed);
        g.count("large.D6.sampled_orderings");
    }
    // 64..100 elements: every ordering, every reshape factorisation (D2 <= 3)
    for lens in [vec![4, 4, 4], vec![10, 10], vec![2, 5, 10], vec![9, 9], vec![6, 2, 6], vec![12, 7], vec![100], vec![3, 11, 3]] {
        let shape = named(g, &lens);
        gen_case(g, &shape, true);
        g.count("large.64_to_100_elements");
    }
}

// ---------------------------------------------------------------------------------------------
// execution against the implementation
// ---------------------------------------------------------------------------------------------

fn parse_data(s: &str) -> Vec<u64> {
    if let Some(rest) = s.strip_prefix('i') {
        let (a, n) = rest.split_once('x').expect("i<start>x<n>");
        let a: u64 = a.parse().unwrap();
        let n: u64 = n.parse().unwrap();
        (0..n).map(|i| i + a).collect()
    } else {
        split_comma(s).iter().map(|t| t.parse::<u64>().expect("u64")).collect()
    }
}

#[derive(Clone, Debug)]
enum Src {
    Tensor,
    View,
    Access(Vec<&'static str>),
    Transpose(Vec<&'static str>),
    Rename(Vec<&'static str>),
}

fn parse_src(s: &str) -> Src {
    if s == "t" {
        Src::Tensor
    } else if s == "v" {
        Src::View
    } else if let Some(r) = s.strip_prefix("a:") {
        Src::Access(parse_names(r))
    } else if let Some(r) = s.strip_prefix("x:") {
        Src::Transpose(parse_names(r))
    } else if let Some(r) = s.strip_prefix("r:") {
        Src::Rename(parse_names(r))
    } else {
        panic!("bad src {}", s)
    }
}

fn src_arg(key: &str, toks: &[&str]) -> Src {
    opt_arg(key, toks).map(parse_src).unwrap_or(Src::Tensor)
}

/// Reads every element through the checked `get_reference`, at indexes produced by the
/// harness's own odometer (independent of the library's iterators).
fn dump<S: TensorRef<u64, D>, const D: usize>(s: &S) -> Result<(Vec<(&'static str, usize)>, Vec<u64>), String> {
    let shape = s.view_shape();
    let lens: Vec<usize> = shape.iter().map(|d| d.1).collect();
    let mut data = vec![];
    for idx in all_indexes(&lens) {
        let a: [usize; D] = to_array(&idx);
        match s.get_reference(a) {
            Some(x) => data.push(*x),
            None => return Err(format!("missing-element-at={}", show_usizes(&idx))),
        }
    }
    Ok((shape.to_vec(), data))
}

fn show_val(shape: &[(&'static str, usize)], data: &[u64]) -> String {
    format!("shape={} data={}", show_shape(shape), show_data(data))
}

fn show_dump<S: TensorRef<u64, D>, const D: usize>(s: &S) -> String {
    match dump(s) {
        Ok((shape, data)) => show_val(&shape, &data),
        Err(e) => e,
    }
}

/// A lazy view: its shape, its elements by the library's iterator — which must agree with the
/// elements read one by one through `get_reference`.
fn show_lazy<S: TensorRef<u64, D>, const D: usize>(v: &TensorView<u64, S, D>) -> String {
    use easy_ml::tensors::indexing::WithIndex;
    let by_iter: Vec<u64> = v.iter().collect();
    let by_ref_iter: Vec<u64> = v.iter_reference().copied().collect();
    // the `From<iterator> for WithIndex<iterator>` conversions: indexes and elements in step
    let lens: Vec<usize> = v.shape().iter().map(|d| d.1).collect();
    let own = all_indexes(&lens);
    let wi_ref: Vec<([usize; D], u64)> = WithIndex::from(v.iter_reference()).map(|(i, x)| (i, *x)).collect();
    let wi_val: Vec<([usize; D], u64)> = WithIndex::from(v.iter()).collect();
    let wi_ok = wi_ref == wi_val
        && wi_ref.len() == own.len()
        && wi_ref.iter().zip(own.iter()).all(|((i, _), o)| i[..] == o[..])
        && wi_ref.iter().map(|p| p.1).collect::<Vec<u64>>() == by_iter;
    if !wi_ok {
        return "with-index-from-mismatch".into();
    }
    match dump(v.source_ref()) {
        Ok((shape, data)) => {
            // a lazy view prints as the tensor holding its value (Display depends on the value only)
            let materialised: Tensor<u64, D> = Tensor::from(v.shape(), data.clone());
            if format!("{}", v) != format!("{}", materialised) {
                return "display-mismatch".into();
            }
            if data != by_iter || data != by_ref_iter || shape[..] != v.shape()[..] {
                format!("iter-vs-get-mismatch iter={} get={}", show_data(&by_iter), show_data(&data))
            } else {
                show_val(&shape, &data)
            }
        }
        Err(e) => e,
    }
}

fn outcome(r: Result<String, PanicKind>) -> String {
    match r {
        Ok(s) => s,
        Err(k) => panic_str(k),
    }
}

/// The source as a type-erased owned `TensorRef` (used for right operands).
fn boxed<const D: usize>(t: &Tensor<u64, D>, src: &Src) -> Box<dyn TensorRef<u64, D>> {
    match src {
        Src::Tensor | Src::View => Box::new(t.clone()),
        Src::Access(n) => Box::new(TensorAccess::from(t.clone(), names_array::<D>(n))),
        Src::Transpose(n) => Box::new(TensorTranspose::from(t.clone(), names_array::<D>(n))),
        Src::Rename(n) => Box::new(TensorRename::from(t.clone(), names_array::<D>(n))),
    }
}

/// Runs `$body` with `$v` bound to a statically typed `TensorView` of the requested source.
macro_rules! with_view {
    ($t:expr, $src:expr, $D:ident, $v:ident => $body:expr) => {
        match $src {
            Src::Tensor | Src::View => {
                let $v = $t.view();
                $body
            }
            Src::Access(n) => {
                let $v = TensorView::from(TensorAccess::from($t, names_array::<$D>(n)));
                $body
            }
            Src::Transpose(n) => {
                let $v = TensorView::from(TensorTranspose::from($t, names_array::<$D>(n)));
                $body
            }
            Src::Rename(n) => {
                let $v = TensorView::from(TensorRename::from($t, names_array::<$D>(n)));
                $body
            }
        }
    };
}

/// The same with a mutable borrow of the tensor.
macro_rules! with_view_mut {
    ($t:expr, $src:expr, $D:ident, $v:ident => $body:expr) => {
        match $src {
            Src::Tensor | Src::View => {
                let mut $v = $t.view_mut();
                $body
            }
            Src::Access(n) => {
                let mut $v = TensorView::from(TensorAccess::from(&mut *$t, names_array::<$D>(n)));
                $body
            }
            Src::Transpose(n) => {
                let mut $v = TensorView::from(TensorTranspose::from(&mut *$t, names_array::<$D>(n)));
                $body
            }
            Src::Rename(n) => {
                let mut $v = TensorView::from(TensorRename::from(&mut *$t, names_array::<$D>(n)));
                $body
            }
        }
    };
}

fn is_tensor(s: &Src) -> bool {
    matches!(s, Src::Tensor)
}

fn reorder_like<const D: usize>(t: &Tensor<u64, D>, transpose: bool, names: &[&'static str], src: &Src, form: &str) -> String {
    if names.len() != D {
        return "bad-op".into();
    }
    let names: [&'static str; D] = names_array(names);
    outcome(catch(|| match form {
        "mut" => {
            let mut copy = t.clone();
            if transpose {
                copy.transpose_mut(names);
            } else {
                copy.reorder_mut(names);
            }
            show_dump(&copy)
        }
        "lazy" => with_view!(t, src, D, v => {
            if transpose {
                // Display of a TensorTranspose = Display of its value + its data layout
                let tt = TensorTranspose::from(v.source_ref(), names);
                let shown = format!("{}", tt);
                let layout = format!("\nData Layout = {:?}", tt.data_layout());
                let lazy = v.transpose_view(names);
                if shown != format!("{}{}", lazy, layout) { "display-mismatch".to_string() } else { show_lazy(&lazy) }
            } else {
                // Display of a TensorAccess = Display of its value + its data layout
                let ta = TensorAccess::from(v.source_ref(), names);
                let shown = format!("{}", ta);
                let layout = format!("\nData Layout = {:?}", ta.data_layout());
                let lazy = TensorView::from(ta);
                if shown != format!("{}{}", lazy, layout) { "display-mismatch".to_string() } else { show_lazy(&lazy) }
            }
        }),
        _ => {
            if is_tensor(src) {
                show_dump(&if transpose { t.transpose(names) } else { t.reorder(names) })
            } else {
                with_view!(t, src, D, v => show_dump(&if transpose { v.transpose(names) } else { v.reorder(names) }))
            }
        }
    }))
}

fn reshape<const D: usize>(t: &Tensor<u64, D>, shape2: &[(&'static str, usize)], form: &str) -> String {
    if form == "mut" {
        if shape2.len() != D {
            return "bad-op".into();
        }
        let s2: [(&'static str, usize); D] = shape_array(shape2);
        outcome(catch(|| {
            let mut copy = t.clone();
            copy.reshape_mut(s2);
            show_dump(&copy)
        }))
    } else {
        with_d!(shape2.len(), D2 => {
            let s2: [(&'static str, usize); D2] = shape_array(shape2);
            outcome(catch(|| show_dump(&t.clone().reshape_owned(s2))))
        })
    }
}

fn rename<const D: usize>(t: &Tensor<u64, D>, names: &[&'static str], src: &Src, form: &str) -> String {
    if names.len() != D {
        return "bad-op".into();
    }
    let names: [&'static str; D] = names_array(names);
    outcome(catch(|| match form {
        "mut" => {
            let mut copy = t.clone();
            copy.rename(names);
            show_dump(&copy)
        }
        "owned" => show_dump(&t.clone().rename_owned(names)),
        _ => {
            if is_tensor(src) {
                show_lazy(&t.rename_view(names))
            } else {
                with_view!(t, src, D, v => show_lazy(&v.rename_view(names)))
            }
        }
    }))
}

fn map_like<const D: usize>(t: &Tensor<u64, D>, with_index: bool, src: &Src, form: &str, via: &str) -> String {
    outcome(catch(|| {
        if form == "mut" {
            let mut copy = t.clone();
            if is_tensor(src) {
                if with_index {
                    copy.map_mut_with_index(|i, x| mapi_f(&i, x));
                } else {
                    copy.map_mut(map_f);
                }
            } else if via == "access" {
                if let Src::Access(n) = src {
                    let mut a = TensorAccess::from(&mut copy, names_array::<D>(n));
                    if with_index {
                        a.map_mut_with_index(|i, x| mapi_f(&i, x));
                    } else {
                        a.map_mut(map_f);
                    }
                }
            } else {
                let c = &mut copy;
                with_view_mut!(c, src, D, v => {
                    if with_index {
                        v.map_mut_with_index(|i, x| mapi_f(&i, x));
                    } else {
                        v.map_mut(map_f);
                    }
                });
            }
            // the mutated tensor seen through the same view, and the underlying data
            let seen = with_view!(&copy, src, D, v => show_lazy(&v));
            let under = match dump(&copy) {
                Ok((_, d)) => show_data(&d),
                Err(e) => e,
            };
            if with_index {
                format!("{} ## under={}", seen, under)
            } else {
                format!("{} ## under={} direct={}", seen, under, under)
            }
        } else if is_tensor(src) {
            if with_index {
                show_dump(&t.map_with_index(|i, x| mapi_f(&i, x)))
            } else {
                show_dump(&t.map(map_f))
            }
        } else if via == "access" {
            match src {
                Src::Access(n) => {
                    let a = TensorAccess::from(t, names_array::<D>(n));
                    if with_index {
                        show_dump(&a.map_with_index(|i, x| mapi_f(&i, x)))
                    } else {
                        show_dump(&a.map(map_f))
                    }
                }
                _ => "bad-op".into(),
            }
        } else {
            with_view!(t, src, D, v => {
                if with_index {
                    show_dump(&v.map_with_index(|i, x| mapi_f(&i, x)))
                } else {
                    show_dump(&v.map(map_f))
                }
            })
        }
    }))
}

fn zip<const D: usize>(t: &Tensor<u64, D>, t2: &Tensor<u64, D>, src: &Src, rsrc: &Src, with_index: bool, via: &str) -> String {
    outcome(catch(|| {
        let by_ref = via == "ref";
        macro_rules! go {
            ($lhs:expr, $rhs:expr) => {
                match (with_index, by_ref) {
                    (false, false) => show_dump(&$lhs.elementwise($rhs, zip_f)),
                    (false, true) => show_dump(&$lhs.elementwise_reference($rhs, |x, y| zip_f(*x, *y))),
                    (true, false) => show_dump(&$lhs.elementwise_with_index($rhs, |i, x, y| zipi_f(&i, x, y))),
                    (true, true) => show_dump(&$lhs.elementwise_reference_with_index($rhs, |i, x, y| zipi_f(&i, *x, *y))),
                }
            };
        }
        if is_tensor(src) {
            if is_tensor(rsrc) {
                go!(t, t2)
            } else {
                go!(t, TensorView::from(boxed(t2, rsrc)))
            }
        } else {
            with_view!(t, src, D, v => {
                if is_tensor(rsrc) {
                    go!(v, t2)
                } else {
                    go!(v, TensorView::from(boxed(t2, rsrc)))
                }
            })
        }
    }))
}

fn first<const D: usize>(t: &Tensor<u64, D>, src: &Src, via: &str) -> String {
    outcome(catch(|| {
        if via == "access" {
            match src {
                Src::Access(n) => TensorAccess::from(t, names_array::<D>(n)).first().to_string(),
                _ => "bad-op".to_string(),
            }
        } else if is_tensor(src) {
            t.first().to_string()
        } else {
            with_view!(t, src, D, v => v.first().to_string())
        }
    }))
}

/// Builds the view over an owned copy and takes the source back out (`source` consumes,
/// `source_ref` borrows) at every layer; the tensor that comes out must be the one put in.
fn source<const D: usize>(t: &Tensor<u64, D>, src: &Src, via: &str) -> String {
    outcome(catch(|| {
        let by_ref = via == "source_ref";
        match src {
            Src::Tensor | Src::View => {
                let v = t.clone().view_owned();
                if by_ref { show_dump(v.source_ref()) } else { show_dump(&v.source()) }
            }
            Src::Access(n) => {
                let v = TensorView::from(TensorAccess::from(t.clone(), names_array::<D>(n)));
                if by_ref { show_dump(v.source_ref().source_ref()) } else { show_dump(&v.source().source()) }
            }
            Src::Transpose(n) => {
                let v = TensorView::from(TensorTranspose::from(t.clone(), names_array::<D>(n)));
                if by_ref { show_dump(v.source_ref().source_ref()) } else { show_dump(&v.source().source()) }
            }
            Src::Rename(n) => {
                let v = TensorView::from(TensorRename::from(t.clone(), names_array::<D>(n)));
                if by_ref { show_dump(v.source_ref().source_ref()) } else { show_dump(&v.source().source()) }
            }
        }
    }))
}

fn scalar(t: &Tensor<u64, 0>, src: &Src, form: &str) -> String {
    const Z: usize = 0;
    outcome(catch(|| {
        if form == "into" && !is_tensor(src) {
            // TensorView::into_scalar needs an owned (TensorMut) source
            match src {
                Src::Tensor | Src::View => t.clone().view_owned().into_scalar().to_string(),
                Src::Access(n) => TensorView::from(TensorAccess::from(t.clone(), names_array::<Z>(n))).into_scalar().to_string(),
                Src::Transpose(n) => TensorView::from(TensorTranspose::from(t.clone(), names_array::<Z>(n))).into_scalar().to_string(),
                Src::Rename(n) => TensorView::from(TensorRename::from(t.clone(), names_array::<Z>(n))).into_scalar().to_string(),
            }
        } else if is_tensor(src) {
            let a = t.scalar();
            let b = t.clone().into_scalar();
            if a == b { a.to_string() } else { format!("scalar-vs-into_scalar {} {}", a, b) }
        } else {
            with_view!(t, src, Z, v => v.scalar().to_string())
        }
    }))
}

fn compare<const D: usize>(t: &Tensor<u64, D>, t2: &Tensor<u64, D>, similar: bool, src: &Src, rsrc: &Src) -> String {
    outcome(catch(|| {
        let ans: bool = if is_tensor(src) {
            if is_tensor(rsrc) {
                if similar { t.similar(t2) } else { t == t2 }
            } else {
                let r = TensorView::from(boxed(t2, rsrc));
                if similar { t.similar(&r) } else { *t == r }
            }
        } else {
            with_view!(t, src, D, v => {
                if is_tensor(rsrc) {
                    if similar { v.similar(t2) } else { v == *t2 }
                } else {
                    let r = TensorView::from(boxed(t2, rsrc));
                    if similar { v.similar(&r) } else { v == r }
                }
            })
        };
        ans.to_string()
    }))
}

fn matrix_ops(t: &Tensor<u64, 2>, toks: &[&str]) -> String {
    match toks {
        ["into_matrix", ..] => outcome(catch(|| {
            let m = t.clone().into_matrix();
            let m2: Matrix<u64> = t.clone().into();
            if m != m2 {
                return "into_matrix-vs-into".to_string();
            }
            let data: Vec<u64> = m.row_major_iter().collect();
            format!("rows={} cols={} data={}", m.rows(), m.columns(), show_data(&data))
        })),
        ["roundtrip", ..] => outcome(catch(|| {
            let shape = t.shape();
            match t.clone().into_matrix().into_tensor(shape[0].0, shape[1].0) {
                Ok(back) => show_dump(&back),
                Err(_) => "err".to_string(),
            }
        })),
        _ => "bad-op".into(),
    }
}

fn from_matrix(toks: &[&str]) -> String {
    match toks {
        ["from_matrix", rows_s, cols_s, data_s, rname, cname] => {
            let rows: usize = rows_s.parse().unwrap();
            let cols: usize = cols_s.parse().unwrap();
            let data = parse_data(data_s);
            let (rname, cname) = (intern(rname), intern(cname));
            outcome(catch(|| {
                let m = Matrix::from_flat_row_major((rows, cols), data.clone());
                let via_try: Result<Tensor<u64, 2>, _> =
                    <Tensor<u64, 2> as TryFrom<(Matrix<u64>, [&'static str; 2])>>::try_from((m.clone(), [rname, cname]));
                match (m.into_tensor(rname, cname), via_try) {
                    (Ok(t), Ok(t2)) => {
                        if t == t2 { show_dump(&t) } else { "into_tensor-vs-try_from".to_string() }
                    }
                    (Err(_), Err(_)) => "err".to_string(),
                    _ => "into_tensor-vs-try_from".to_string(),
                }
            }))
        }
        _ => "bad-op".into(),
    }
}

fn parse_f64(tok: &str) -> f64 {
    match tok {
        "nan" => f64::NAN,
        "inf" => f64::INFINITY,
        "-inf" => f64::NEG_INFINITY,
        "-0" => -0.0,
        other => other.parse::<f64>().expect("f64"),
    }
}

fn dump_f<S: TensorRef<f64, D>, const D: usize>(s: &S) -> (Vec<(&'static str, usize)>, Vec<f64>) {
    let shape = s.view_shape();
    let lens: Vec<usize> = shape.iter().map(|d| d.1).collect();
    let data = all_indexes(&lens)
        .iter()
        .map(|idx| *s.get_reference(to_array::<usize, D>(idx)).expect("element"))
        .collect();
    (shape.to_vec(), data)
}

/// Equality and similarity of `f64` tensors through every operand form; `rel`: `self` (the very
/// same object on both sides), `clone`, `other` (the tensor given on the line).  The oracle is
/// the element type's own `==` applied cell by cell to what the harness reads itself.
fn fcmp<const D: usize>(t: &Tensor<f64, D>, t2: &Tensor<f64, D>, rel: &str) -> String {
    outcome(catch(|| {
        let mut eqs: Vec<(&str, bool)> = vec![];
        let mut sims: Vec<(&str, bool)> = vec![];
        match rel {
            "self" => {
                let v = t.view();
                let w = t.clone().view_owned();
                eqs.push(("t==t", t == t));
                eqs.push(("v==v", v == v));
                eqs.push(("&v==&v", &v == &v));
                eqs.push(("w==w", w == w));
                eqs.push(("t==v", *t == v));
                eqs.push(("v==t", v == *t));
                sims.push(("t~t", t.similar(t)));
                sims.push(("v~v", v.similar(&v)));
                sims.push(("t~v", t.similar(&v)));
                sims.push(("v~t", v.similar(t)));
            }
            _ => {
                let c;
                let r: &Tensor<f64, D> = if rel == "clone" { c = t.clone(); &c } else { t2 };
                let (v, rv) = (t.view(), r.view());
                eqs.push(("t==r", t == r));
                eqs.push(("v==rv", v == rv));
                eqs.push(("t==rv", *t == rv));
                eqs.push(("v==r", v == *r));
                let own = easy_ml::tensors::dimensions::names_of(&r.shape());
                let ra = TensorView::from(TensorAccess::from(r, own));
                eqs.push(("t==access(r)", *t == ra));
                eqs.push(("v==access(r)", v == ra));
                sims.push(("t~r", t.similar(r)));
                sims.push(("v~rv", v.similar(&rv)));
                sims.push(("t~rv", t.similar(&rv)));
                sims.push(("v~r", v.similar(r)));
                sims.push(("t~access(r)", t.similar(&ra)));
            }
        }
        // the oracle
        let other: &Tensor<f64, D> = if rel == "other" { t2 } else { t };
        let (ls, ld) = dump_f(t);
        let (rs, rd) = dump_f(other);
        let cells = |a: &[f64], b: &[f64]| a.len() == b.len() && a.iter().zip(b.iter()).all(|(x, y)| x == y);
        let eq_oracle = ls == rs && cells(&ld, &rd);
        let rlens: Vec<usize> = rs.iter().map(|d| d.1).collect();
        let idxs: Vec<u64> = (0..rd.len() as u64).collect();
        let sim_oracle = permutations(D).iter().any(|perm| {
            let (nl, order) = reordered_data(&rlens, &idxs, perm);
            let nshape: Vec<(&'static str, usize)> = perm.iter().zip(nl.iter()).map(|(&p, &l)| (rs[p].0, l)).collect();
            let nd: Vec<f64> = order.iter().map(|&i| rd[i as usize]).collect();
            nshape == ls && cells(&nd, &ld)
        });
        let all_eq = eqs.iter().all(|(_, b)| *b == eq_oracle);
        let all_sim = sims.iter().all(|(_, b)| *b == sim_oracle);
        if all_eq && all_sim {
            format!("eq={} sim={}", eq_oracle, sim_oracle)
        } else {
            let show = |v: &[(&str, bool)]| v.iter().map(|(n, b)| format!("{}:{}", n, b)).collect::<Vec<_>>().join(",");
            format!("forms-disagree eq=[{}] sim=[{}] oracle eq={} sim={}", show(&eqs), show(&sims), eq_oracle, sim_oracle)
        }
    }))
}

fn apply_step<const D: usize>(m: &mut Tensor<u64, D>, step: &str) {
    let (op, arg) = match step.split_once(':') {
        Some((o, a)) => (o, a),
        None => (step, ""),
    };
    match op {
        "reorder" => m.reorder_mut(names_array::<D>(&parse_names(arg))),
        "transpose" => m.transpose_mut(names_array::<D>(&parse_names(arg))),
        "rename" => m.rename(names_array::<D>(&parse_names(arg))),
        "reshape" => m.reshape_mut(shape_array::<D>(&parse_shape(arg))),
        "map" => m.map_mut(map_f),
        "mapi" => m.map_mut_with_index(|i, x| mapi_f(&i, x)),
        other => panic!("unknown step {}", other),
    }
}

/// One consumer of a tensor's content; those that read `data` in storage order are the point.
fn consume<const D: usize>(x: &Tensor<u64, D>, cons: &str) -> String {
    let n: usize = x.shape().iter().map(|d| d.1).product();
    let other: Tensor<u64, D> = Tensor::from(x.shape(), (0..n as u64).map(|i| i + 500).collect());
    if let Some(arg) = cons.strip_prefix("reshape_owned:") {
        let sh = parse_shape(arg);
        return with_d!(sh.len(), D2 => show_dump(&x.clone().reshape_owned(shape_array::<D2>(&sh))));
    }
    if let Some(arg) = cons.strip_prefix("reshape_mut:") {
        let mut c = x.clone();
        c.reshape_mut(shape_array::<D>(&parse_shape(arg)));
        return show_dump(&c);
    }
    match cons {
        "zipl" => show_dump(&x.elementwise(&other, zip_f)),
        "zipli" => show_dump(&x.elementwise_with_index(&other, |i, a, b| zipi_f(&i, a, b))),
        "zipr" => show_dump(&other.elementwise(x, zip_f)),
        "zipri" => show_dump(&other.elementwise_with_index(x, |i, a, b| zipi_f(&i, a, b))),
        "map" => show_dump(&x.map(map_f)),
        "mapi" => show_dump(&x.map_with_index(|i, a| mapi_f(&i, a))),
        "matrix" => {
            let any: &dyn std::any::Any = x;
            match any.downcast_ref::<Tensor<u64, 2>>() {
                Some(t2) => {
                    let m = t2.clone().into_matrix();
                    let data: Vec<u64> = m.row_major_iter().collect();
                    format!("rows={} cols={} data={}", m.rows(), m.columns(), show_data(&data))
                }
                None => "bad-op".into(),
            }
        }
        "iter" => {
            let a: Vec<u64> = x.iter().collect();
            let b: Vec<u64> = x.iter_reference().copied().collect();
            let c: Vec<u64> = x.clone().iter_owned().collect();
            if a == b && b == c { format!("data={}", show_data(&a)) } else { "iterators-disagree".into() }
        }
        "add" | "add_r" | "add_v" | "add_vr" => {
            // the operators need a signed element type; `Tensor::map` copies the data in storage
            // order and keeps shape and strides, so the representation under test is preserved
            let xi: Tensor<i64, D> = x.map(|v| v as i64);
            let oi: Tensor<i64, D> = other.map(|v| v as i64);
            let sum: Tensor<i64, D> = match cons {
                "add" => &xi + &oi,
                "add_r" => &oi + &xi,
                "add_v" => &xi + oi.view(),
                _ => oi.view() + &xi,
            };
            let shape = sum.shape();
            let lens: Vec<usize> = shape.iter().map(|d| d.1).collect();
            let data: Vec<u64> = all_indexes(&lens)
                .iter()
                .map(|idx| *sum.get_reference(to_array::<usize, D>(idx)).expect("element") as u64)
                .collect();
            show_val(&shape, &data)
        }
        "display" => format!("{}", x).replace(char::is_whitespace, "_"),
        "eq" => match dump(x) {
            Ok((shape, data)) => (*x == Tensor::from(shape_array::<D>(&shape), data)).to_string(),
            Err(e) => e,
        },
        "first" => x.first().to_string(),
        _ => "bad-op".into(),
    }
}

fn chain<const D: usize>(t: &Tensor<u64, D>, steps_s: &str, cons: &str) -> String {
    outcome(catch(|| {
        let mut m = t.clone();
        if steps_s != "-" {
            for step in steps_s.split('/') {
                apply_step(&mut m, step);
            }
        }
        // the logical content, read through the checked getter at the harness's own indexes
        let (shape, data) = match dump(&m) {
            Ok(v) => v,
            Err(e) => return e,
        };
        let fresh: Tensor<u64, D> = Tensor::from(shape_array::<D>(&shape), data);
        let after = consume(&m, cons);
        let reference = consume(&fresh, cons);
        if after != reference {
            format!("consumer-differs after-in-place={} fresh={}", after, reference)
        } else if cons == "display" {
            "display-ok".to_string()
        } else {
            after
        }
    }))
}

enum AnyF {
    None,
    D0(Tensor<f64, 0>), D1(Tensor<f64, 1>), D2(Tensor<f64, 2>), D3(Tensor<f64, 3>),
}

fn parse_fdata(s: &str) -> Vec<f64> {
    split_comma(s).iter().map(|t| parse_f64(t)).collect()
}

enum AnyT {
    None,
    D0(Tensor<u64, 0>), D1(Tensor<u64, 1>), D2(Tensor<u64, 2>), D3(Tensor<u64, 3>),
    D4(Tensor<u64, 4>), D5(Tensor<u64, 5>), D6(Tensor<u64, 6>),
}

fn step_d<const D: usize>(t: &Tensor<u64, D>, toks: &[&str]) -> String {
    match toks {
        [op @ ("reorder" | "transpose"), names_s, rest @ ..] => {
            let names = parse_names(names_s);
            let src = src_arg("src", rest);
            let form = opt_arg("form", rest).unwrap_or("alloc");
            reorder_like(t, *op == "transpose", &names, &src, form)
        }
        ["reshape", shape_s, rest @ ..] => {
            let shape2 = parse_shape(shape_s);
            reshape(t, &shape2, opt_arg("form", rest).unwrap_or("owned"))
        }
        ["rename", names_s, rest @ ..] => {
            let names = parse_names(names_s);
            let src = src_arg("src", rest);
            rename(t, &names, &src, opt_arg("form", rest).unwrap_or("mut"))
        }
        [op @ ("map" | "mapi"), rest @ ..] => {
            let src = src_arg("src", rest);
            map_like(t, *op == "mapi", &src, opt_arg("form", rest).unwrap_or("alloc"), opt_arg("via", rest).unwrap_or(""))
        }
        ["zip", shape_s, data_s, rest @ ..] => {
            let shape2 = parse_shape(shape_s);
            if shape2.len() != D {
                return "bad-op".into();
            }
            let t2: Tensor<u64, D> = Tensor::from(shape_array(&shape2), parse_data(data_s));
            zip(t, &t2, &src_arg("src", rest), &src_arg("rsrc", rest), opt_arg("idx", rest) == Some("1"), opt_arg("via", rest).unwrap_or("val"))
        }
        ["first", rest @ ..] => first(t, &src_arg("src", rest), opt_arg("via", rest).unwrap_or("")),
        ["source", rest @ ..] => source(t, &src_arg("src", rest), opt_arg("via", rest).unwrap_or("source")),
        [op @ ("sread" | "swrite"), kind, names_s, rest @ ..] => {
            let names = parse_names(names_s);
            let route = opt_arg("route", rest).unwrap_or("");
            if *op == "sread" { surface::sread(t, kind, &names, route) } else { surface::swrite(t, kind, &names, route) }
        }
        ["chain", steps_s, rest @ ..] => chain(t, steps_s, opt_arg("cons", rest).unwrap_or("iter")),
        ["is_square", ..] => easy_ml::tensors::dimensions::is_square(&t.shape()).to_string(),
        [op @ ("eq" | "similar"), shape_s, data_s, rest @ ..] => {
            let shape2 = parse_shape(shape_s);
            if shape2.len() != D {
                return "bad-op".into();
            }
            let t2: Tensor<u64, D> = Tensor::from(shape_array(&shape2), parse_data(data_s));
            compare(t, &t2, *op == "similar", &src_arg("src", rest), &src_arg("rsrc", rest))
        }
        _ => "bad-op".into(),
    }
}

pub struct Runner {
    t: AnyT,
    f: AnyF,
}

impl Runner {
    pub fn new() -> Runner {
        Runner { t: AnyT::None, f: AnyF::None }
    }

    pub fn step(&mut self, toks: &[&str]) -> String {
        match toks {
            ["@", "f", shape_s, data_s] => {
                let shape = parse_shape(shape_s);
                let data = parse_fdata(data_s);
                macro_rules! mkf {
                    ($D:literal, $V:ident) => {{
                        let s: [(&'static str, usize); $D] = shape_array(&shape);
                        match catch(|| Tensor::from(s, data)) {
                            Ok(t) => { self.f = AnyF::$V(t); "ok".to_string() }
                            Err(k) => { self.f = AnyF::None; panic_str(k) }
                        }
                    }};
                }
                self.t = AnyT::None;
                match shape.len() {
                    0 => mkf!(0, D0), 1 => mkf!(1, D1), 2 => mkf!(2, D2), 3 => mkf!(3, D3),
                    _ => "bad-op".into(),
                }
            }
            ["fcmp", shape_s, data_s, rest @ ..] => {
                let shape = parse_shape(shape_s);
                let data = parse_fdata(data_s);
                let rel = opt_arg("rel", rest).unwrap_or("other");
                macro_rules! go {
                    ($D:literal, $t:expr) => {{
                        if shape.len() != $D {
                            "bad-op".to_string()
                        } else {
                            let s: [(&'static str, usize); $D] = shape_array(&shape);
                            match catch(|| Tensor::from(s, data)) {
                                Ok(t2) => fcmp($t, &t2, rel),
                                Err(k) => panic_str(k),
                            }
                        }
                    }};
                }
                match &self.f {
                    AnyF::None => "no-tensor".into(),
                    AnyF::D0(t) => go!(0, t),
                    AnyF::D1(t) => go!(1, t),
                    AnyF::D2(t) => go!(2, t),
                    AnyF::D3(t) => go!(3, t),
                }
            }
            ["@", "t", shape_s, data_s] => {
                self.f = AnyF::None;
                let shape = parse_shape(shape_s);
                let data = parse_data(data_s);
                macro_rules! mk {
                    ($D:literal, $V:ident) => {{
                        let s: [(&'static str, usize); $D] = shape_array(&shape);
                        match catch(|| Tensor::from(s, data)) {
                            Ok(t) => { self.t = AnyT::$V(t); "ok".to_string() }
                            Err(k) => { self.t = AnyT::None; panic_str(k) }
                        }
                    }};
                }
                match shape.len() {
                    0 => mk!(0, D0), 1 => mk!(1, D1), 2 => mk!(2, D2), 3 => mk!(3, D3),
                    4 => mk!(4, D4), 5 => mk!(5, D5), 6 => mk!(6, D6),
                    _ => "bad-op".into(),
                }
            }
            ["from_matrix", ..] => match &self.t {
                AnyT::None => "no-tensor".into(),
                _ => from_matrix(toks),
            },
            ["into_matrix", ..] | ["roundtrip", ..] => match &self.t {
                AnyT::D2(t) => matrix_ops(t, toks),
                AnyT::None => "no-tensor".into(),
                _ => "bad-op".into(),
            },
            ["scalar", rest @ ..] => match &self.t {
                AnyT::D0(t) => scalar(t, &src_arg("src", rest), opt_arg("form", rest).unwrap_or("")),
                AnyT::None => "no-tensor".into(),
                _ => "bad-op".into(),
            },
            _ => match &self.t {
                AnyT::None => "no-tensor".into(),
                AnyT::D0(t) => step_d(t, toks),
                AnyT::D1(t) => step_d(t, toks),
                AnyT::D2(t) => step_d(t, toks),
                AnyT::D3(t) => step_d(t, toks),
                AnyT::D4(t) => step_d(t, toks),
                AnyT::D5(t) => step_d(t, toks),
                AnyT::D6(t) => step_d(t, toks),
            },
        }
    }
}
