//! C09 — iterators.  See lean/Driver/C09.lean for the protocol.
//!
//! Every operation builds its source from scratch (the case header only stores the
//! description), runs the requested iterator for `n` calls and records, before every call,
//! `size_hint()` and `len()`, then the item.  Leaves hold ids equal to their storage offset, so
//! the cell an item comes from is observable; for the reference flavours the cell is computed
//! from the item's *address* relative to the leaf's base pointer.

use crate::util::*;
use crate::with_d;
use easy_ml::matrices::iterators as mi;
use easy_ml::matrices::iterators::WithIndex;
use easy_ml::differentiation::{Record, RecordMatrix, RecordTensor};
use easy_ml::numeric::ZeroOne;
use easy_ml::matrices::views::{
    IndexRange as MIndexRange, MatrixMut, MatrixRange, MatrixRef, MatrixReverse, MatrixView, Reverse,
};
use easy_ml::matrices::Matrix;
use easy_ml::tensors::indexing::{
    ShapeIterator, TensorAccess, TensorIterator, TensorOwnedIterator, TensorReferenceIterator,
    TensorReferenceMutIterator, TensorTranspose,
};
use easy_ml::tensors::views::{
    IndexRange as TIndexRange, TensorChain, TensorMask, TensorMut, TensorRange, TensorRef,
    TensorRename, TensorReverse, TensorStack, TensorView,
};
use easy_ml::tensors::Tensor;
use std::cell::RefCell;

// ---------------------------------------------------------------------------------------------
// element types
// ---------------------------------------------------------------------------------------------

// ---------------------------------------------------------------------------------------------
// the data stored in the leaves
//
// `ids` (default): every cell holds its own id, so positions are identifiable by value.  The
// degenerate modes make values collide on purpose (an iterator that skipped zeros, equal
// neighbours or repeated values would otherwise go unnoticed): the *sequence* of values is
// compared, and references are still identified by address.
// ---------------------------------------------------------------------------------------------

thread_local! {
    static DATA_MODE: std::cell::Cell<u8> = std::cell::Cell::new(0);
}

const MODES: [&str; 5] = ["ids", "zero", "same", "dup", "mod3"];

fn set_mode(name: &str) {
    let m = MODES.iter().position(|m| *m == name).expect("data mode") as u8;
    DATA_MODE.with(|d| d.set(m));
}

fn mode() -> u8 {
    DATA_MODE.with(|d| d.get())
}

/// the value stored in the cell with this id
fn val_of(id: usize) -> u64 {
    if let Some(v) = SNAPSHOT.with(|s| s.borrow().as_ref().and_then(|v| v.get(id).copied())) {
        return v;
    }
    match mode() {
        0 => id as u64,
        1 => 0,
        2 => 7,
        3 => (id / 2) as u64,
        _ => (id % 3) as u64,
    }
}

/// what the mutable iterators' items are overwritten with in the degenerate modes
const EQUAL_WRITE: u64 = 5;

const PLACEHOLDER: u64 = u64::MAX;
/// the placeholder made by `ZeroOne::zero` (the `from_numeric` constructors)
const ZERO_PLACEHOLDER: u64 = u64::MAX - 1;

thread_local! {
    /// drops seen per id (index = id), placeholders created, placeholders dropped
    static DROPS: RefCell<(Vec<u32>, u64, u64)> = RefCell::new((vec![], 0, 0));
    /// placeholders made by `Default::default`, by `ZeroOne::zero`
    static PRODUCERS: RefCell<(u64, u64)> = RefCell::new((0, 0));
}

/// A drop-counting element type without `Clone`/`Copy`; `Default` makes a placeholder.
#[derive(Debug)]
pub struct Dc {
    id: u64,
    /// the payload shown (`val_of(id)`; equal to the id in the default data mode)
    val: u64,
}

impl Dc {
    fn new(id: u64) -> Dc {
        Dc { id, val: val_of(id as usize) }
    }
    fn show(&self) -> String {
        if self.id == PLACEHOLDER || self.id == ZERO_PLACEHOLDER { "P".into() } else { self.val.to_string() }
    }
}

/// what the owned iterators move out: the drop-counting `Dc`, or plain `u64` where the
/// container first has to go through an operation that needs `Clone` / `Numeric` elements
trait OwnElem: Default + ZeroOne + 'static {
    const COUNTED: bool;
    fn make(id: u64) -> Self;
    fn show_e(&self) -> String;
}

impl OwnElem for Dc {
    const COUNTED: bool = true;
    fn make(id: u64) -> Dc {
        Dc::new(id)
    }
    fn show_e(&self) -> String {
        self.show()
    }
}

impl OwnElem for u64 {
    const COUNTED: bool = false;
    fn make(id: u64) -> u64 {
        val_of(id as usize)
    }
    fn show_e(&self) -> String {
        self.to_string()
    }
}

/// the clonable counterpart of `Dc` (no drop accounting): for containers that first go through
/// an operation which needs `Clone` elements
#[derive(Clone, Debug)]
pub struct Cl {
    val: u64,
    placeholder: bool,
}

impl Default for Cl {
    fn default() -> Cl {
        Cl { val: 0, placeholder: true }
    }
}

impl ZeroOne for Cl {
    fn zero() -> Cl {
        Cl { val: 0, placeholder: true }
    }
    fn one() -> Cl {
        unreachable!("the iterators never ask for one()")
    }
}

impl OwnElem for Cl {
    const COUNTED: bool = false;
    fn make(id: u64) -> Cl {
        Cl { val: val_of(id as usize), placeholder: false }
    }
    fn show_e(&self) -> String {
        if self.placeholder { "P".into() } else { self.val.to_string() }
    }
}

impl Default for Dc {
    fn default() -> Dc {
        DROPS.with(|d| d.borrow_mut().1 += 1);
        PRODUCERS.with(|p| p.borrow_mut().0 += 1);
        Dc { id: PLACEHOLDER, val: 0 }
    }
}

impl ZeroOne for Dc {
    fn zero() -> Dc {
        DROPS.with(|d| d.borrow_mut().1 += 1);
        PRODUCERS.with(|p| p.borrow_mut().1 += 1);
        Dc { id: ZERO_PLACEHOLDER, val: 0 }
    }
    fn one() -> Dc {
        unreachable!("the iterators never ask for one()")
    }
}

impl Drop for Dc {
    fn drop(&mut self) {
        DROPS.with(|d| {
            let mut d = d.borrow_mut();
            if self.id == PLACEHOLDER || self.id == ZERO_PLACEHOLDER {
                d.2 += 1;
            } else {
                let i = self.id as usize;
                if d.0.len() <= i {
                    d.0.resize(i + 1, 0);
                }
                d.0[i] += 1;
            }
        });
    }
}

fn drops_reset() {
    DROPS.with(|d| *d.borrow_mut() = (vec![], 0, 0));
    PRODUCERS.with(|p| *p.borrow_mut() = (0, 0));
}

/// the placeholders came from the producer the constructor promises (`Default` / `zero`)
fn producer_ok(numeric: bool) -> bool {
    PRODUCERS.with(|p| {
        let p = p.borrow();
        if numeric { p.0 == 0 } else { p.1 == 0 }
    })
}

fn drops_of(id: usize) -> u32 {
    DROPS.with(|d| d.borrow().0.get(id).copied().unwrap_or(0))
}

fn placeholders() -> (u64, u64) {
    DROPS.with(|d| {
        let d = d.borrow();
        (d.1, d.2)
    })
}

/// A heap cell whose address stays put and that can be lent out as `&'static mut`
/// (needed because `Box<dyn TensorMut<_, D>>` must be `'static`) and inspected afterwards.
struct Leaf<T> {
    raw: *mut T,
}

impl<T> Leaf<T> {
    fn new(t: T) -> Leaf<T> {
        Leaf { raw: Box::into_raw(Box::new(t)) }
    }
    /// Safety: the returned borrow (and everything derived from it) must be dead before the
    /// next call of `get`, `lend` or `take`.
    unsafe fn lend(&self) -> &'static mut T {
        &mut *self.raw
    }
    fn get(&self) -> &T {
        unsafe { &*self.raw }
    }
    fn take(self) -> T {
        let t = unsafe { *Box::from_raw(self.raw) };
        std::mem::forget(self);
        t
    }
}

impl<T> Drop for Leaf<T> {
    fn drop(&mut self) {
        unsafe { drop(Box::from_raw(self.raw)) }
    }
}

/// The leaf's cells in storage order, read through the *checked* accessor with indexes computed
/// here (not with the iterators under test).
fn tensor_cells<E, R, const D: usize>(t: &Tensor<E, D>, f: impl Fn(&E) -> R) -> Vec<R> {
    let shape = t.shape();
    let total: usize = shape.iter().map(|d| d.1).product();
    (0..total)
        .map(|o| {
            let mut rest = o;
            let mut idx = [0usize; D];
            for d in (0..D).rev() {
                idx[d] = rest % shape[d].1;
                rest /= shape[d].1;
            }
            f(TensorRef::get_reference(t, idx).expect("leaf cell"))
        })
        .collect()
}

fn matrix_cells<E, R>(m: &Matrix<E>, f: impl Fn(&E) -> R) -> Vec<R> {
    let (rows, cols) = m.size();
    let mut out = vec![];
    for r in 0..rows {
        for c in 0..cols {
            out.push(f(m.get_reference(r, c)));
        }
    }
    out
}

// ---------------------------------------------------------------------------------------------
// recording
// ---------------------------------------------------------------------------------------------

trait ShowIdx {
    fn show_idx(&self) -> String;
}

impl<const D: usize> ShowIdx for [usize; D] {
    fn show_idx(&self) -> String {
        if D == 0 {
            "*".into()
        } else {
            self.iter().map(|x| x.to_string()).collect::<Vec<_>>().join(".")
        }
    }
}

impl ShowIdx for (usize, usize) {
    fn show_idx(&self) -> String {
        format!("{}.{}", self.0, self.1)
    }
}

/// `size_hint()`, `len()`, `next()` for `n` calls on an existing iterator; false after a panic
fn records<I: ExactSizeIterator>(
    it: &mut I,
    n: usize,
    mut show: impl FnMut(I::Item) -> String,
    recs: &mut Vec<String>,
) -> bool {
    for _ in 0..n {
        let head = match catch(|| it.size_hint()) {
            Err(k) => panic_str(k),
            Ok((lo, hi)) => {
                let his = match hi {
                    Some(h) => h.to_string(),
                    None => "n".into(),
                };
                let len = match catch(|| it.len()) {
                    Ok(l) => l.to_string(),
                    Err(k) => panic_str(k),
                };
                format!("{}/{}/{}", lo, his, len)
            }
        };
        match catch(|| it.next()) {
            Err(k) => {
                recs.push(format!("{}:{}", head, panic_str(k)));
                return false;
            }
            Ok(None) => recs.push(format!("{}:-", head)),
            Ok(Some(x)) => {
                let s = show(x);
                recs.push(format!("{}:{}", head, s));
            }
        }
    }
    true
}

/// `size_hint()`, `len()`, `next()` for `n` calls; `show` renders (and may keep) an item.
fn drive<I: ExactSizeIterator>(
    make: impl FnOnce() -> I,
    n: usize,
    show: impl FnMut(I::Item) -> String,
) -> String {
    let mut it = match catch(make) {
        Ok(it) => it,
        Err(k) => return panic_str(k),
    };
    let mut recs: Vec<String> = vec![];
    records(&mut it, n, show, &mut recs);
    recs.join(";")
}

/// where the with-index wrapper is put on or taken off in the middle of an iteration
#[derive(Clone, Copy)]
enum Phase {
    /// `k` calls on the with-index iterator, then `WithIndex::source()` hands back the wrapped
    /// iterator, which serves the remaining calls
    Split(usize),
    /// `k` calls on the plain iterator, then it is converted (`with_index()`, `WithIndex::from`,
    /// `.into()`) and the with-index iterator serves the remaining calls
    Conv(usize),
}

fn phase_of(op: &Op) -> Phase {
    match op.conv {
        Some(k) => Phase::Conv(k),
        None => Phase::Split(op.split.unwrap_or(0)),
    }
}

fn drive_split<I: ExactSizeIterator>(
    make: impl FnOnce() -> I,
    to_wi: impl FnOnce(I) -> WithIndex<I>,
    phase: Phase,
    n: usize,
    show_wi: impl FnMut(<WithIndex<I> as Iterator>::Item) -> String,
    show: impl FnMut(I::Item) -> String,
) -> String
where
    WithIndex<I>: ExactSizeIterator,
{
    let mut recs: Vec<String> = vec![];
    match phase {
        Phase::Split(k) => {
            let mut w = match catch(move || to_wi(make())) {
                Ok(w) => w,
                Err(e) => return panic_str(e),
            };
            let k = std::cmp::min(k, n);
            if records(&mut w, k, show_wi, &mut recs) {
                let mut inner: I = w.source();
                records(&mut inner, n - k, show, &mut recs);
            }
        }
        Phase::Conv(k) => {
            let mut it = match catch(make) {
                Ok(it) => it,
                Err(e) => return panic_str(e),
            };
            let k = std::cmp::min(k, n);
            if records(&mut it, k, show, &mut recs) {
                let mut w = match catch(move || to_wi(it)) {
                    Ok(w) => w,
                    Err(e) => {
                        recs.push(panic_str(e));
                        return recs.join(";");
                    }
                };
                records(&mut w, n - k, show_wi, &mut recs);
            }
        }
    }
    recs.join(";")
}

/// ids of leaf `j` are `j * LEAF_STRIDE + offset`
const LEAF_STRIDE: usize = 100_000;

/// where the cell of a reference lives: the leaf whose storage contains the address and the
/// offset from that leaf's first element, as the id `leaf * LEAF_STRIDE + offset`
#[derive(Clone, Copy)]
struct Base {
    n: usize,
    leaves: [(*const u64, usize); 4],
}

impl Base {
    /// a single leaf of unknown extent (every address at or after its base counts as inside)
    fn single(p: *const u64) -> Base {
        Base { n: 1, leaves: [(p, usize::MAX / 16), (p, 0), (p, 0), (p, 0)] }
    }
    fn of(leaves: &[(*const u64, usize)]) -> Base {
        assert!(!leaves.is_empty() && leaves.len() <= 4);
        let mut a = [leaves[0]; 4];
        for (j, l) in leaves.iter().enumerate() {
            a[j] = *l;
        }
        Base { n: leaves.len(), leaves: a }
    }
    fn id_of(&self, p: *const u64) -> Option<usize> {
        let p = p as usize;
        for j in 0..self.n {
            let (b, len) = self.leaves[j];
            let b = b as usize;
            if p >= b && (p - b) % 8 == 0 && (p - b) / 8 < len {
                return Some(j * LEAF_STRIDE + (p - b) / 8);
            }
        }
        None
    }
    fn cell(&self, r: &u64) -> String {
        match self.id_of(r as *const u64) {
            None => format!("!addr{:x}", r as *const u64 as usize),
            Some(id) => {
                if *r != val_of(id) {
                    // the value stored there until something is written: a stale or foreign cell
                    format!("{}!val{}", id, *r)
                } else {
                    id.to_string()
                }
            }
        }
    }
}

fn run_copy<I: ExactSizeIterator<Item = u64>>(make: impl FnOnce() -> I, n: usize) -> String {
    drive(make, n, |v| v.to_string())
}

fn run_copy_wi<X: ShowIdx, I: ExactSizeIterator<Item = (X, u64)>>(
    make: impl FnOnce() -> I,
    n: usize,
) -> String {
    drive(make, n, |(i, v)| format!("{}@{}", v, i.show_idx()))
}

fn run_ref<'a, I: ExactSizeIterator<Item = &'a u64>>(
    make: impl FnOnce() -> I,
    n: usize,
    base: Base,
) -> String {
    drive(make, n, |r| base.cell(r))
}

fn run_ref_wi<'a, X: ShowIdx, I: ExactSizeIterator<Item = (X, &'a u64)>>(
    make: impl FnOnce() -> I,
    n: usize,
    base: Base,
) -> String {
    drive(make, n, |(i, r)| format!("{}@{}", base.cell(r), i.show_idx()))
}

/// The mutable flavours keep every handed-out `&mut` alive until the end, then write through
/// all of them; returns the records and the cells written.
fn run_mut<'a, I: ExactSizeIterator<Item = &'a mut u64>>(
    make: impl FnOnce() -> I,
    n: usize,
    base: Base,
) -> (String, Vec<usize>) {
    let mut refs: Vec<&'a mut u64> = vec![];
    let s = drive(make, n, |r| {
        let c = base.cell(r);
        refs.push(r);
        c
    });
    (s, write_all(refs, base))
}

fn run_mut_wi<'a, X: ShowIdx, I: ExactSizeIterator<Item = (X, &'a mut u64)>>(
    make: impl FnOnce() -> I,
    n: usize,
    base: Base,
) -> (String, Vec<usize>) {
    let mut refs: Vec<&'a mut u64> = vec![];
    let s = drive(make, n, |(i, r)| {
        let c = format!("{}@{}", base.cell(r), i.show_idx());
        refs.push(r);
        c
    });
    (s, write_all(refs, base))
}

const BUMP: u64 = 1000;

fn write_all(refs: Vec<&mut u64>, base: Base) -> Vec<usize> {
    let cells: Vec<usize> =
        refs.iter().map(|r| base.id_of(&**r as *const u64).unwrap_or(usize::MAX)).collect();
    for r in refs {
        if mode() == 0 {
            *r += BUMP;
        } else {
            // every handed-out element receives the same value
            *r = EQUAL_WRITE;
        }
    }
    cells
}

/// every written cell was bumped exactly once, nothing else changed, no cell handed out twice
fn distinct_report(cells: &[usize], leaf_now: &[u64]) -> &'static str {
    let now: Vec<(usize, u64)> = leaf_now.iter().copied().enumerate().collect();
    distinct_report_ids(cells, &now)
}

/// the same for several leaves: `now` lists (id, current value) of every cell of every leaf
fn distinct_report_ids(cells: &[usize], now: &[(usize, u64)]) -> &'static str {
    let mut seen: std::collections::BTreeMap<usize, u32> = now.iter().map(|(id, _)| (*id, 0)).collect();
    for c in cells {
        match seen.get_mut(c) {
            None => return " distinct=OUTSIDE",
            Some(k) => *k += 1,
        }
    }
    for (id, v) in now {
        let k = seen[id];
        let expected = if mode() == 0 {
            val_of(*id) + BUMP * k as u64
        } else if k == 0 {
            val_of(*id)
        } else {
            EQUAL_WRITE
        };
        if k > 1 || *v != expected {
            return " distinct=ALIAS";
        }
    }
    " distinct=ok"
}

fn run_owned<E: OwnElem, I: ExactSizeIterator<Item = E>>(make: impl FnOnce() -> I, n: usize) -> (String, Vec<E>) {
    let mut moved = vec![];
    let s = drive(make, n, |v| {
        let s = v.show_e();
        moved.push(v);
        s
    });
    (s, moved)
}

fn run_owned_wi<E: OwnElem, X: ShowIdx, I: ExactSizeIterator<Item = (X, E)>>(
    make: impl FnOnce() -> I,
    n: usize,
) -> (String, Vec<E>) {
    let mut moved = vec![];
    let s = drive(make, n, |(i, v)| {
        let s = format!("{}@{}", v.show_e(), i.show_idx());
        moved.push(v);
        s
    });
    (s, moved)
}

fn run_copy_split<X: ShowIdx, I: ExactSizeIterator<Item = u64>>(
    make: impl FnOnce() -> I,
    to_wi: impl FnOnce(I) -> WithIndex<I>,
    k: Phase,
    n: usize,
) -> String
where
    WithIndex<I>: ExactSizeIterator<Item = (X, u64)>,
{
    drive_split(make, to_wi, k, n, |(i, v)| format!("{}@{}", v, i.show_idx()), |v| v.to_string())
}

fn run_ref_split<'a, X: ShowIdx, I: ExactSizeIterator<Item = &'a u64>>(
    make: impl FnOnce() -> I,
    to_wi: impl FnOnce(I) -> WithIndex<I>,
    k: Phase,
    n: usize,
    base: Base,
) -> String
where
    WithIndex<I>: ExactSizeIterator<Item = (X, &'a u64)>,
{
    drive_split(make, to_wi, k, n, |(i, r)| format!("{}@{}", base.cell(r), i.show_idx()), |r| base.cell(r))
}

fn run_mut_split<'a, X: ShowIdx, I: ExactSizeIterator<Item = &'a mut u64>>(
    make: impl FnOnce() -> I,
    to_wi: impl FnOnce(I) -> WithIndex<I>,
    k: Phase,
    n: usize,
    base: Base,
) -> (String, Vec<usize>)
where
    WithIndex<I>: ExactSizeIterator<Item = (X, &'a mut u64)>,
{
    let refs: RefCell<Vec<&'a mut u64>> = RefCell::new(vec![]);
    let s = drive_split(
        make,
        to_wi,
        k,
        n,
        |(i, r)| {
            let c = format!("{}@{}", base.cell(r), i.show_idx());
            refs.borrow_mut().push(r);
            c
        },
        |r| {
            let c = base.cell(r);
            refs.borrow_mut().push(r);
            c
        },
    );
    (s, write_all(refs.into_inner(), base))
}

fn run_owned_split<E: OwnElem, X: ShowIdx, I: ExactSizeIterator<Item = E>>(
    make: impl FnOnce() -> I,
    to_wi: impl FnOnce(I) -> WithIndex<I>,
    k: Phase,
    n: usize,
) -> (String, Vec<E>)
where
    WithIndex<I>: ExactSizeIterator<Item = (X, E)>,
{
    let moved: RefCell<Vec<E>> = RefCell::new(vec![]);
    let s = drive_split(
        make,
        to_wi,
        k,
        n,
        |(i, v)| {
            let s = format!("{}@{}", v.show_e(), i.show_idx());
            moved.borrow_mut().push(v);
            s
        },
        |v| {
            let s = v.show_e();
            moved.borrow_mut().push(v);
            s
        },
    );
    (s, moved.into_inner())
}

/// After the moved-out values, the iterator and the leaf have all been dropped: every original
/// value was dropped exactly once and every placeholder that was made was dropped.
fn drops_report(total: usize, numeric: bool) -> String {
    drops_report_ids(0..total, numeric)
}

fn drops_report_ids(ids: impl Iterator<Item = usize>, numeric: bool) -> String {
    if !producer_ok(numeric) {
        return " drops=BAD(wrong-producer)".into();
    }
    for id in ids {
        if drops_of(id) != 1 {
            return format!(" drops=BAD(id{}x{})", id, drops_of(id));
        }
    }
    let (made, dropped) = placeholders();
    if made != dropped {
        return format!(" drops=BAD(placeholders{}/{})", made, dropped);
    }
    " drops=ok".into()
}

fn show_left(vals: impl Iterator<Item = String>) -> String {
    let v: Vec<String> = vals.collect();
    format!("left={}", if v.is_empty() { "-".to_string() } else { v.join(",") })
}

/// the two ways of making a with-index iterator: the `with_index()` method or the `From` impl
/// the two producers of placeholders: `from` (`Default`) and `from_numeric` (`ZeroOne::zero`)
macro_rules! own {
    ($numeric:expr, $($ty:ident)::+, $src:expr) => {
        if $numeric { $($ty)::+::from_numeric($src) } else { $($ty)::+::from($src) }
    };
}

macro_rules! wi {
    ($into:expr, $e:expr) => {
        match $into {
            0 => $e.with_index(),
            1 => WithIndex::from($e),
            _ => Into::<WithIndex<_>>::into($e),
        }
    };
}

// ---------------------------------------------------------------------------------------------
// case descriptions
// ---------------------------------------------------------------------------------------------

#[derive(Clone, Debug)]
enum TAd {
    Range(Vec<(&'static str, usize, usize)>),
    Mask(Vec<(&'static str, usize, usize)>),
    Rename(Vec<&'static str>),
    Reverse(Vec<&'static str>),
    Access(Vec<&'static str>),
    Transpose(Vec<&'static str>),
}

#[derive(Clone, Debug)]
enum MAd {
    Range(usize, usize, usize, usize),
    Reverse(bool, bool),
}

fn show_tad(a: &TAd) -> String {
    match a {
        TAd::Range(rs) => format!(
            "range:{}",
            rs.iter().map(|(n, s, l)| format!("{}.{}.{}", n, s, l)).collect::<Vec<_>>().join(",")
        ),
        TAd::Mask(rs) => format!(
            "mask:{}",
            rs.iter().map(|(n, s, l)| format!("{}.{}.{}", n, s, l)).collect::<Vec<_>>().join(",")
        ),
        TAd::Rename(ns) => format!("rename:{}", show_names(ns)),
        TAd::Reverse(ns) => format!("reverse:{}", show_names(ns)),
        TAd::Access(ns) => format!("access:{}", show_names(ns)),
        TAd::Transpose(ns) => format!("transpose:{}", show_names(ns)),
    }
}

fn show_mad(a: &MAd) -> String {
    match a {
        MAd::Range(rs, rl, cs, cl) => format!("range:{}.{}.{}.{}", rs, rl, cs, cl),
        MAd::Reverse(r, c) => format!(
            "reverse:{}",
            match (r, c) {
                (true, true) => "rc",
                (true, false) => "r",
                (false, true) => "c",
                (false, false) => "-",
            }
        ),
    }
}

fn parse_tad(tok: &str) -> TAd {
    let (kind, spec) = tok.split_once(':').expect("adaptor");
    match kind {
        "range" => TAd::Range(
            split_comma(spec)
                .iter()
                .map(|p| {
                    let parts: Vec<&str> = p.split('.').collect();
                    (intern(parts[0]), parts[1].parse().unwrap(), parts[2].parse().unwrap())
                })
                .collect(),
        ),
        "mask" => TAd::Mask(
            split_comma(spec)
                .iter()
                .map(|p| {
                    let parts: Vec<&str> = p.split('.').collect();
                    (intern(parts[0]), parts[1].parse().unwrap(), parts[2].parse().unwrap())
                })
                .collect(),
        ),
        "rename" => TAd::Rename(parse_names(spec)),
        "reverse" => TAd::Reverse(parse_names(spec)),
        "access" => TAd::Access(parse_names(spec)),
        "transpose" => TAd::Transpose(parse_names(spec)),
        other => panic!("unknown adaptor {}", other),
    }
}

fn parse_mad(tok: &str) -> MAd {
    let (kind, spec) = tok.split_once(':').expect("adaptor");
    match kind {
        "range" => {
            let p: Vec<usize> = spec.split('.').map(|x| x.parse().unwrap()).collect();
            MAd::Range(p[0], p[1], p[2], p[3])
        }
        "reverse" => MAd::Reverse(spec.contains('r'), spec.contains('c')),
        other => panic!("unknown adaptor {}", other),
    }
}

type BoxT<E, const D: usize> = Box<dyn TensorMut<E, D>>;
type BoxM<E> = Box<dyn MatrixMut<E>>;

/// Compose the adaptors at run time over a boxed source.  `Err` = a constructor refused.
fn build_tensor<E: 'static, const D: usize>(
    leaf: &'static mut Tensor<E, D>,
    ads: &[TAd],
) -> Result<BoxT<E, D>, String> {
    build_tensor_with(leaf, ads, true)
}

/// `panicking`: use the panicking constructors (`TensorAccess::from`, `TensorTranspose::from`)
/// instead of the fallible ones (`try_from`); both must accept and reject the same requests.
fn build_tensor_with<E: 'static, const D: usize>(
    leaf: &'static mut Tensor<E, D>,
    ads: &[TAd],
    panicking: bool,
) -> Result<BoxT<E, D>, String> {
    apply_adaptors(Box::new(leaf), ads, panicking)
}

/// the adaptors, in order, over an already boxed source
fn apply_adaptors<E: 'static, const D: usize>(
    src: BoxT<E, D>,
    ads: &[TAd],
    panicking: bool,
) -> Result<BoxT<E, D>, String> {
    let mut src = src;
    for ad in ads {
        src = match ad {
            TAd::Range(rs) => {
                let shape = src.view_shape();
                let mut all: [Option<TIndexRange>; D] = std::array::from_fn(|_| None);
                for (name, start, len) in rs {
                    match shape.iter().position(|d| d.0 == *name) {
                        Some(d) => all[d] = Some(TIndexRange::new(*start, *len)),
                        None => return Err("reject".into()),
                    }
                }
                match catch(move || TensorRange::from_all(src, all)) {
                    Ok(Ok(r)) => Box::new(r),
                    Ok(Err(_)) => return Err("reject".into()),
                    Err(k) => return Err(panic_str(k)),
                }
            }
            TAd::Mask(ms) => {
                let shape = src.view_shape();
                let mut all: [Option<TIndexRange>; D] = std::array::from_fn(|_| None);
                for (name, start, len) in ms {
                    match shape.iter().position(|d| d.0 == *name) {
                        Some(d) => all[d] = Some(TIndexRange::new(*start, *len)),
                        None => return Err("reject".into()),
                    }
                }
                match catch(move || TensorMask::from_all(src, all)) {
                    Ok(Ok(r)) => Box::new(r),
                    Ok(Err(_)) => return Err("reject".into()),
                    Err(k) => return Err(panic_str(k)),
                }
            }
            TAd::Rename(names) => {
                if names.len() != D {
                    return Err("reject".into());
                }
                let names: [&'static str; D] = names_array(names);
                match catch(move || TensorRename::from(src, names)) {
                    Ok(r) => Box::new(r),
                    Err(PanicKind::Explicit) => return Err("reject".into()),
                    Err(k) => return Err(panic_str(k)),
                }
            }
            TAd::Reverse(names) => {
                let names = names.clone();
                match catch(move || TensorReverse::from(src, &names)) {
                    Ok(r) => Box::new(r),
                    Err(PanicKind::Explicit) => return Err("reject".into()),
                    Err(k) => return Err(panic_str(k)),
                }
            }
            TAd::Access(names) => {
                if names.len() != D {
                    return Err("reject".into());
                }
                let names: [&'static str; D] = names_array(names);
                if panicking {
                    match catch(move || TensorAccess::from(src, names)) {
                        Ok(r) => Box::new(r),
                        Err(PanicKind::Explicit) => return Err("reject".into()),
                        Err(k) => return Err(panic_str(k)),
                    }
                } else {
                    match catch(move || TensorAccess::try_from(src, names)) {
                        Ok(Ok(r)) => Box::new(r),
                        Ok(Err(_)) => return Err("reject".into()),
                        Err(k) => return Err(panic_str(k)),
                    }
                }
            }
            TAd::Transpose(names) => {
                if names.len() != D {
                    return Err("reject".into());
                }
                let names: [&'static str; D] = names_array(names);
                if panicking {
                    match catch(move || TensorTranspose::from(src, names)) {
                        Ok(r) => Box::new(r),
                        Err(PanicKind::Explicit) => return Err("reject".into()),
                        Err(k) => return Err(panic_str(k)),
                    }
                } else {
                    match catch(move || TensorTranspose::try_from(src, names)) {
                        Ok(Ok(r)) => Box::new(r),
                        Ok(Err(_)) => return Err("reject".into()),
                        Err(k) => return Err(panic_str(k)),
                    }
                }
            }
        };
    }
    Ok(src)
}

fn build_matrix<E: 'static>(leaf: &'static mut Matrix<E>, ads: &[MAd]) -> BoxM<E> {
    let mut src: BoxM<E> = Box::new(leaf);
    for ad in ads {
        src = match ad {
            MAd::Range(rs, rl, cs, cl) => Box::new(MatrixRange::from(
                src,
                MIndexRange::new(*rs, *rl),
                MIndexRange::new(*cs, *cl),
            )),
            MAd::Reverse(r, c) => Box::new(MatrixReverse::from(src, Reverse { rows: *r, columns: *c })),
        };
    }
    src
}


// ---------------------------------------------------------------------------------------------
// producers: what happened to the container before it is iterated
// ---------------------------------------------------------------------------------------------

#[derive(Clone, Debug)]
enum TPrep {
    /// the data `Vec` is built with this much spare capacity (must come first)
    Cap(usize),
    ReshapeMut(Vec<(&'static str, usize)>),
    TransposeMut(Vec<&'static str>),
    ReorderMut(Vec<&'static str>),
}

#[derive(Clone, Debug)]
enum MPrep {
    Cap(usize),
    RemoveRow(usize),
    RemoveColumn(usize),
    /// `insert_row_with` / `insert_column_with`, the new cells get the ids 50000, 50001, …
    InsertRow(usize),
    InsertColumn(usize),
    TransposeMut,
}

const INSERTED_ID: u64 = 50_000;

fn tprep_needs_clone(p: &TPrep) -> bool {
    matches!(p, TPrep::TransposeMut(_) | TPrep::ReorderMut(_))
}

fn mprep_needs_clone(p: &MPrep) -> bool {
    matches!(p, MPrep::InsertRow(_) | MPrep::InsertColumn(_) | MPrep::TransposeMut)
}

fn parse_tprep(tok: &str) -> TPrep {
    let parts: Vec<&str> = tok.splitn(2, ':').collect();
    match parts[0] {
        "cap" => TPrep::Cap(parts[1].parse().unwrap()),
        "reshape_mut" => TPrep::ReshapeMut(parse_shape(&parts[1].replace('/', ":"))),
        "transpose_mut" => TPrep::TransposeMut(parse_names(parts[1])),
        "reorder_mut" => TPrep::ReorderMut(parse_names(parts[1])),
        other => panic!("unknown tensor prep {}", other),
    }
}

fn parse_mprep(tok: &str) -> MPrep {
    let parts: Vec<&str> = tok.splitn(2, ':').collect();
    let arg = || parts[1].parse::<usize>().unwrap();
    match parts[0] {
        "cap" => MPrep::Cap(arg()),
        "remove_row" => MPrep::RemoveRow(arg()),
        "remove_column" => MPrep::RemoveColumn(arg()),
        "insert_row" => MPrep::InsertRow(arg()),
        "insert_column" => MPrep::InsertColumn(arg()),
        "transpose_mut" => MPrep::TransposeMut,
        other => panic!("unknown matrix prep {}", other),
    }
}

/// `len` elements made from the ids 0.., in a `Vec` with `cap` spare capacity
fn data_with_capacity<E: OwnElem>(len: usize, cap: usize) -> Vec<E> {
    let mut data: Vec<E> = Vec::with_capacity(len + cap);
    data.extend((0..len as u64).map(E::make));
    data
}

/// the preps that work for every element type
fn prep_tensor_any<E, const D: usize>(t: &mut Tensor<E, D>, p: &TPrep) -> bool {
    match p {
        TPrep::Cap(_) => true,
        TPrep::ReshapeMut(shape) => {
            if shape.len() != D {
                return false;
            }
            let shape: [(&'static str, usize); D] = shape_array(shape);
            t.reshape_mut(shape);
            true
        }
        _ => false,
    }
}

fn prep_tensor_clone<E: Clone, const D: usize>(t: &mut Tensor<E, D>, p: &TPrep) -> bool {
    match p {
        TPrep::TransposeMut(names) if names.len() == D => {
            t.transpose_mut(names_array(names));
            true
        }
        TPrep::ReorderMut(names) if names.len() == D => {
            t.reorder_mut(names_array(names));
            true
        }
        other => prep_tensor_any(t, other),
    }
}

fn prep_matrix_any<E>(m: &mut Matrix<E>, p: &MPrep) -> bool {
    match p {
        MPrep::Cap(_) => true,
        MPrep::RemoveRow(r) => {
            m.remove_row(*r);
            true
        }
        MPrep::RemoveColumn(c) => {
            m.remove_column(*c);
            true
        }
        _ => false,
    }
}

fn prep_matrix_u64(m: &mut Matrix<u64>, p: &MPrep) -> bool {
    prep_matrix_clone(m, p)
}

fn prep_matrix_clone<E: OwnElem + Clone>(m: &mut Matrix<E>, p: &MPrep) -> bool {
    match p {
        MPrep::InsertRow(r) => {
            let n = m.columns() as u64;
            m.insert_row_with(*r, (0..n).map(|i| E::make(INSERTED_ID + i)));
            true
        }
        MPrep::InsertColumn(c) => {
            let n = m.rows() as u64;
            m.insert_column_with(*c, (0..n).map(|i| E::make(INSERTED_ID + i)));
            true
        }
        MPrep::TransposeMut => {
            m.transpose_mut();
            true
        }
        other => prep_matrix_any(m, other),
    }
}

/// the leaf tensor after its preps (`Err`: a prep panicked or does not fit the element type)
fn make_tensor<E: OwnElem, const D: usize>(
    shape: &[(&'static str, usize)],
    preps: &[TPrep],
    apply: fn(&mut Tensor<E, D>, &TPrep) -> bool,
) -> Result<Tensor<E, D>, String> {
    let shape: [(&'static str, usize); D] = shape_array(shape);
    let total: usize = shape.iter().map(|d| d.1).product();
    let cap = match preps.first() {
        Some(TPrep::Cap(k)) => *k,
        _ => 0,
    };
    let mut t = match catch(move || Tensor::from(shape, data_with_capacity::<E>(total, cap))) {
        Ok(t) => t,
        Err(k) => return Err(panic_str(k)),
    };
    for p in preps {
        match catch(|| apply(&mut t, p)) {
            Ok(true) => {}
            Ok(false) => return Err("bad-op".into()),
            Err(PanicKind::Explicit) => return Err("reject".into()),
            Err(k) => return Err(panic_str(k)),
        }
    }
    Ok(t)
}

fn make_matrix<E: OwnElem>(
    rows: usize,
    cols: usize,
    preps: &[MPrep],
    apply: fn(&mut Matrix<E>, &MPrep) -> bool,
) -> Result<Matrix<E>, String> {
    let cap = match preps.first() {
        Some(MPrep::Cap(k)) => *k,
        _ => 0,
    };
    let mut m = Matrix::from_flat_row_major((rows, cols), data_with_capacity::<E>(rows * cols, cap));
    for p in preps {
        match catch(|| apply(&mut m, p)) {
            Ok(true) => {}
            Ok(false) => return Err("bad-op".into()),
            Err(PanicKind::Explicit) => return Err("reject".into()),
            Err(k) => return Err(panic_str(k)),
        }
    }
    Ok(m)
}

thread_local! {
    /// after preps the cells no longer hold their own id: the values found in storage order
    static SNAPSHOT: RefCell<Option<Vec<u64>>> = RefCell::new(None);
}

fn snapshot_clear() {
    SNAPSHOT.with(|s| *s.borrow_mut() = None);
}

/// Safety: `base` points at `len` initialised `u64`s and nobody holds a `&mut` to them
unsafe fn snapshot_from(base: *const u64, len: usize) {
    let v: Vec<u64> = (0..len).map(|o| *base.add(o)).collect();
    SNAPSHOT.with(|s| *s.borrow_mut() = Some(v));
}

// ---------------------------------------------------------------------------------------------
// running the tensor iterators
// ---------------------------------------------------------------------------------------------

struct Op<'a> {
    op: &'a str,
    kind: &'a str,
    a: usize,
    f: &'a str,
    wi: bool,
    n: usize,
    via: &'a str,
    /// how with-index iterators are made: 0 `with_index()`, 1 `WithIndex::from(it)`, 2 `it.into()`
    into: u8,
    /// after this many with-index calls take the wrapped iterator back with `source()`
    split: Option<usize>,
    /// after this many plain calls convert the iterator into its with-index form
    conv: Option<usize>,
    /// `consume` operations: the std consumer applied after `after` plain calls
    m: &'a str,
    after: usize,
}

fn parse_op<'a>(op: &'a str, rest: &[&'a str]) -> Op<'a> {
    Op {
        op,
        kind: opt_arg("k", rest).unwrap_or("rowmajor"),
        a: opt_arg("a", rest).map(|x| x.parse().unwrap()).unwrap_or(0),
        f: opt_arg("f", rest).unwrap_or(if op == "left" { "owned" } else { "copy" }),
        wi: opt_arg("wi", rest) == Some("1"),
        n: opt_arg("n", rest).map(|x| x.parse().unwrap()).unwrap_or(0),
        via: opt_arg("via", rest).unwrap_or("boxed"),
        into: match opt_arg("wvia", rest) {
            Some("into") => 1,
            Some("dotinto") => 2,
            _ => 0,
        },
        split: opt_arg("split", rest).map(|x| x.parse().unwrap()),
        conv: opt_arg("conv", rest).map(|x| x.parse().unwrap()),
        m: opt_arg("m", rest).unwrap_or("count"),
        after: opt_arg("after", rest).map(|x| x.parse().unwrap()).unwrap_or(0),
    }
}

fn access_names<const D: usize>(ads: &[TAd]) -> Option<[&'static str; D]> {
    match ads {
        [TAd::Access(names)] if names.len() == D => Some(names_array(names)),
        _ => None,
    }
}


// ---------------------------------------------------------------------------------------------
// std's consumers on top of `next` (count / last / nth / fold / for_each with a panicking closure)
// ---------------------------------------------------------------------------------------------

/// `after` plain calls, then the consumer `m`:
///   count        → `count=<n>`
///   last         → `last=<item>`
///   fold         → `fold=<item>,<item>,…`  (the whole remaining sequence, through `Iterator::fold`)
///   nth.<j>      → `nth=<item> | <records of n further calls on the survivor>`
///   panic.<p>    → `seen=<items> panicked|finished | <records of n further calls on the survivor>`
///                  (`by_ref().for_each` with a closure that panics at its p-th element)
fn consume<I: ExactSizeIterator>(
    make: impl FnOnce() -> I,
    op: &Op,
    mut show: impl FnMut(I::Item) -> String,
) -> String {
    let mut it = match catch(make) {
        Ok(it) => it,
        Err(k) => return panic_str(k),
    };
    for _ in 0..op.after {
        if let Err(k) = catch(|| it.next()) {
            return panic_str(k);
        }
    }
    let parts: Vec<&str> = op.m.split('.').collect();
    let arg: usize = parts.get(1).map(|x| x.parse().unwrap()).unwrap_or(0);
    match parts[0] {
        "count" => match catch(move || it.count()) {
            Ok(c) => format!("count={}", c),
            Err(k) => panic_str(k),
        },
        "last" => match catch(move || it.last()) {
            Ok(x) => format!("last={}", x.map(|x| show(x)).unwrap_or("-".into())),
            Err(k) => panic_str(k),
        },
        "fold" => {
            let r = catch(move || {
                it.fold(Vec::<String>::new(), |mut acc, x| {
                    acc.push(show(x));
                    acc
                })
            });
            match r {
                Ok(v) => format!("fold={}", if v.is_empty() { "-".to_string() } else { v.join(",") }),
                Err(k) => panic_str(k),
            }
        }
        "nth" => {
            let x = match catch(|| it.nth(arg)) {
                Ok(x) => x,
                Err(k) => return panic_str(k),
            };
            let head = format!("nth={}", x.map(|x| show(x)).unwrap_or("-".into()));
            let mut recs = vec![];
            records(&mut it, op.n, &mut show, &mut recs);
            format!("{} | {}", head, recs.join(";"))
        }
        "panic" => {
            let mut seen: Vec<String> = vec![];
            let r = catch(|| {
                let mut i = 0usize;
                it.by_ref().for_each(|x| {
                    seen.push(show(x));
                    if i == arg {
                        panic!("closure panics at element {}", i);
                    }
                    i += 1;
                })
            });
            let how = match r {
                Ok(()) => "finished",
                Err(PanicKind::Explicit) => "panicked",
                Err(k) => return panic_str(k),
            };
            let mut recs = vec![];
            records(&mut it, op.n, &mut show, &mut recs);
            format!(
                "seen={} {} | {}",
                if seen.is_empty() { "-".to_string() } else { seen.join(",") },
                how,
                recs.join(";")
            )
        }
        other => panic!("unknown consumer {}", other),
    }
}

/// the values a fresh iterator yields (collected under `catch`: the code under test may panic)
fn fresh_values(f: impl FnOnce() -> Vec<String>) -> String {
    match catch(f) {
        Ok(v) => join_or_dash(v),
        Err(k) => panic_str(k),
    }
}

fn join_or_dash(v: Vec<String>) -> String {
    if v.is_empty() { "-".to_string() } else { v.join(",") }
}

fn consume_boxed_u64<const D: usize>(src: BoxT<u64, D>, op: &Op, base: Base) -> String {
    let mut src = src;
    let into = op.into;
    let s = match (op.f, op.wi) {
        ("copy", false) => consume(|| TensorIterator::from(&src), op, |v: u64| v.to_string()),
        ("copy", true) => consume(
            || wi!(into, TensorIterator::from(&src)),
            op,
            |(i, v): ([usize; D], u64)| format!("{}@{}", v, i.show_idx()),
        ),
        ("ref", false) => consume(|| TensorReferenceIterator::from(&src), op, |r: &u64| base.cell(r)),
        ("ref", true) => consume(
            || wi!(into, TensorReferenceIterator::from(&src)),
            op,
            |(i, r): ([usize; D], &u64)| format!("{}@{}", base.cell(r), i.show_idx()),
        ),
        ("mut", false) => {
            consume(|| TensorReferenceMutIterator::from(&mut src), op, |r: &mut u64| base.cell(r))
        }
        ("mut", true) => consume(
            || wi!(into, TensorReferenceMutIterator::from(&mut src)),
            op,
            |(i, r): ([usize; D], &mut u64)| format!("{}@{}", base.cell(r), i.show_idx()),
        ),
        _ => return "bad-op".into(),
    };
    if op.m.starts_with("panic") {
        // a fresh iterator over the same source object afterwards
        let fresh = fresh_values(|| TensorIterator::from(&src).map(|v| v.to_string()).collect());
        format!("{} | fresh={}", s, fresh)
    } else {
        s
    }
}

fn consume_boxed_owned<E: OwnElem, const D: usize>(src: BoxT<E, D>, op: &Op) -> String {
    let mut src = src;
    let into = op.into;
    let numeric = op.via.ends_with("_numeric");
    // the source is held by `&mut`, so it can be looked at again afterwards
    let s = if op.wi {
        consume(
            || wi!(into, own!(numeric, TensorOwnedIterator, &mut src)),
            op,
            |(i, v): ([usize; D], E)| format!("{}@{}", v.show_e(), i.show_idx()),
        )
    } else {
        consume(|| own!(numeric, TensorOwnedIterator, &mut src), op, |v: E| v.show_e())
    };
    if op.m.starts_with("panic") {
        let fresh = fresh_values(|| TensorReferenceIterator::from(&src).map(|d| d.show_e()).collect());
        format!("{} | fresh={}", s, fresh)
    } else {
        s
    }
}

fn consume_matrix_u64(src: BoxM<u64>, op: &Op, base: Base) -> String {
    let mut src = src;
    let into = op.into;
    macro_rules! both_orders {
        ($rm:expr, $cm:expr, $show:expr) => {
            match op.kind {
                "rowmajor" => consume(|| $rm, op, $show),
                "colmajor" => consume(|| $cm, op, $show),
                _ => return "bad-op".into(),
            }
        };
    }
    let s = match (op.f, op.wi) {
        ("copy", false) => both_orders!(
            mi::RowMajorIterator::from(&src),
            mi::ColumnMajorIterator::from(&src),
            |v: u64| v.to_string()
        ),
        ("copy", true) => both_orders!(
            wi!(into, mi::RowMajorIterator::from(&src)),
            wi!(into, mi::ColumnMajorIterator::from(&src)),
            |(i, v): ((usize, usize), u64)| format!("{}@{}", v, i.show_idx())
        ),
        ("ref", false) => both_orders!(
            mi::RowMajorReferenceIterator::from(&src),
            mi::ColumnMajorReferenceIterator::from(&src),
            |r: &u64| base.cell(r)
        ),
        ("ref", true) => both_orders!(
            wi!(into, mi::RowMajorReferenceIterator::from(&src)),
            wi!(into, mi::ColumnMajorReferenceIterator::from(&src)),
            |(i, r): ((usize, usize), &u64)| format!("{}@{}", base.cell(r), i.show_idx())
        ),
        ("mut", false) => both_orders!(
            mi::RowMajorReferenceMutIterator::from(&mut src),
            mi::ColumnMajorReferenceMutIterator::from(&mut src),
            |r: &mut u64| base.cell(r)
        ),
        ("mut", true) => both_orders!(
            wi!(into, mi::RowMajorReferenceMutIterator::from(&mut src)),
            wi!(into, mi::ColumnMajorReferenceMutIterator::from(&mut src)),
            |(i, r): ((usize, usize), &mut u64)| format!("{}@{}", base.cell(r), i.show_idx())
        ),
        _ => return "bad-op".into(),
    };
    if op.m.starts_with("panic") {
        let fresh = fresh_values(|| match op.kind {
            "rowmajor" => mi::RowMajorIterator::from(&src).map(|v| v.to_string()).collect(),
            _ => mi::ColumnMajorIterator::from(&src).map(|v| v.to_string()).collect(),
        });
        format!("{} | fresh={}", s, fresh)
    } else {
        s
    }
}

fn consume_matrix_owned<E: OwnElem>(src: BoxM<E>, op: &Op) -> String {
    let mut src = src;
    let into = op.into;
    let numeric = op.via.ends_with("_numeric");
    let s = match (op.kind, op.wi) {
        ("rowmajor", false) => consume(|| own!(numeric, mi::RowMajorOwnedIterator, &mut src), op, |v: E| v.show_e()),
        ("rowmajor", true) => consume(
            || wi!(into, own!(numeric, mi::RowMajorOwnedIterator, &mut src)),
            op,
            |(i, v): ((usize, usize), E)| format!("{}@{}", v.show_e(), i.show_idx()),
        ),
        ("colmajor", false) => {
            consume(|| own!(numeric, mi::ColumnMajorOwnedIterator, &mut src), op, |v: E| v.show_e())
        }
        ("colmajor", true) => consume(
            || wi!(into, own!(numeric, mi::ColumnMajorOwnedIterator, &mut src)),
            op,
            |(i, v): ((usize, usize), E)| format!("{}@{}", v.show_e(), i.show_idx()),
        ),
        _ => return "bad-op".into(),
    };
    if op.m.starts_with("panic") {
        let fresh = fresh_values(|| match op.kind {
            "rowmajor" => mi::RowMajorReferenceIterator::from(&src).map(|d| d.show_e()).collect(),
            _ => mi::ColumnMajorReferenceIterator::from(&src).map(|d| d.show_e()).collect(),
        });
        format!("{} | fresh={}", s, fresh)
    } else {
        s
    }
}

/// Every index of the view, in order, through one of the four getters of `TensorRef`/`TensorMut`
/// (`m=checked|checked_mut|unchecked|unchecked_mut`); the checked ones also get an index just
/// outside the shape.
fn probe_boxed<const D: usize>(src: BoxT<u64, D>, op: &Op, base: Base) -> String {
    let mut src = src;
    let shape = src.view_shape();
    let total: usize = shape.iter().map(|d| d.1).product();
    let mut cells: Vec<String> = vec![];
    let mut read = |idx: [usize; D], src: &mut BoxT<u64, D>| -> String {
        let r: Result<Option<String>, PanicKind> = match op.m {
            "checked" => catch(|| TensorRef::get_reference(&*src, idx).map(|r| base.cell(r))),
            "checked_mut" => catch(|| TensorMut::get_reference_mut(&mut *src, idx).map(|r| base.cell(r))),
            "unchecked" => catch(|| Some(base.cell(unsafe { src.get_reference_unchecked(idx) }))),
            _ => catch(|| Some(base.cell(unsafe { src.get_reference_unchecked_mut(idx) }))),
        };
        match r {
            Ok(Some(c)) => c,
            Ok(None) => "-".into(),
            Err(k) => panic_str(k),
        }
    };
    for o in 0..total {
        let mut rest = o;
        let mut idx = [0usize; D];
        for d in (0..D).rev() {
            idx[d] = rest % shape[d].1;
            rest /= shape[d].1;
        }
        cells.push(read(idx, &mut src));
    }
    let mut out = format!("cells={}", join_or_dash(cells));
    if op.m.starts_with("checked") && D > 0 {
        let idx: [usize; D] = std::array::from_fn(|d| shape[d].1);
        out.push_str(&format!(" outside={}", read(idx, &mut src)));
    }
    out
}

/// every reference flavour over a boxed source: the iterator structs' constructors
/// (`via=boxed`) or `TensorView` methods (`via=boxedview`), with `split` / `wvia` variants
fn boxed_u64<const D: usize>(
    src: BoxT<u64, D>,
    op: &Op,
    base: Base,
) -> Result<(String, Option<Vec<usize>>), String> {
    if op.op == "consume" {
        return Ok((consume_boxed_u64(src, op, base), None));
    }
    if op.op == "probe" {
        return Ok((probe_boxed(src, op, base), None));
    }
    let mut src = src;
    let n = op.n;
    let into = op.into;
    let split = phase_of(op);
    let mut written: Option<Vec<usize>> = None;
    let (via, f, wi) = (op.via, op.f, op.wi);
    let recs: String = match (via, f, wi) {
        // with index for `split` calls, then `source()` and on without index
        ("boxed", "copy", true) if op.split.is_some() || op.conv.is_some() => {
            run_copy_split(|| TensorIterator::from(&src), |it| wi!(into, it), split, n)
        }
        ("boxed", "ref", true) if op.split.is_some() || op.conv.is_some() => {
            run_ref_split(|| TensorReferenceIterator::from(&src), |it| wi!(into, it), split, n, base)
        }
        ("boxed", "mut", true) if op.split.is_some() || op.conv.is_some() => {
            let (s, w) = run_mut_split(
                || TensorReferenceMutIterator::from(&mut src), |it| wi!(into, it),
                split,
                n,
                base,
            );
            written = Some(w);
            s
        }
        ("boxed", "copy", false) => run_copy(|| TensorIterator::from(&src), n),
        ("boxed", "copy", true) => run_copy_wi(|| wi!(into, TensorIterator::from(&src)), n),
        ("boxed", "ref", false) => run_ref(|| TensorReferenceIterator::from(&src), n, base),
        ("boxed", "ref", true) => {
            run_ref_wi(|| wi!(into, TensorReferenceIterator::from(&src)), n, base)
        }
        ("boxed", "mut", false) => {
            let (s, w) = run_mut(|| TensorReferenceMutIterator::from(&mut src), n, base);
            written = Some(w);
            s
        }
        ("boxed", "mut", true) => {
            let (s, w) =
                run_mut_wi(|| wi!(into, TensorReferenceMutIterator::from(&mut src)), n, base);
            written = Some(w);
            s
        }
        ("boxedview", f, wi) => {
            let mut v = TensorView::from(src);
            match (f, wi) {
                ("copy", false) => run_copy(|| v.iter(), n),
                ("copy", true) => run_copy_wi(|| wi!(into, v.iter()), n),
                ("ref", false) => run_ref(|| v.iter_reference(), n, base),
                ("ref", true) => run_ref_wi(|| wi!(into, v.iter_reference()), n, base),
                ("mut", false) => {
                    let (s, w) = run_mut(|| v.iter_reference_mut(), n, base);
                    written = Some(w);
                    s
                }
                ("mut", true) => {
                    let (s, w) = run_mut_wi(|| wi!(into, v.iter_reference_mut()), n, base);
                    written = Some(w);
                    s
                }
                _ => "bad-op".into(),
            }
        }
        _ => "bad-op".into(),
    }
;
    Ok((recs, written))
}

fn tensor_u64<const D: usize>(
    shape: &[(&'static str, usize)],
    preps: &[TPrep],
    ads: &[TAd],
    op: &Op,
) -> String {
    snapshot_clear();
    let total: usize = shape.iter().map(|d| d.1).product();
    let leaf = match make_tensor::<u64, D>(shape, preps, prep_tensor_clone) {
        Ok(t) => Leaf::new(t),
        Err(e) => return e,
    };
    let base_ptr = TensorRef::get_reference(leaf.get(), [0; D]).unwrap() as *const u64;
    if !preps.is_empty() {
        // Safety: nothing borrows the leaf yet
        unsafe { snapshot_from(base_ptr, total) };
    }
    let base = Base::single(base_ptr);
    let n = op.n;
    let into = op.into;
    let split = phase_of(op);
    let mut written: Option<Vec<usize>> = None;
    let recs: String = {
        // Safety: `t` and everything built from it die at the end of this block
        let t: &'static mut Tensor<u64, D> = unsafe { leaf.lend() };
        match (op.via, op.f, op.wi) {
            // inherent methods of Tensor
            ("tensor", "copy", false) => run_copy(|| t.iter(), n),
            ("tensor", "copy", true) => run_copy_wi(|| wi!(into, t.iter()), n),
            ("tensor", "ref", false) => run_ref(|| t.iter_reference(), n, base),
            ("tensor", "ref", true) => run_ref_wi(|| wi!(into, t.iter_reference()), n, base),
            ("tensor", "mut", false) => {
                let (s, w) = run_mut(|| t.iter_reference_mut(), n, base);
                written = Some(w);
                s
            }
            ("tensor", "mut", true) => {
                let (s, w) = run_mut_wi(|| wi!(into, t.iter_reference_mut()), n, base);
                written = Some(w);
                s
            }
            // the iterator structs' own constructors on the container
            ("from", "copy", false) => run_copy(|| TensorIterator::from(&*t), n),
            ("from", "copy", true) => run_copy_wi(|| wi!(into, TensorIterator::from(&*t)), n),
            ("from", "ref", false) => run_ref(|| TensorReferenceIterator::from(&*t), n, base),
            ("from", "ref", true) => run_ref_wi(|| wi!(into, TensorReferenceIterator::from(&*t)), n, base),
            ("from", "mut", false) => {
                let (s, w) = run_mut(|| TensorReferenceMutIterator::from(&mut *t), n, base);
                written = Some(w);
                s
            }
            ("from", "mut", true) => {
                let (s, w) = run_mut_wi(|| wi!(into, TensorReferenceMutIterator::from(&mut *t)), n, base);
                written = Some(w);
                s
            }
            // TensorView over a borrowed tensor
            ("view", "copy", false) => { let v = TensorView::from(&*t); run_copy(|| v.iter(), n) }
            ("view", "copy", true) => { let v = TensorView::from(&*t); run_copy_wi(|| wi!(into, v.iter()), n) }
            ("view", "ref", false) => { let v = TensorView::from(&*t); run_ref(|| v.iter_reference(), n, base) }
            ("view", "ref", true) => {
                let v = TensorView::from(&*t);
                run_ref_wi(|| wi!(into, v.iter_reference()), n, base)
            }
            ("view", "mut", false) => {
                let mut v = TensorView::from(&mut *t);
                let (s, w) = run_mut(|| v.iter_reference_mut(), n, base);
                written = Some(w);
                s
            }
            ("view", "mut", true) => {
                let mut v = TensorView::from(&mut *t);
                let (s, w) = run_mut_wi(|| wi!(into, v.iter_reference_mut()), n, base);
                written = Some(w);
                s
            }
            // TensorAccess's own methods (only when the single adaptor is an access)
            ("access", f, wi) => {
                let names: [&'static str; D] = access_names(ads).expect("via=access needs one access adaptor");
                match (f, wi) {
                    ("copy", false) => { let a = t.index_by(names); run_copy(|| a.iter(), n) }
                    ("copy", true) => { let a = t.index_by(names); run_copy_wi(|| wi!(into, a.iter()), n) }
                    ("ref", false) => { let a = t.index_by(names); run_ref(|| a.iter_reference(), n, base) }
                    ("ref", true) => {
                        let a = t.index_by(names);
                        run_ref_wi(|| wi!(into, a.iter_reference()), n, base)
                    }
                    ("mut", false) => {
                        let mut a = t.index_by_mut(names);
                        let (s, w) = run_mut(|| a.iter_reference_mut(), n, base);
                        written = Some(w);
                        s
                    }
                    ("mut", true) => {
                        let mut a = t.index_by_mut(names);
                        let (s, w) = run_mut_wi(|| wi!(into, a.iter_reference_mut()), n, base);
                        written = Some(w);
                        s
                    }
                    _ => "bad-op".into(),
                }
            }
            // any composition, through Box<dyn TensorMut>
            (_, _, _) => {
                let src = match build_tensor(t, ads) {
                    Ok(s) => s,
                    Err(e) => return e,
                };
                match boxed_u64(src, op, base) {
                    Ok((s, w)) => {
                        written = w;
                        s
                    }
                    Err(e) => return e,
                }
            }
        }
    };
    match written {
        Some(cells) => {
            let now: Vec<u64> = tensor_cells(leaf.get(), |v| *v);
            format!("{}{}", recs, distinct_report(&cells, &now))
        }
        None => recs,
    }
}

/// the owned iterator over a boxed source (`via=boxed[_numeric]`, `via=boxedview`)
fn boxed_owned<E: OwnElem, const D: usize>(src: BoxT<E, D>, op: &Op) -> Result<(String, Vec<E>), String> {
    if op.op == "consume" {
        return Ok((consume_boxed_owned(src, op), vec![]));
    }
    let n = op.n;
    let into = op.into;
    let split = phase_of(op);
    let (via, numeric) = match op.via.strip_suffix("_numeric") {
        Some(v) => (v, true),
        None => (op.via, false),
    };
    let wi = op.wi;
    Ok(match (via, wi) {
        ("boxed", true) if op.split.is_some() || op.conv.is_some() => {
            run_owned_split(move || own!(numeric, TensorOwnedIterator, src), |it| wi!(into, it), split, n)
        }
        ("boxed", false) => run_owned(move || own!(numeric, TensorOwnedIterator, src), n),
        ("boxed", true) => run_owned_wi(move || wi!(into, own!(numeric, TensorOwnedIterator, src)), n),
        ("boxedview", false) => run_owned(move || TensorView::from(src).iter_owned(), n),
        ("boxedview", true) => {
            run_owned_wi(move || wi!(into, TensorView::from(src).iter_owned()), n)
        }
        _ => return Err("bad-op".into()),
    }
)
}

fn tensor_owned<E: OwnElem, const D: usize>(
    shape: &[(&'static str, usize)],
    preps: &[TPrep],
    ads: &[TAd],
    op: &Op,
    apply: fn(&mut Tensor<E, D>, &TPrep) -> bool,
) -> String {
    snapshot_clear();
    let total: usize = shape.iter().map(|d| d.1).product();
    drops_reset();
    let report = |numeric: bool| -> String {
        if E::COUNTED { drops_report(total, numeric) } else { " drops=ok".to_string() }
    };
    let leaf_t: Tensor<E, D> = match make_tensor::<E, D>(shape, preps, apply) {
        Ok(t) => t,
        Err(e) => return e,
    };
    let n = op.n;
    let into = op.into;
    let split = phase_of(op);
    let (op_via, numeric) = match op.via.strip_suffix("_numeric") {
        Some(v) => (v, true),
        None => (op.via, false),
    };
    // consuming forms: the container itself is moved into the iterator
    if op_via == "tensor" || op_via == "view" {
        let t = leaf_t;
        let (recs, moved) = match (op_via, op.wi) {
            ("tensor", false) => run_owned(move || t.iter_owned(), n),
            ("tensor", true) => run_owned_wi(move || wi!(into, t.iter_owned()), n),
            ("view", false) => run_owned(move || TensorView::from(t).iter_owned(), n),
            (_, _) => run_owned_wi(move || wi!(into, TensorView::from(t).iter_owned()), n),
        };
        drop(moved);
        return format!("{}{}", recs, report(numeric));
    }
    let leaf = Leaf::new(leaf_t);
    let (recs, moved) = {
        // Safety: `t` and everything built from it die at the end of this block
        let t: &'static mut Tensor<E, D> = unsafe { leaf.lend() };
        match (op_via, op.wi) {
            // source held by `&mut`
            ("from", false) => run_owned(|| own!(numeric, TensorOwnedIterator, &mut *t), n),
            ("from", true) => run_owned_wi(|| wi!(into, own!(numeric, TensorOwnedIterator, &mut *t)), n),
            ("access", wi) => {
                let names: [&'static str; D] = access_names(ads).expect("via=access needs one access adaptor");
                let a = t.index_by_mut(names);
                if wi {
                    run_owned_wi(move || wi!(into, own!(numeric, TensorOwnedIterator, a)), n)
                } else {
                    run_owned(move || own!(numeric, TensorOwnedIterator, a), n)
                }
            }
            (_, _) => {
                let src = match build_tensor(t, ads) {
                    Ok(s) => s,
                    Err(e) => return e,
                };
                match boxed_owned(src, op) {
                    Ok(r) => r,
                    Err(e) => return e,
                }
            }
        }
    };
    if op.op == "left" {
        let s = show_left(tensor_cells(leaf.get(), |d| d.show_e()).into_iter());
        drop(moved);
        return s;
    }
    drop(moved);
    drop(leaf);
    format!("{}{}", recs, report(numeric))
}


// ---------------------------------------------------------------------------------------------
// TensorStack / TensorChain sources (several leaves)
// ---------------------------------------------------------------------------------------------

#[derive(Clone, Debug)]
enum Root {
    /// `n` tensors of `shape`, each under `pre`, stacked along a new dimension `name` at `pos`
    Stack { pos: usize, name: &'static str, form: String, n: usize, shape: Vec<(&'static str, usize)>, pre: Vec<TAd> },
    /// tensors of `shapes`, each under `pre`, chained along `name`
    Chain { name: &'static str, form: String, shapes: Vec<Vec<(&'static str, usize)>>, pre: Vec<TAd> },
}

/// a leaf whose dimensionality has been forgotten
trait LeafDyn<E> {
    /// the cells in storage order (read through the checked accessor)
    fn map_cells(&self, f: &dyn Fn(&E) -> u64) -> Vec<u64>;
}

impl<E, const DS: usize> LeafDyn<E> for Leaf<Tensor<E, DS>> {
    fn map_cells(&self, f: &dyn Fn(&E) -> u64) -> Vec<u64> {
        tensor_cells(self.get(), |e| f(e))
    }
}

/// base address and element count (taken before the leaf is lent out), and the leaf
struct LeafInfo<E> {
    base: *const E,
    len: usize,
    leaf: Box<dyn LeafDyn<E>>,
}

fn any_cast<A: 'static, B: 'static>(a: A) -> B {
    let b: Box<dyn std::any::Any> = Box::new(a);
    match b.downcast::<B>() {
        Ok(b) => *b,
        Err(_) => panic!("dimension dispatch mismatch"),
    }
}

/// leaf `j` holds the ids `j * LEAF_STRIDE + offset`; every source is its leaf under `pre`
fn build_sources<E: 'static, const DS: usize>(
    shapes: &[Vec<(&'static str, usize)>],
    pre: &[TAd],
    make: fn(u64) -> E,
) -> Result<(Vec<BoxT<E, DS>>, Vec<LeafInfo<E>>), String> {
    let mut srcs = vec![];
    let mut leaves = vec![];
    for (j, shape) in shapes.iter().enumerate() {
        if shape.len() != DS {
            return Err("reject".into());
        }
        let shape_a: [(&'static str, usize); DS] = shape_array(shape);
        let total: usize = shape_a.iter().map(|d| d.1).product();
        let data: Vec<E> = (0..total).map(|o| make((j * LEAF_STRIDE + o) as u64)).collect();
        let t = match catch(move || Tensor::from(shape_a, data)) {
            Ok(t) => t,
            Err(_) => return Err("reject".into()),
        };
        let leaf = Leaf::new(t);
        let base = TensorRef::get_reference(leaf.get(), [0; DS]).unwrap() as *const E;
        // Safety: the sources built from the borrow are dropped before the leaves are read again
        let lent: &'static mut Tensor<E, DS> = unsafe { leaf.lend() };
        let src = build_tensor_with(lent, pre, false);
        leaves.push(LeafInfo { base, len: total, leaf: Box::new(leaf) });
        srcs.push(src?);
    }
    Ok((srcs, leaves))
}

/// `$Ty::from(sources, along)` for the array forms `[S; 1..=4]` and the tuple forms of arity 2..=4
macro_rules! combine {
    ($Ty:ident, $srcs:expr, $form:expr, $along:expr) => {{
        let mut srcs = $srcs;
        let n = srcs.len();
        match ($form, n) {
            ("array", 1) => match <[_; 1]>::try_from(srcs) {
                Ok(a) => Box::new($Ty::<_, [_; 1], _>::from(a, $along)),
                Err(_) => unreachable!(),
            },
            ("array", 2) => match <[_; 2]>::try_from(srcs) {
                Ok(a) => Box::new($Ty::<_, [_; 2], _>::from(a, $along)),
                Err(_) => unreachable!(),
            },
            ("array", 3) => match <[_; 3]>::try_from(srcs) {
                Ok(a) => Box::new($Ty::<_, [_; 3], _>::from(a, $along)),
                Err(_) => unreachable!(),
            },
            ("array", 4) => match <[_; 4]>::try_from(srcs) {
                Ok(a) => Box::new($Ty::<_, [_; 4], _>::from(a, $along)),
                Err(_) => unreachable!(),
            },
            ("tuple", 2) => {
                let b = srcs.pop().unwrap();
                let a = srcs.pop().unwrap();
                Box::new($Ty::<_, (_, _), _>::from((a, b), $along))
            }
            ("tuple", 3) => {
                let c = srcs.pop().unwrap();
                let b = srcs.pop().unwrap();
                let a = srcs.pop().unwrap();
                Box::new($Ty::<_, (_, _, _), _>::from((a, b, c), $along))
            }
            ("tuple", 4) => {
                let d = srcs.pop().unwrap();
                let c = srcs.pop().unwrap();
                let b = srcs.pop().unwrap();
                let a = srcs.pop().unwrap();
                Box::new($Ty::<_, (_, _, _, _), _>::from((a, b, c, d), $along))
            }
            (form, n) => panic!("no {} form of {} sources", form, n),
        }
    }};
}

fn combine_chain<E: 'static, const D: usize>(
    srcs: Vec<BoxT<E, D>>,
    form: &str,
    along: &'static str,
) -> Result<BoxT<E, D>, String> {
    match catch(move || -> BoxT<E, D> { combine!(TensorChain, srcs, form, along) }) {
        Ok(b) => Ok(b),
        Err(PanicKind::Explicit) => Err("reject".into()),
        Err(k) => Err(panic_str(k)),
    }
}

macro_rules! stack_fn {
    ($name:ident, $DS:literal, $D:literal) => {
        fn $name<E: 'static>(
            srcs: Vec<BoxT<E, $DS>>,
            form: &str,
            along: (usize, &'static str),
        ) -> Result<BoxT<E, $D>, String> {
            match catch(move || -> BoxT<E, $D> { combine!(TensorStack, srcs, form, along) }) {
                Ok(b) => Ok(b),
                Err(PanicKind::Explicit) => Err("reject".into()),
                Err(k) => Err(panic_str(k)),
            }
        }
    };
}
stack_fn!(stack_0, 0, 1);
stack_fn!(stack_1, 1, 2);
stack_fn!(stack_2, 2, 3);
stack_fn!(stack_3, 3, 4);
stack_fn!(stack_4, 4, 5);
stack_fn!(stack_5, 5, 6);

/// the stacked / chained source under the `post` adaptors, and its leaves
fn build_zip<E: 'static, const D: usize>(
    root: &Root,
    post: &[TAd],
    make: fn(u64) -> E,
    panicking: bool,
) -> Result<(BoxT<E, D>, Vec<LeafInfo<E>>), String> {
    let (src, leaves): (BoxT<E, D>, Vec<LeafInfo<E>>) = match root {
        Root::Chain { name, form, shapes, pre } => {
            let (srcs, leaves) = build_sources::<E, D>(shapes, pre, make)?;
            (combine_chain(srcs, form, name)?, leaves)
        }
        Root::Stack { pos, name, form, n, shape, pre } => {
            let shapes = vec![shape.clone(); *n];
            macro_rules! st {
                ($DS:literal, $DD:literal, $f:ident) => {{
                    let (srcs, leaves) = build_sources::<E, $DS>(&shapes, pre, make)?;
                    let b: BoxT<E, $DD> = $f(srcs, form, (*pos, *name))?;
                    (any_cast::<BoxT<E, $DD>, BoxT<E, D>>(b), leaves)
                }};
            }
            match D {
                1 => st!(0, 1, stack_0),
                2 => st!(1, 2, stack_1),
                3 => st!(2, 3, stack_2),
                4 => st!(3, 4, stack_3),
                5 => st!(4, 5, stack_4),
                6 => st!(5, 6, stack_5),
                _ => return Err("reject".into()),
            }
        }
    };
    match apply_adaptors(src, post, panicking) {
        Ok(src) => Ok((src, leaves)),
        Err(e) => Err(e),
    }
}

fn root_dims(root: &Root) -> usize {
    match root {
        Root::Stack { shape, .. } => shape.len() + 1,
        Root::Chain { shapes, .. } => shapes[0].len(),
    }
}

fn leaf_ids<E>(leaves: &[LeafInfo<E>]) -> Vec<usize> {
    leaves
        .iter()
        .enumerate()
        .flat_map(|(j, l)| (0..l.len).map(move |o| j * LEAF_STRIDE + o))
        .collect()
}

fn zip_u64<const D: usize>(root: &Root, post: &[TAd], op: &Op) -> String {
    let (src, leaves) = match build_zip::<u64, D>(root, post, |id| val_of(id as usize), true) {
        Ok(x) => x,
        Err(e) => return e,
    };
    let base = Base::of(&leaves.iter().map(|l| (l.base, l.len)).collect::<Vec<_>>());
    // `src` (and with it every borrow of the leaves) is consumed here
    let (recs, written) = match boxed_u64(src, op, base) {
        Ok(x) => x,
        Err(e) => return e,
    };
    match written {
        Some(cells) => {
            let ids = leaf_ids(&leaves);
            let values: Vec<u64> = leaves.iter().flat_map(|l| l.leaf.map_cells(&|v| *v)).collect();
            let now: Vec<(usize, u64)> = ids.into_iter().zip(values.into_iter()).collect();
            format!("{}{}", recs, distinct_report_ids(&cells, &now))
        }
        None => recs,
    }
}

fn zip_owned<const D: usize>(root: &Root, post: &[TAd], op: &Op) -> String {
    drops_reset();
    let (src, leaves) = match build_zip::<Dc, D>(root, post, Dc::new, true) {
        Ok(x) => x,
        Err(e) => return e,
    };
    let numeric = op.via.ends_with("_numeric");
    let (recs, moved) = match boxed_owned(src, op) {
        Ok(x) => x,
        Err(e) => return e,
    };
    if op.op == "left" {
        let s = show_left(
            leaves
                .iter()
                .flat_map(|l| l.leaf.map_cells(&|d| if d.show() == "P" { PLACEHOLDER } else { d.val }))
                .map(|v| if v == PLACEHOLDER { "P".to_string() } else { v.to_string() }),
        );
        drop(moved);
        return s;
    }
    drop(moved);
    let ids = leaf_ids(&leaves);
    drop(leaves);
    format!("{}{}", recs, drops_report_ids(ids.into_iter(), numeric))
}

fn zip_header<const D: usize>(root: &Root, post: &[TAd]) -> String {
    match build_zip::<u64, D>(root, post, |id| id, false) {
        Ok((src, _leaves)) => format!("ok shape={}", show_shape(&src.view_shape())),
        Err(e) => e,
    }
}

fn parse_root(toks: &[&str]) -> (Root, Vec<TAd>) {
    // toks: ["stack", "<pos>.<name>", form, n, shape, adaptors…] | ["chain", name, form, shapes, adaptors…]
    let (rest, mk): (&[&str], Box<dyn Fn(Vec<TAd>) -> Root>) = match toks {
        ["stack", along, form, n, shape, rest @ ..] => {
            let (pos, name) = along.split_once('.').expect("pos.name");
            let pos: usize = pos.parse().unwrap();
            let name = intern(name);
            let form = form.to_string();
            let n: usize = n.parse().unwrap();
            let shape = parse_shape(shape);
            (rest, Box::new(move |pre| Root::Stack { pos, name, form: form.clone(), n, shape: shape.clone(), pre }))
        }
        ["chain", name, form, shapes, rest @ ..] => {
            let name = intern(name);
            let form = form.to_string();
            let shapes: Vec<Vec<(&'static str, usize)>> = shapes.split('|').map(parse_shape).collect();
            (rest, Box::new(move |pre| Root::Chain { name, form: form.clone(), shapes: shapes.clone(), pre }))
        }
        _ => panic!("bad zip header"),
    };
    let pre: Vec<TAd> = rest.iter().filter_map(|t| t.strip_prefix("pre:")).map(parse_tad).collect();
    let post: Vec<TAd> = rest.iter().filter(|t| !t.starts_with("pre:")).map(|t| parse_tad(t)).collect();
    (mk(pre), post)
}

fn shape_iter<const D: usize>(lens: &[usize], n: usize, clone_at: Option<usize>) -> String {
    // the names play no role in iteration: take them from the adversarial list
    let off: usize = lens.iter().fold(0usize, |a, l| a.wrapping_add(*l)) % 20;
    let shape: [(&'static str, usize); D] =
        std::array::from_fn(|d| (intern(ADVERSARIAL_NAMES[(off + d) % 20]), lens[d]));
    let recs = match clone_at {
        None => drive(|| ShapeIterator::from(shape), n, |i| i.show_idx()),
        Some(k) => {
            // `Clone`: after k calls the copy and the original both go on from item k
            let mut it = ShapeIterator::from(shape);
            let mut first = vec![];
            let k = std::cmp::min(k, n);
            records(&mut it, k, |i: [usize; D]| i.show_idx(), &mut first);
            let mut copy = it.clone();
            let (mut a, mut b) = (vec![], vec![]);
            records(&mut copy, n - k, |i: [usize; D]| i.show_idx(), &mut a);
            records(&mut it, n - k, |i: [usize; D]| i.show_idx(), &mut b);
            format!("{} | clone:{} | original:{}", first.join(";"), a.join(";"), b.join(";"))
        }
    };
    let mut total: u128 = 1;
    for &l in lens {
        total = total.saturating_mul(l as u128);
    }
    if lens.iter().any(|&l| l == 0) {
        total = 0;
    }
    if total > u64::MAX as u128 {
        format!("unrepresentable-length ## {}", recs)
    } else {
        recs
    }
}


// ---------------------------------------------------------------------------------------------
// AsRecords: the record containers' iterators wrap TensorIterator / RowMajorIterator /
// ColumnMajorIterator, and their `with_index()` converts the wrapped iterator with `.into()`
// ---------------------------------------------------------------------------------------------

fn show_record(r: Record<f64>) -> String {
    (r.number as u64).to_string()
}

/// plain, with index, or (`conv=<k>`) converted after k calls — `via=asrecords`, copy flavour
macro_rules! asrecords_run {
    ($op:expr, $make:expr) => {{
        let n = $op.n;
        match ($op.conv, $op.wi) {
            (Some(k), _) => {
                let mut it = $make;
                let mut recs = vec![];
                let k = std::cmp::min(k, n);
                if records(&mut it, k, show_record, &mut recs) {
                    let into = $op.into;
                    match catch(move || if into == 0 { it.with_index() } else { WithIndex::from(it) }) {
                        Ok(mut w) => {
                            records(&mut w, n - k, |(i, r)| format!("{}@{}", show_record(r), i.show_idx()), &mut recs);
                        }
                        Err(e) => recs.push(panic_str(e)),
                    }
                }
                recs.join(";")
            }
            (None, true) => {
                drive(|| $make.with_index(), n, |(i, r)| format!("{}@{}", show_record(r), i.show_idx()))
            }
            (None, false) => drive(|| $make, n, show_record),
        }
    }};
}

fn tensor_asrecords<const D: usize>(shape: &[(&'static str, usize)], op: &Op) -> String {
    snapshot_clear();
    let shape: [(&'static str, usize); D] = shape_array(shape);
    let total: usize = shape.iter().map(|d| d.1).product();
    let t: Tensor<f64, D> = Tensor::from(shape, (0..total).map(|i| val_of(i) as f64).collect());
    let rt = RecordTensor::constants(t);
    asrecords_run!(op, rt.iter_as_records())
}

fn matrix_asrecords(rows: usize, cols: usize, op: &Op) -> String {
    snapshot_clear();
    let m: Matrix<f64> =
        Matrix::from_flat_row_major((rows, cols), (0..rows * cols).map(|i| val_of(i) as f64).collect());
    let rm = RecordMatrix::constants(m);
    match op.kind {
        "rowmajor" => asrecords_run!(op, rm.iter_row_major_as_records()),
        "colmajor" => asrecords_run!(op, rm.iter_column_major_as_records()),
        _ => "bad-op".into(),
    }
}

// ---------------------------------------------------------------------------------------------
// running the matrix iterators
// ---------------------------------------------------------------------------------------------

/// The five copying / reference / mutable iterator kinds over one source expression.
macro_rules! matrix_kinds {
    ($op:expr, $plain:ident, $wi:ident, [$($extra:expr),*],
     rm: $rm:expr, cm: $cm:expr, row: $row:expr, col: $col:expr, diag: $diag:expr) => {
        match ($op.kind, $op.wi) {
            ("rowmajor", false) => $plain(|| $rm, $op.n $(, $extra)*),
            ("rowmajor", true) => $wi(|| wi!($op.into, $rm), $op.n $(, $extra)*),
            ("colmajor", false) => $plain(|| $cm, $op.n $(, $extra)*),
            ("colmajor", true) => $wi(|| wi!($op.into, $cm), $op.n $(, $extra)*),
            ("row", _) => $plain(|| $row, $op.n $(, $extra)*),
            ("col", _) => $plain(|| $col, $op.n $(, $extra)*),
            ("diag", _) => $plain(|| $diag, $op.n $(, $extra)*),
            _ => return "bad-op".into(),
        }
    };
}

fn matrix_u64(rows: usize, cols: usize, preps: &[MPrep], ads: &[MAd], op: &Op) -> String {
    snapshot_clear();
    let leaf = match make_matrix::<u64>(rows, cols, preps, prep_matrix_u64) {
        Ok(m) => Leaf::new(m),
        Err(e) => return e,
    };
    let base_ptr = leaf.get().get_reference(0, 0) as *const u64;
    if !preps.is_empty() {
        let (r, c) = leaf.get().size();
        // Safety: nothing borrows the leaf yet
        unsafe { snapshot_from(base_ptr, r * c) };
    }
    let base = Base::single(base_ptr);
    let a = op.a;
    let into = op.into;
    let split = phase_of(op);
    let n = op.n;
    let mut written: Option<Vec<usize>> = None;
    let recs: String = {
        // Safety: `m` and everything built from it die at the end of this block
        let m: &'static mut Matrix<u64> = unsafe { leaf.lend() };
        match (op.via, op.f) {
            ("matrix", "copy") => matrix_kinds!(op, run_copy, run_copy_wi, [],
                rm: m.row_major_iter(), cm: m.column_major_iter(), row: m.row_iter(a),
                col: m.column_iter(a), diag: m.diagonal_iter()),
            ("matrix", "ref") => matrix_kinds!(op, run_ref, run_ref_wi, [base],
                rm: m.row_major_reference_iter(), cm: m.column_major_reference_iter(),
                row: m.row_reference_iter(a), col: m.column_reference_iter(a),
                diag: m.diagonal_reference_iter()),
            ("matrix", "mut") => {
                let (s, w) = matrix_kinds!(op, run_mut, run_mut_wi, [base],
                    rm: m.row_major_reference_mut_iter(), cm: m.column_major_reference_mut_iter(),
                    row: m.row_reference_mut_iter(a), col: m.column_reference_mut_iter(a),
                    diag: m.diagonal_reference_mut_iter());
                written = Some(w);
                s
            }
            (_, _) if op.op == "consume" => consume_matrix_u64(build_matrix(m, ads), op, base),
            (via, f) => {
                let mut src = build_matrix(m, ads);
                match (via, f) {
                    ("from", "copy") if op.split.is_some() || op.conv.is_some() => match op.kind {
                        "rowmajor" => run_copy_split(|| mi::RowMajorIterator::from(&src), |it| wi!(into, it), split, n),
                        "colmajor" => run_copy_split(|| mi::ColumnMajorIterator::from(&src), |it| wi!(into, it), split, n),
                        _ => return "bad-op".into(),
                    },
                    ("from", "ref") if op.split.is_some() || op.conv.is_some() => match op.kind {
                        "rowmajor" => {
                            run_ref_split(|| mi::RowMajorReferenceIterator::from(&src), |it| wi!(into, it), split, n, base)
                        }
                        "colmajor" => {
                            run_ref_split(|| mi::ColumnMajorReferenceIterator::from(&src), |it| wi!(into, it), split, n, base)
                        }
                        _ => return "bad-op".into(),
                    },
                    ("from", "mut") if op.split.is_some() || op.conv.is_some() => {
                        let (s, w) = match op.kind {
                            "rowmajor" => run_mut_split(
                                || mi::RowMajorReferenceMutIterator::from(&mut src), |it| wi!(into, it),
                                split,
                                n,
                                base,
                            ),
                            "colmajor" => run_mut_split(
                                || mi::ColumnMajorReferenceMutIterator::from(&mut src), |it| wi!(into, it),
                                split,
                                n,
                                base,
                            ),
                            _ => return "bad-op".into(),
                        };
                        written = Some(w);
                        s
                    }
                    ("from", "copy") => matrix_kinds!(op, run_copy, run_copy_wi, [],
                        rm: mi::RowMajorIterator::from(&src), cm: mi::ColumnMajorIterator::from(&src),
                        row: mi::RowIterator::from(&src, a), col: mi::ColumnIterator::from(&src, a),
                        diag: mi::DiagonalIterator::from(&src)),
                    ("from", "ref") => matrix_kinds!(op, run_ref, run_ref_wi, [base],
                        rm: mi::RowMajorReferenceIterator::from(&src),
                        cm: mi::ColumnMajorReferenceIterator::from(&src),
                        row: mi::RowReferenceIterator::from(&src, a),
                        col: mi::ColumnReferenceIterator::from(&src, a),
                        diag: mi::DiagonalReferenceIterator::from(&src)),
                    ("from", "mut") => {
                        let (s, w) = matrix_kinds!(op, run_mut, run_mut_wi, [base],
                            rm: mi::RowMajorReferenceMutIterator::from(&mut src),
                            cm: mi::ColumnMajorReferenceMutIterator::from(&mut src),
                            row: mi::RowReferenceMutIterator::from(&mut src, a),
                            col: mi::ColumnReferenceMutIterator::from(&mut src, a),
                            diag: mi::DiagonalReferenceMutIterator::from(&mut src));
                        written = Some(w);
                        s
                    }
                    ("view", f) => {
                        let mut v = MatrixView::from(src);
                        match f {
                            "copy" => matrix_kinds!(op, run_copy, run_copy_wi, [],
                                rm: v.row_major_iter(), cm: v.column_major_iter(), row: v.row_iter(a),
                                col: v.column_iter(a), diag: v.diagonal_iter()),
                            "ref" => matrix_kinds!(op, run_ref, run_ref_wi, [base],
                                rm: v.row_major_reference_iter(), cm: v.column_major_reference_iter(),
                                row: v.row_reference_iter(a), col: v.column_reference_iter(a),
                                diag: v.diagonal_reference_iter()),
                            "mut" => {
                                let (s, w) = matrix_kinds!(op, run_mut, run_mut_wi, [base],
                                    rm: v.row_major_reference_mut_iter(),
                                    cm: v.column_major_reference_mut_iter(),
                                    row: v.row_reference_mut_iter(a), col: v.column_reference_mut_iter(a),
                                    diag: v.diagonal_reference_mut_iter());
                                written = Some(w);
                                s
                            }
                            _ => return "bad-op".into(),
                        }
                    }
                    _ => return "bad-op".into(),
                }
            }
        }
    };
    match written {
        Some(cells) if !recs.starts_with("panic(") => {
            let now: Vec<u64> = matrix_cells(leaf.get(), |v| *v);
            format!("{}{}", recs, distinct_report(&cells, &now))
        }
        _ => recs,
    }
}

fn matrix_owned<E: OwnElem>(
    rows: usize,
    cols: usize,
    preps: &[MPrep],
    ads: &[MAd],
    op: &Op,
    apply: fn(&mut Matrix<E>, &MPrep) -> bool,
) -> String {
    snapshot_clear();
    let total = rows * cols;
    drops_reset();
    let report = |numeric: bool| -> String {
        if E::COUNTED { drops_report(total, numeric) } else { " drops=ok".to_string() }
    };
    let leaf_m: Matrix<E> = match make_matrix::<E>(rows, cols, preps, apply) {
        Ok(m) => m,
        Err(e) => return e,
    };
    let n = op.n;
    let into = op.into;
    let split = phase_of(op);
    let numeric = op.via.ends_with("_numeric");
    if op.via == "matrix" {
        let m = leaf_m;
        let (recs, moved) = match (op.kind, op.wi) {
            ("rowmajor", false) => run_owned(move || m.row_major_owned_iter(), n),
            ("rowmajor", true) => run_owned_wi(move || wi!(into, m.row_major_owned_iter()), n),
            ("colmajor", false) => run_owned(move || m.column_major_owned_iter(), n),
            ("colmajor", true) => run_owned_wi(move || wi!(into, m.column_major_owned_iter()), n),
            _ => return "bad-op".into(),
        };
        drop(moved);
        return format!("{}{}", recs, report(numeric));
    }
    let leaf = Leaf::new(leaf_m);
    let (recs, moved) = {
        // Safety: `m` and everything built from it die at the end of this block
        let m: &'static mut Matrix<E> = unsafe { leaf.lend() };
        let src = build_matrix(m, ads);
        if op.op == "consume" {
            (consume_matrix_owned(src, op), vec![])
        } else {
        match (op.kind, op.wi) {
            ("rowmajor", true) if op.split.is_some() || op.conv.is_some() => {
                run_owned_split(move || own!(numeric, mi::RowMajorOwnedIterator, src), |it| wi!(into, it), split, n)
            }
            ("colmajor", true) if op.split.is_some() || op.conv.is_some() => {
                run_owned_split(move || own!(numeric, mi::ColumnMajorOwnedIterator, src), |it| wi!(into, it), split, n)
            }
            ("rowmajor", false) => run_owned(move || own!(numeric, mi::RowMajorOwnedIterator, src), n),
            ("rowmajor", true) => run_owned_wi(move || wi!(into, own!(numeric, mi::RowMajorOwnedIterator, src)), n),
            ("colmajor", false) => run_owned(move || own!(numeric, mi::ColumnMajorOwnedIterator, src), n),
            ("colmajor", true) => {
                run_owned_wi(move || wi!(into, own!(numeric, mi::ColumnMajorOwnedIterator, src)), n)
            }
            _ => return "bad-op".into(),
        }
        }
    };
    if op.op == "left" {
        let s = show_left(matrix_cells(leaf.get(), |d| d.show_e()).into_iter());
        drop(moved);
        return s;
    }
    drop(moved);
    drop(leaf);
    format!("{}{}", recs, report(numeric))
}

// ---------------------------------------------------------------------------------------------
// runner
// ---------------------------------------------------------------------------------------------

enum Case {
    None,
    Shape(Vec<usize>),
    Tensor(Vec<(&'static str, usize)>, Vec<TPrep>, Vec<TAd>),
    Zip(Root, Vec<TAd>),
    Matrix(usize, usize, Vec<MPrep>, Vec<MAd>),
}

pub struct Runner {
    case: Case,
}

impl Runner {
    pub fn new() -> Runner {
        Runner { case: Case::None }
    }

    pub fn step(&mut self, toks: &[&str]) -> String {
        // `d=<mode>` on a case header chooses the data stored in the leaves
        let stripped: Vec<&str>;
        let toks: &[&str] = if toks.first() == Some(&"@") {
            set_mode(opt_arg("d", toks).unwrap_or("ids"));
            stripped = toks.iter().copied().filter(|t| !t.starts_with("d=")).collect();
            &stripped
        } else {
            toks
        };
        match toks {
            ["@", "shape", lens_s] => {
                self.case = Case::Shape(parse_usizes(lens_s));
                "ok".into()
            }
            ["@", "tensor", shape_s, rest @ ..] => {
                let shape = parse_shape(shape_s);
                let preps: Vec<TPrep> =
                    rest.iter().filter_map(|t| t.strip_prefix("prep:")).map(parse_tprep).collect();
                let ads: Vec<TAd> =
                    rest.iter().filter(|t| !t.starts_with("prep:")).map(|t| parse_tad(t)).collect();
                // report the view shape the composed source has
                let d = shape.len();
                snapshot_clear();
                let ans = with_d!(d, D => {
                    match make_tensor::<u64, D>(&shape, &preps, prep_tensor_clone) {
                        Err(e) => if e == "bad-op" { e } else { "reject".to_string() },
                        Ok(t) => {
                            let leaf = Leaf::new(t);
                            let r = match build_tensor_with(unsafe { leaf.lend() }, &ads, false) {
                                Ok(src) => format!("ok shape={}", show_shape(&src.view_shape())),
                                Err(e) => e,
                            };
                            r
                        }
                    }
                });
                self.case = if ans.starts_with("ok") { Case::Tensor(shape, preps, ads) } else { Case::None };
                ans
            }
            ["@", kind @ ("stack" | "chain"), rest @ ..] => {
                let mut toks: Vec<&str> = vec![*kind];
                toks.extend_from_slice(rest);
                let (root, post) = parse_root(&toks);
                let ans = with_d!(root_dims(&root), D => zip_header::<D>(&root, &post));
                self.case = if ans.starts_with("ok") { Case::Zip(root, post) } else { Case::None };
                ans
            }
            ["@", "matrix", rows_s, cols_s, rest @ ..] => {
                let rows: usize = rows_s.parse().unwrap();
                let cols: usize = cols_s.parse().unwrap();
                let preps: Vec<MPrep> =
                    rest.iter().filter_map(|t| t.strip_prefix("prep:")).map(parse_mprep).collect();
                let ads: Vec<MAd> =
                    rest.iter().filter(|t| !t.starts_with("prep:")).map(|t| parse_mad(t)).collect();
                snapshot_clear();
                match make_matrix::<u64>(rows, cols, &preps, prep_matrix_u64) {
                    Err(e) => {
                        self.case = Case::None;
                        if e == "bad-op" { e } else { "reject".to_string() }
                    }
                    Ok(m) => {
                        let leaf = Leaf::new(m);
                        let src = build_matrix(unsafe { leaf.lend() }, &ads);
                        let ans = format!("ok size={}x{}", src.view_rows(), src.view_columns());
                        drop(src);
                        self.case = Case::Matrix(rows, cols, preps, ads);
                        ans
                    }
                }
            }
            [op @ ("iter" | "left" | "consume" | "probe"), rest @ ..] => {
                let o = parse_op(op, rest);
                match &self.case {
                    Case::None => "no-source".into(),
                    Case::Shape(lens) => {
                        let c = opt_arg("clone", rest).map(|x| x.parse::<usize>().unwrap());
                        with_d!(lens.len(), D => shape_iter::<D>(lens, o.n, c))
                    }
                    Case::Tensor(shape, preps, ads) => {
                        if o.f == "owned" || o.op == "left" {
                            if preps.iter().any(tprep_needs_clone) {
                                // the producer needs `Clone` elements: plain numbers are moved out
                                with_d!(shape.len(), D =>
                                    tensor_owned::<Cl, D>(shape, preps, ads, &o, prep_tensor_clone))
                            } else {
                                with_d!(shape.len(), D =>
                                    tensor_owned::<Dc, D>(shape, preps, ads, &o, prep_tensor_any))
                            }
                        } else if o.via == "asrecords" {
                            with_d!(shape.len(), D => tensor_asrecords::<D>(shape, &o))
                        } else {
                            with_d!(shape.len(), D => tensor_u64::<D>(shape, preps, ads, &o))
                        }
                    }
                    Case::Zip(root, post) => {
                        if o.f == "owned" {
                            with_d!(root_dims(root), D => zip_owned::<D>(root, post, &o))
                        } else {
                            with_d!(root_dims(root), D => zip_u64::<D>(root, post, &o))
                        }
                    }
                    Case::Matrix(rows, cols, preps, ads) => {
                        if o.f == "owned" {
                            if preps.iter().any(mprep_needs_clone) {
                                matrix_owned::<Cl>(*rows, *cols, preps, ads, &o, prep_matrix_clone)
                            } else {
                                matrix_owned::<Dc>(*rows, *cols, preps, ads, &o, prep_matrix_any)
                            }
                        } else if o.via == "asrecords" {
                            matrix_asrecords(*rows, *cols, &o)
                        } else {
                            matrix_u64(*rows, *cols, preps, ads, &o)
                        }
                    }
                }
            }
            _ => "bad-op".into(),
        }
    }
}

// ---------------------------------------------------------------------------------------------
// generation
// ---------------------------------------------------------------------------------------------

const NAME_POOL: [&str; 8] = ["a", "b", "c", "d", "e", "f", "row", "column"];

fn shapes_up_to(max_d: usize, max_product: usize) -> Vec<Vec<usize>> {
    fn go(cur: &mut Vec<usize>, prod: usize, max_d: usize, max_product: usize, out: &mut Vec<Vec<usize>>) {
        out.push(cur.clone());
        if cur.len() == max_d {
            return;
        }
        let mut l = 1;
        while prod * l <= max_product {
            cur.push(l);
            go(cur, prod * l, max_d, max_product, out);
            cur.pop();
            l += 1;
        }
    }
    let mut out = vec![];
    go(&mut vec![], 1, max_d, max_product, &mut out);
    out
}

fn named(g: &mut Gen, lens: &[usize]) -> Vec<(&'static str, usize)> {
    let mut pool: Vec<&str> = NAME_POOL.to_vec();
    g.rng.shuffle(&mut pool);
    if g.rng.chance(1, 2) {
        // names the library uses internally, prefixes of one another, the empty name …
        // (wire tokens: the runner interns them)
        g.count("names.adversarial");
        let names = adversarial_names(&mut g.rng, lens.len());
        return lens.iter().enumerate().map(|(i, l)| (names[i], *l)).collect();
    }
    g.count("names.plain");
    lens.iter().enumerate().map(|(i, l)| (wire_name(pool[i]), *l)).collect()
}

const FLAVOURS: [&str; 4] = ["copy", "ref", "mut", "owned"];

/// the view shape after an adaptor (generation only needs names and lengths)
fn shape_after(shape: &[(&'static str, usize)], ad: &TAd) -> Vec<(&'static str, usize)> {
    match ad {
        TAd::Range(rs) => shape
            .iter()
            .map(|(n, l)| match rs.iter().rev().find(|r| r.0 == *n) {
                Some((_, s, len)) => (*n, std::cmp::min(s + len, *l).saturating_sub(*s)),
                None => (*n, *l),
            })
            .collect(),
        TAd::Mask(ms) => shape
            .iter()
            .map(|(n, l)| match ms.iter().rev().find(|r| r.0 == *n) {
                Some((_, s, len)) => (*n, *l - std::cmp::min(s + len, *l).saturating_sub(*s)),
                None => (*n, *l),
            })
            .collect(),
        TAd::Rename(names) => shape.iter().zip(names.iter()).map(|(d, n)| (*n, d.1)).collect(),
        TAd::Reverse(_) => shape.to_vec(),
        TAd::Access(names) => {
            names.iter().map(|n| *shape.iter().find(|d| d.0 == *n).expect("name")).collect()
        }
        TAd::Transpose(names) => shape
            .iter()
            .zip(names.iter())
            .map(|(d, n)| (d.0, shape.iter().find(|x| x.0 == *n).expect("name").1))
            .collect(),
    }
}

fn random_tad(g: &mut Gen, shape: &[(&'static str, usize)]) -> Option<TAd> {
    let k = g.rng.below(6);
    tad_of_kind(g, shape, k)
}

/// an adaptor of kind 0 range, 1 reverse, 2 access, 3 transpose, 4 mask, 5 rename
fn tad_of_kind(g: &mut Gen, shape: &[(&'static str, usize)], kind: usize) -> Option<TAd> {
    let d = shape.len();
    if d == 0 {
        return None;
    }
    match kind {
        4 => {
            // hide a proper part of some dimensions that have at least two indexes
            let mut ms = vec![];
            for (n, l) in shape {
                if *l >= 2 && g.rng.chance(1, 2) {
                    let start = g.rng.below(*l);
                    let max_len = if start == 0 { l - 1 } else { *l };
                    let len = g.rng.range(1, max_len);
                    // never hide everything
                    let hidden = std::cmp::min(start + len, *l) - start;
                    if hidden < *l {
                        ms.push((*n, start, len));
                    }
                }
            }
            if ms.is_empty() {
                return Some(TAd::Reverse(vec![shape[g.rng.below(d)].0]));
            }
            Some(TAd::Mask(ms))
        }
        5 => {
            let mut pool: Vec<&str> = NAME_POOL.to_vec();
            g.rng.shuffle(&mut pool);
            if g.rng.chance(1, 2) {
                // possibly re-using some of the old names at other positions
                return Some(TAd::Rename(adversarial_names(&mut g.rng, d)));
            }
            Some(TAd::Rename(pool[..d].iter().map(|n| wire_name(n)).collect()))
        }
        0 => {
            // a non-empty range on a random non-empty subset of the dimensions
            let mut rs = vec![];
            for (n, l) in shape {
                if g.rng.chance(1, 2) {
                    let start = g.rng.below(*l);
                    let len = if g.rng.chance(1, 4) { l + 3 } else { g.rng.range(1, l - start) };
                    rs.push((*n, start, len));
                }
            }
            if rs.is_empty() {
                let (n, l) = shape[g.rng.below(d)];
                rs.push((n, g.rng.below(l), l));
            }
            Some(TAd::Range(rs))
        }
        1 => {
            let mut ns: Vec<&'static str> = shape.iter().map(|s| s.0).filter(|_| g.rng.chance(1, 2)).collect();
            if ns.is_empty() {
                ns.push(shape[g.rng.below(d)].0);
            }
            g.rng.shuffle(&mut ns);
            Some(TAd::Reverse(ns))
        }
        k => {
            let mut ns: Vec<&'static str> = shape.iter().map(|s| s.0).collect();
            g.rng.shuffle(&mut ns);
            Some(if k == 2 { TAd::Access(ns) } else { TAd::Transpose(ns) })
        }
    }
}

fn tensor_vias(ads: &[TAd], f: &str) -> Vec<&'static str> {
    let mut v = match ads {
        [] => vec!["tensor", "from", "view", "boxed", "boxedview"],
        [TAd::Access(_)] => vec!["access", "boxed", "boxedview"],
        _ => vec!["boxed", "boxedview"],
    };
    if f == "owned" {
        // the `from_numeric` constructors (placeholder = `ZeroOne::zero`)
        v.push("boxed_numeric");
        if ads.is_empty() {
            v.push("from_numeric");
        }
    }
    v
}

/// how the with-index iterator is made: `with_index()` or `From`/`into()`
fn wvia(g: &mut Gen, wi: bool) -> &'static str {
    if wi && g.rng.chance(1, 3) {
        g.count("withindex.via=into");
        " wvia=into"
    } else if wi && g.rng.chance(1, 2) {
        g.count("withindex.via=dotinto");
        " wvia=dotinto"
    } else {
        if wi {
            g.count("withindex.via=method");
        }
        ""
    }
}

/// `count`, `last`, `fold`, `nth.<j>`, `panic.<p>` — all five when `all`, else two of them
fn random_consumers(g: &mut Gen, total: usize, all: bool) -> Vec<String> {
    let mut v = vec![
        "count".to_string(),
        "last".to_string(),
        "fold".to_string(),
        format!("nth.{}", g.rng.below(total + 2)),
        format!("panic.{}", g.rng.below(total + 1)),
    ];
    if !all {
        g.rng.shuffle(&mut v);
        v.truncate(2);
    }
    v
}

fn emit_tensor_ops(g: &mut Gen, shape: &[(&'static str, usize)], ads: &[TAd], all: bool) {
    let total: usize = shape.iter().map(|s| s.1).product();
    let mut combos: Vec<(&str, bool)> = vec![];
    for f in FLAVOURS {
        for wi in [false, true] {
            combos.push((f, wi));
        }
    }
    if !all {
        g.rng.shuffle(&mut combos);
        combos.truncate(3);
    }
    for (f, wi) in combos {
        let vias = tensor_vias(ads, f);
        let via = *g.rng.pick(&vias);
        let w = wvia(g, wi);
        g.op(format!("iter f={} wi={} n={} via={}{}", f, wi as u8, total + 3, via, w));
        g.count(&format!("tensor.iter.f={}.wi={}", f, wi as u8));
        g.count(&format!("tensor.via={}", via));
        g.count_n("tensor.records", (total + 3) as u64);
    }
    // `WithIndex::source()` mid-iteration: k calls with index, the rest without
    for _ in 0..(if all { 2 } else { 1 }) {
        let f = *g.rng.pick(&FLAVOURS);
        let k = g.rng.below(total + 3);
        let via = if f == "owned" && g.rng.chance(1, 2) { "boxed_numeric" } else { "boxed" };
        let w = wvia(g, true);
        g.op(format!("iter f={} wi=1 split={} n={} via={}{}", f, k, total + 3, via, w));
        g.count(&format!("tensor.split.f={}", f));
    }
    // conversion of a partially consumed iterator into its with-index form
    for _ in 0..(if all { 2 } else { 1 }) {
        let f = *g.rng.pick(&FLAVOURS);
        let k = g.rng.below(total + 3);
        let via = if f == "owned" && g.rng.chance(1, 2) { "boxed_numeric" } else { "boxed" };
        let w = wvia(g, true);
        g.op(format!("iter f={} wi=1 conv={} n={} via={}{}", f, k, total + 3, via, w));
        g.count(&format!("tensor.conv.f={}", f));
    }
    // std's consumers on top of `next`, after a prefix of plain calls
    let consumers = random_consumers(g, total, all);
    for m in consumers {
        let f = *g.rng.pick(&FLAVOURS);
        let wi = g.rng.chance(1, 2);
        let via = if f == "owned" && g.rng.chance(1, 2) { "boxed_numeric" } else { "boxed" };
        let w = wvia(g, wi);
        let after = g.rng.below(total + 2);
        g.op(format!("consume m={} after={} f={} wi={} n=2 via={}{}", m, after, f, wi as u8, via, w));
        g.count(&format!("consume.{}", m.split('.').next().unwrap()));
    }
    // placeholders left behind after a prefix of an owned iteration, source held by &mut
    let ks: Vec<usize> = if all { vec![0, g.rng.below(total + 1), total, total + 2] } else { vec![g.rng.below(total + 2)] };
    for k in ks {
        let vias: Vec<&str> = tensor_vias(ads, "owned").into_iter().filter(|v| *v != "tensor" && *v != "view").collect();
        let via = *g.rng.pick(&vias);
        g.op(format!("left n={} via={}", k, via));
        g.count("tensor.left");
    }
}

fn gen_tensor_cases(g: &mut Gen) {
    let (max_d, max_p) = (4, 36);
    for lens in shapes_up_to(max_d, max_p) {
        let shape = named(g, &lens);
        let d = shape.len();
        g.count(&format!("tensor.D={}", d));
        // the container itself: every flavour, with and without index
        g.op(format!("@ tensor {}", show_shape(&shape)));
        emit_tensor_ops(g, &shape, &[], true);
        g.count("tensor.source=container");
        // the same container holding zeros / one value / duplicates
        if g.thorough || g.rng.chance(1, 3) {
            let sfx = data_suffix(g, 1, 1);
            g.op(format!("@ tensor {}{}", show_shape(&shape), sfx));
            emit_tensor_ops(g, &shape, &[], g.thorough);
            g.count("tensor.source=container-degenerate");
        }
        if d == 0 {
            continue;
        }
        // derived sources
        let n_derived = if g.thorough { 6 } else { 2 };
        for _ in 0..n_derived {
            let depth = *g.rng.pick(&[1usize, 1, 1, 2, 2, 3]);
            let mut ads = vec![];
            let mut cur = shape.clone();
            for _ in 0..depth {
                if let Some(ad) = random_tad(g, &cur) {
                    cur = shape_after(&cur, &ad);
                    ads.push(ad);
                }
            }
            let header = format!(
                "@ tensor {} {}",
                show_shape(&shape),
                ads.iter().map(show_tad).collect::<Vec<_>>().join(" ")
            );
            let sfx = data_suffix(g, 1, 4);
            g.op(header + &sfx);
            for ad in &ads {
                g.count(match ad {
                    TAd::Range(_) => "tensor.adaptor=range",
                    TAd::Reverse(_) => "tensor.adaptor=reverse",
                    TAd::Mask(_) => "tensor.adaptor=mask",
                    TAd::Rename(_) => "tensor.adaptor=rename",
                    TAd::Access(_) => "tensor.adaptor=access",
                    TAd::Transpose(_) => "tensor.adaptor=transpose",
                });
            }
            g.count(&format!("tensor.source=depth{}", ads.len()));
            emit_tensor_ops(g, &cur, &ads, g.thorough);
        }
    }
    // all orderings of small tensors through TensorAccess and TensorTranspose
    for lens in shapes_up_to(3, if g.thorough { 24 } else { 12 }) {
        if lens.len() < 2 {
            continue;
        }
        let shape = named(g, &lens);
        for perm in permutations(lens.len()) {
            let names: Vec<&'static str> = perm.iter().map(|&p| shape[p].0).collect();
            for ad in [TAd::Access(names.clone()), TAd::Transpose(names.clone())] {
                g.op(format!("@ tensor {} {}", show_shape(&shape), show_tad(&ad)));
                let cur = shape_after(&shape, &ad);
                g.count("tensor.source=all-orderings");
                emit_tensor_ops(g, &cur, &[ad], false);
            }
        }
    }
    // random larger dimensionalities
    let n_random = if g.thorough { 300 } else { 40 };
    for _ in 0..n_random {
        let d = g.rng.range(5, 6);
        let mut lens = vec![];
        let mut prod = 1usize;
        for _ in 0..d {
            let l = g.rng.range(1, 3);
            if prod * l > 96 {
                lens.push(1);
            } else {
                lens.push(l);
                prod *= l;
            }
        }
        let shape = named(g, &lens);
        g.count(&format!("tensor.D={}", d));
        let mut ads = vec![];
        let mut cur = shape.clone();
        for _ in 0..g.rng.below(3) {
            if let Some(ad) = random_tad(g, &cur) {
                cur = shape_after(&cur, &ad);
                ads.push(ad);
            }
        }
        g.op(format!(
            "@ tensor {} {}",
            show_shape(&shape),
            ads.iter().map(show_tad).collect::<Vec<_>>().join(" ")
        ));
        g.count(&format!("tensor.source=depth{}", ads.len()));
        emit_tensor_ops(g, &cur, &ads, false);
    }
    // ranges that select nothing are refused by the constructor
    for (shape, ad) in [
        (vec![("a", 2usize), ("b", 3usize)], "range:b.3.5"),
        (vec![("a", 2), ("b", 3)], "range:a.0.0"),
        (vec![("a", 2), ("b", 3)], "range:zz.0.1"),
        (vec![("a", 2), ("b", 3)], "reverse:zz"),
        (vec![("a", 2), ("b", 3)], "access:a,a"),
        (vec![("a", 2), ("b", 3)], "mask:b.0.3"),
        (vec![("a", 2), ("b", 3)], "rename:x,x"),
    ] {
        g.op(format!("@ tensor {} {}", show_shape(&shape), ad));
        g.count("tensor.source=rejected");
    }
}

fn gen_shape_cases(g: &mut Gen) {
    // every shape with lengths 0..=3 up to three dimensions (so every placement of zero lengths)
    fn all(d: usize, cur: &mut Vec<usize>, out: &mut Vec<Vec<usize>>) {
        if cur.len() == d {
            out.push(cur.clone());
            return;
        }
        for l in 0..=3 {
            cur.push(l);
            all(d, cur, out);
            cur.pop();
        }
    }
    let mut shapes = vec![];
    for d in 0..=3 {
        all(d, &mut vec![], &mut shapes);
    }
    shapes.extend(shapes_up_to(4, 36));
    for _ in 0..(if g.thorough { 400 } else { 60 }) {
        let d = g.rng.range(4, 6);
        let mut lens = vec![];
        let mut prod = 1usize;
        for _ in 0..d {
            let l = if g.rng.chance(1, 12) { 0 } else { g.rng.range(1, 4) };
            if l > 0 && prod * l > 128 {
                lens.push(1);
            } else {
                lens.push(l);
                prod *= std::cmp::max(l, 1);
            }
        }
        shapes.push(lens);
    }
    for lens in shapes {
        let total: usize = lens.iter().product();
        g.op(format!("@ shape {}", show_usizes(&lens)));
        g.op(format!("iter n={} via=shapeiter", total + 3));
        g.count(&format!("shape.D={}", lens.len()));
        if lens.iter().any(|&l| l == 0) {
            g.count("shape.with_zero_length");
        }
        g.count_n("shape.records", (total + 3) as u64);
    }
    // element counts that do not fit in usize: the length cannot be reported
    for lens in [
        vec![usize::MAX, 2],
        vec![2, usize::MAX],
        vec![1 << 32, 1 << 32],
        vec![1 << 32, 1 << 31, 2],
        vec![usize::MAX, 1],
        vec![1, usize::MAX],
        vec![usize::MAX],
        vec![usize::MAX, 2, 0],
        vec![0, usize::MAX, 2],
        vec![1 << 63, 2, 1],
    ] {
        g.op(format!("@ shape {}", show_usizes(&lens)));
        g.op("iter n=4 via=shapeiter".to_string());
        g.count("shape.huge");
    }
}

fn matrix_vias(ads: &[MAd], f: &str) -> Vec<&'static str> {
    if f == "owned" {
        if ads.is_empty() { vec!["matrix", "from", "from_numeric"] } else { vec!["from", "from_numeric"] }
    } else if ads.is_empty() {
        vec!["matrix", "from", "view"]
    } else {
        vec!["from", "view"]
    }
}

fn emit_matrix_ops(g: &mut Gen, rows: usize, cols: usize, ads: &[MAd], all: bool) {
    // (rows, cols) is the size of the view
    let total = rows * cols;
    let mut combos: Vec<(&str, &str, bool)> = vec![];
    for k in ["rowmajor", "colmajor"] {
        for f in FLAVOURS {
            for wi in [false, true] {
                combos.push((k, f, wi));
            }
        }
    }
    if !all {
        g.rng.shuffle(&mut combos);
        combos.truncate(4);
    }
    for (k, f, wi) in combos {
        let via = *g.rng.pick(&matrix_vias(ads, f));
        let w = wvia(g, wi);
        g.op(format!("iter k={} f={} wi={} n={} via={}{}", k, f, wi as u8, total + 3, via, w));
        g.count(&format!("matrix.iter.k={}.f={}.wi={}", k, f, wi as u8));
        g.count(&format!("matrix.via={}", via));
        g.count_n("matrix.records", (total + 3) as u64);
    }
    for a in 0..=rows {
        let f = *g.rng.pick(&["copy", "ref", "mut"]);
        let via = *g.rng.pick(&matrix_vias(ads, f));
        g.op(format!("iter k=row a={} f={} wi=0 n={} via={}", a, f, cols + 3, via));
        g.count(if a < rows && cols > 0 { "matrix.row.valid" } else { "matrix.row.rejected" });
    }
    for a in 0..=cols {
        let f = *g.rng.pick(&["copy", "ref", "mut"]);
        let via = *g.rng.pick(&matrix_vias(ads, f));
        g.op(format!("iter k=col a={} f={} wi=0 n={} via={}", a, f, rows + 3, via));
        g.count(if a < cols && rows > 0 { "matrix.col.valid" } else { "matrix.col.rejected" });
    }
    for f in ["copy", "ref", "mut"] {
        if all || g.rng.chance(1, 2) {
            let via = *g.rng.pick(&matrix_vias(ads, f));
            g.op(format!("iter k=diag f={} wi=0 n={} via={}", f, std::cmp::min(rows, cols) + 3, via));
            g.count("matrix.diag");
        }
    }
    for m in random_consumers(g, total, all) {
        let k = *g.rng.pick(&["rowmajor", "colmajor"]);
        let f = *g.rng.pick(&FLAVOURS);
        let wi = g.rng.chance(1, 2);
        let via = if f == "owned" && g.rng.chance(1, 2) { "from_numeric" } else { "from" };
        let w = wvia(g, wi);
        let after = g.rng.below(total + 2);
        g.op(format!("consume m={} after={} k={} f={} wi={} n=2 via={}{}", m, after, k, f, wi as u8, via, w));
        g.count(&format!("consume.{}", m.split('.').next().unwrap()));
    }
    for k in ["rowmajor", "colmajor"] {
        let n = g.rng.below(total + 2);
        let via = if g.rng.chance(1, 3) { "from_numeric" } else { "from" };
        g.op(format!("left k={} n={} via={}", k, n, via));
        g.count("matrix.left");
        // `WithIndex::source()` mid-iteration
        let f = *g.rng.pick(&FLAVOURS);
        let split = g.rng.below(total + 3);
        let via = if f == "owned" && g.rng.chance(1, 2) { "from_numeric" } else { "from" };
        let w = wvia(g, true);
        g.op(format!("iter k={} f={} wi=1 split={} n={} via={}{}", k, f, split, total + 3, via, w));
        g.count(&format!("matrix.split.f={}", f));
        let f = *g.rng.pick(&FLAVOURS);
        let conv = g.rng.below(total + 3);
        let via = if f == "owned" && g.rng.chance(1, 2) { "from_numeric" } else { "from" };
        let w = wvia(g, true);
        g.op(format!("iter k={} f={} wi=1 conv={} n={} via={}{}", k, f, conv, total + 3, via, w));
        g.count(&format!("matrix.conv.f={}", f));
    }
}

fn clip(start: usize, len: usize, max: usize) -> usize {
    std::cmp::min(start + len, max).saturating_sub(start)
}

fn gen_matrix_cases(g: &mut Gen) {
    let mut sizes = vec![];
    for r in 1..=36usize {
        for c in 1..=36usize {
            if r * c <= 36 && (g.thorough || (r <= 6 && c <= 6) || r == 1 || c == 1 && r % 5 == 0) {
                sizes.push((r, c));
            }
        }
    }
    for (rows, cols) in sizes {
        g.op(format!("@ matrix {} {}", rows, cols));
        g.count("matrix.source=container");
        emit_matrix_ops(g, rows, cols, &[], true);
        {
            let sfx = data_suffix(g, 1, 1);
            g.op(format!("@ matrix {} {}{}", rows, cols, sfx));
            g.count("matrix.source=container-degenerate");
            emit_matrix_ops(g, rows, cols, &[], g.thorough);
        }
        if rows > 8 || cols > 8 {
            continue;
        }
        // every way of being empty, plus random proper ranges, reversals and compositions
        let mut views: Vec<Vec<MAd>> = vec![
            vec![MAd::Range(0, 0, 0, cols)],            // 0 x N
            vec![MAd::Range(0, rows, 0, 0)],            // N x 0
            vec![MAd::Range(0, 0, 0, 0)],               // 0 x 0
            vec![MAd::Range(rows, 2, 0, cols)],         // start beyond the end: 0 x N
            vec![MAd::Range(0, rows, cols + 1, 1)],     // N x 0
            vec![MAd::Reverse(true, false)],
            vec![MAd::Reverse(false, true)],
            vec![MAd::Reverse(true, true)],
        ];
        let n_random = if g.thorough { 8 } else { 3 };
        for _ in 0..n_random {
            let mut ads = vec![];
            let (mut r, mut c) = (rows, cols);
            for _ in 0..g.rng.range(1, 3) {
                if g.rng.chance(2, 3) {
                    let rs = g.rng.below(r + 1);
                    let cs = g.rng.below(c + 1);
                    let rl = if g.rng.chance(1, 5) { r + 2 } else { g.rng.below(r + 1) };
                    let cl = if g.rng.chance(1, 5) { c + 2 } else { g.rng.below(c + 1) };
                    ads.push(MAd::Range(rs, rl, cs, cl));
                    r = clip(rs, rl, r);
                    c = clip(cs, cl, c);
                } else {
                    ads.push(MAd::Reverse(g.rng.chance(1, 2), g.rng.chance(1, 2)));
                }
            }
            views.push(ads);
        }
        for ads in views {
            let (mut r, mut c) = (rows, cols);
            for ad in &ads {
                if let MAd::Range(rs, rl, cs, cl) = ad {
                    r = clip(*rs, *rl, r);
                    c = clip(*cs, *cl, c);
                }
            }
            let sfx = data_suffix(g, 1, 4);
            g.op(format!(
                "@ matrix {} {} {}{}",
                rows,
                cols,
                ads.iter().map(show_mad).collect::<Vec<_>>().join(" "),
                sfx
            ));
            g.count(if r == 0 || c == 0 { "matrix.source=empty-view" } else { "matrix.source=view" });
            if r == 0 && c > 0 {
                g.count("matrix.view.0xN");
            }
            if c == 0 && r > 0 {
                g.count("matrix.view.Nx0");
            }
            emit_matrix_ops(g, r, c, &ads, r == 0 || c == 0 || g.thorough);
        }
    }
}


/// `emit_tensor_ops` picks the API forms from the adaptor list; a stacked / chained source is
/// reachable only as a boxed composition, like a source under two or more adaptors
fn zip_vias_marker() -> Vec<TAd> {
    vec![TAd::Reverse(vec![]), TAd::Reverse(vec![])]
}

/// with probability num/den a degenerate data mode for the case header (` d=<mode>`)
fn data_suffix(g: &mut Gen, num: usize, den: usize) -> String {
    if g.rng.chance(num, den) {
        let m = *g.rng.pick(&["zero", "same", "dup", "mod3"]);
        g.count(&format!("data.{}", m));
        format!(" d={}", m)
    } else {
        g.count("data.ids");
        String::new()
    }
}

const ZIP_FORMS: [(&str, usize); 7] =
    [("array", 1), ("array", 2), ("array", 3), ("array", 4), ("tuple", 2), ("tuple", 3), ("tuple", 4)];

fn random_post(g: &mut Gen, shape: &[(&'static str, usize)], max_depth: usize) -> (Vec<TAd>, Vec<(&'static str, usize)>) {
    let mut ads = vec![];
    let mut cur = shape.to_vec();
    for _ in 0..g.rng.below(max_depth + 1) {
        if let Some(ad) = random_tad(g, &cur) {
            cur = shape_after(&cur, &ad);
            ads.push(ad);
        }
    }
    (ads, cur)
}

fn gen_zip_cases(g: &mut Gen) {
    let mut rot = 0usize;
    let mut src_shapes = shapes_up_to(3, 6);
    // a few sources of higher dimensionality (results up to D = 6)
    src_shapes.push(vec![1, 2, 1, 2]);
    src_shapes.push(vec![2, 1, 1, 1, 2]);
    src_shapes.push(vec![1, 1, 2, 1, 1]);
    for lens in src_shapes {
        let shape = named(g, &lens);
        let ds = shape.len();
        // ---- TensorStack
        let forms: Vec<(&str, usize)> = if g.thorough {
            ZIP_FORMS.to_vec()
        } else {
            rot += 1;
            vec![ZIP_FORMS[rot % 7], ZIP_FORMS[(rot * 3 + 1) % 7]]
        };
        for (form, n) in forms {
            let pos = g.rng.below(ds + 1);
            let (pre, cur_src) =
                if ds > 0 && g.rng.chance(1, 2) { random_post(g, &shape, 1) } else { (vec![], shape.clone()) };
            let mut stacked = cur_src.clone();
            // the new dimension: "s", or an adversarial name that is not among the sources' names
            let sname: &'static str = if g.rng.chance(1, 2) {
                wire_name("s")
            } else {
                adversarial_names(&mut g.rng, 12)
                    .into_iter()
                    .find(|n| !cur_src.iter().any(|d| d.0 == *n))
                    .unwrap_or(wire_name("s"))
            };
            stacked.insert(pos, (sname, n));
            let (post, cur) = random_post(g, &stacked, 2);
            let mut header = format!("@ stack {}.{} {} {} {}", pos, sname, form, n, show_shape(&shape));
            for ad in &pre {
                header.push_str(&format!(" pre:{}", show_tad(ad)));
            }
            for ad in &post {
                header.push_str(&format!(" {}", show_tad(ad)));
            }
            let sfx = data_suffix(g, 1, 4);
            g.op(header + &sfx);
            g.count(&format!("zip.stack.{}{}", form, n));
            g.count(&format!("zip.stack.pre={}.post={}", pre.len(), post.len()));
            g.count(&format!("tensor.D={}", cur.len()));
            emit_tensor_ops(g, &cur, &zip_vias_marker(), g.thorough || n == 4);
        }
        // ---- TensorChain (needs a dimension to chain along)
        if ds == 0 {
            continue;
        }
        let forms: Vec<(&str, usize)> = if g.thorough {
            ZIP_FORMS.to_vec()
        } else {
            vec![ZIP_FORMS[(rot * 5 + 2) % 7], ZIP_FORMS[(rot + 4) % 7]]
        };
        for (form, n) in forms {
            let c = g.rng.below(ds);
            // sources of different lengths along the chained dimension
            let shapes: Vec<Vec<(&'static str, usize)>> = (0..n)
                .map(|_| {
                    let mut sh = shape.clone();
                    sh[c].1 = g.rng.range(1, 3);
                    sh
                })
                .collect();
            // an adaptor under the chain that keeps the sources chainable
            let pre: Vec<TAd> = if g.rng.chance(1, 2) {
                let mut found = vec![];
                for _ in 0..6 {
                    match random_tad(g, &shapes[0]) {
                        Some(ad @ (TAd::Reverse(_) | TAd::Access(_) | TAd::Rename(_))) => {
                            found.push(ad);
                            break;
                        }
                        _ => {}
                    }
                }
                found
            } else {
                vec![]
            };
            let after: Vec<Vec<(&'static str, usize)>> = shapes
                .iter()
                .map(|sh| pre.iter().fold(sh.clone(), |cur, ad| shape_after(&cur, ad)))
                .collect();
            // where the chained dimension went, and what it is called now
            let along_name = match pre.first() {
                Some(TAd::Rename(names)) => names[c],
                _ => shape[c].0,
            };
            let c_after = after[0].iter().position(|d| d.0 == along_name).expect("chained dimension");
            let mut chained = after[0].clone();
            chained[c_after].1 = after.iter().map(|sh| sh[c_after].1).sum();
            let (post, cur) = random_post(g, &chained, 2);
            let mut header = format!(
                "@ chain {} {} {}",
                along_name,
                form,
                shapes.iter().map(|sh| show_shape(sh)).collect::<Vec<_>>().join("|")
            );
            for ad in &pre {
                header.push_str(&format!(" pre:{}", show_tad(ad)));
            }
            for ad in &post {
                header.push_str(&format!(" {}", show_tad(ad)));
            }
            let sfx = data_suffix(g, 1, 4);
            g.op(header + &sfx);
            g.count(&format!("zip.chain.{}{}", form, n));
            g.count(&format!("zip.chain.pre={}.post={}", pre.len(), post.len()));
            g.count(&format!("tensor.D={}", cur.len()));
            emit_tensor_ops(g, &cur, &zip_vias_marker(), g.thorough || n >= 3);
        }
    }
    // what the constructors refuse
    for header in [
        "@ stack 0.a tuple 2 a:2",                 // the new name is already in the sources
        "@ stack 3.s array 2 a:2",                 // position beyond the dimensions
        "@ chain b array a:1,b:2|a:2,b:1",         // another dimension differs
        "@ chain zz tuple a:1,b:2|a:1,b:1",        // unknown dimension
        "@ chain b tuple a:1,b:2|b:1,a:1",         // different dimension order
    ] {
        g.op(header.to_string());
        g.count("zip.rejected");
    }
}

/// larger sides and dimensionalities, so that any size-gated path would be exercised
fn gen_large_cases(g: &mut Gen) {
    let shapes: Vec<Vec<usize>> = vec![
        vec![2, 1, 3, 1, 9],
        vec![1, 2, 1, 2, 1, 12],
        vec![3, 1, 2, 2, 2, 2],
        vec![10, 1, 1, 1, 11],
        vec![1, 1, 12, 1, 1, 9],
        vec![9, 12],
        vec![12, 11, 2],
        vec![70],
        vec![2, 2, 2, 2, 2, 2],
    ];
    for lens in &shapes {
        let total: usize = lens.iter().product();
        g.op(format!("@ shape {}", show_usizes(lens)));
        g.op(format!("iter n={} via=shapeiter", total + 3));
        g.count("large.shape");
        let shape = named(g, lens);
        g.op(format!("@ tensor {}", show_shape(&shape)));
        g.count("large.tensor");
        g.count(&format!("tensor.D={}", shape.len()));
        emit_tensor_ops(g, &shape, &[], false);
        // and under a few adaptors
        let (ads, cur) = random_post(g, &shape, 2);
        if !ads.is_empty() {
            g.op(format!(
                "@ tensor {} {}",
                show_shape(&shape),
                ads.iter().map(show_tad).collect::<Vec<_>>().join(" ")
            ));
            g.count("large.tensor.view");
            emit_tensor_ops(g, &cur, &ads, false);
        }
    }
    for (rows, cols) in [(12usize, 12usize), (11, 12), (1, 70), (70, 1), (2, 35), (9, 10)] {
        g.op(format!("@ matrix {} {}", rows, cols));
        g.count("large.matrix");
        // whole-matrix iterators in every flavour; a sample of rows and columns
        let total = rows * cols;
        for k in ["rowmajor", "colmajor"] {
            for f in FLAVOURS {
                let wi = g.rng.chance(1, 2);
                let via = *g.rng.pick(&matrix_vias(&[], f));
                let w = wvia(g, wi);
                g.op(format!("iter k={} f={} wi={} n={} via={}{}", k, f, wi as u8, total + 3, via, w));
                g.count_n("matrix.records", (total + 3) as u64);
            }
        }
        for a in [0, rows / 2, rows - 1, rows] {
            let f = *g.rng.pick(&["copy", "ref", "mut"]);
            let via = *g.rng.pick(&matrix_vias(&[], f));
            g.op(format!("iter k=row a={} f={} wi=0 n={} via={}", a, f, cols + 3, via));
        }
        for a in [0, cols / 2, cols - 1, cols] {
            let f = *g.rng.pick(&["copy", "ref", "mut"]);
            let via = *g.rng.pick(&matrix_vias(&[], f));
            g.op(format!("iter k=col a={} f={} wi=0 n={} via={}", a, f, rows + 3, via));
        }
        g.op(format!("iter k=diag f=mut wi=0 n={} via=from", std::cmp::min(rows, cols) + 3));
        g.op(format!("left k=colmajor n={} via=from", total / 2));
        // a view into the middle of it
        g.op(format!("@ matrix {} {} range:1.{}.0.{} reverse:c", rows, cols, rows, cols.saturating_sub(1)));
        g.count("large.matrix.view");
        let (r, c) = (rows.saturating_sub(1), cols.saturating_sub(1));
        g.op(format!("iter k=rowmajor f=mut wi=1 n={} via=from", r * c + 3));
        g.op(format!("iter k=colmajor f=owned wi=1 n={} via=from_numeric", r * c + 3));
    }
}


fn probe_ops(g: &mut Gen, all: bool) {
    let mut ms = vec!["checked", "checked_mut", "unchecked", "unchecked_mut"];
    if !all {
        g.rng.shuffle(&mut ms);
        ms.truncate(1);
    }
    for m in ms {
        g.op(format!("probe m={} via=boxed", m));
        g.count(&format!("probe.{}", m));
    }
}

/// iterators over containers produced by another operation: in-place transposition /
/// reordering / reshaping of tensors, removal / insertion / transposition of matrix rows and
/// columns, data vectors with spare capacity
fn gen_producer_cases(g: &mut Gen) {
    let mut shapes: Vec<Vec<usize>> = shapes_up_to(3, 8).into_iter().filter(|l| l.len() >= 2).collect();
    shapes.extend([vec![2, 2], vec![3, 3], vec![4, 4], vec![2, 3, 2], vec![1, 5], vec![2, 2, 2, 2]]);
    for lens in shapes {
        let shape = named(g, &lens);
        let d = shape.len();
        let mut perms = permutations(d);
        if perms.len() > 2 && !g.thorough {
            g.rng.shuffle(&mut perms);
            perms.truncate(2);
        }
        for perm in perms {
            let names: Vec<&'static str> = perm.iter().map(|&p| shape[p].0).collect();
            for kind in ["transpose_mut", "reorder_mut"] {
                // the shape afterwards
                let cur: Vec<(&'static str, usize)> = if kind == "reorder_mut" {
                    perm.iter().map(|&p| shape[p]).collect()
                } else {
                    (0..d).map(|i| (shape[i].0, shape[perm[i]].1)).collect()
                };
                let cap = if g.rng.chance(1, 3) { format!(" prep:cap:{}", g.rng.range(1, 9)) } else { String::new() };
                let (ads, cur2) = if g.rng.chance(1, 3) { random_post(g, &cur, 1) } else { (vec![], cur.clone()) };
                let sfx = data_suffix(g, 1, 4);
                g.op(format!(
                    "@ tensor {}{} prep:{}:{}{}{}",
                    show_shape(&shape),
                    cap,
                    kind,
                    show_names(&names),
                    ads.iter().map(|a| format!(" {}", show_tad(a))).collect::<String>(),
                    sfx
                ));
                g.count(&format!("producer.tensor.{}", kind));
                let total: usize = cur2.iter().map(|s| s.1).product();
                if ads.is_empty() {
                    // the container's own iterators must follow the shape, not the history
                    for (f, via) in [("copy", "tensor"), ("ref", "tensor"), ("mut", "from"), ("owned", "tensor"), ("owned", "from")] {
                        let wi = g.rng.chance(1, 2);
                        let w = wvia(g, wi);
                        g.op(format!("iter f={} wi={} n={} via={}{}", f, wi as u8, total + 3, via, w));
                    }
                }
                emit_tensor_ops(g, &cur2, &ads, false);
                probe_ops(g, false);
            }
        }
        // reshaped in place, data vector with spare capacity
        let total: usize = lens.iter().product();
        let flat = vec![(wire_name("flat"), total)];
        let target: Vec<(&'static str, usize)> = if g.rng.chance(1, 2) || d != 2 {
            if d == 1 { shape.clone() } else { let mut t = shape.clone(); t.reverse(); t }
        } else {
            vec![(shape[0].0, shape[1].1), (shape[1].0, shape[0].1)]
        };
        let _ = flat;
        let spare = g.rng.range(1, 12);
        g.op(format!(
            "@ tensor {} prep:cap:{} prep:reshape_mut:{}",
            show_shape(&shape),
            spare,
            show_shape(&target).replace(':', "/")
        ));
        g.count("producer.tensor.reshape_mut+cap");
        emit_tensor_ops(g, &target, &[], false);
    }
    // matrices
    for rows in 1..=4usize {
        for cols in 1..=4usize {
            let n_hist = if g.thorough { 4 } else { 2 };
            for _ in 0..n_hist {
                let (mut r, mut c) = (rows, cols);
                let mut preps: Vec<String> = vec![];
                if g.rng.chance(1, 3) {
                    preps.push(format!("cap:{}", g.rng.range(1, 9)));
                }
                for _ in 0..g.rng.range(1, 3) {
                    match g.rng.below(5) {
                        0 if r > 1 => {
                            preps.push(format!("remove_row:{}", g.rng.below(r)));
                            r -= 1;
                        }
                        1 if c > 1 => {
                            preps.push(format!("remove_column:{}", g.rng.below(c)));
                            c -= 1;
                        }
                        2 => {
                            preps.push(format!("insert_row:{}", g.rng.below(r + 1)));
                            r += 1;
                        }
                        3 => {
                            preps.push(format!("insert_column:{}", g.rng.below(c + 1)));
                            c += 1;
                        }
                        _ => {
                            preps.push("transpose_mut".to_string());
                            std::mem::swap(&mut r, &mut c);
                        }
                    }
                }
                let mut ads: Vec<MAd> = vec![];
                let (mut vr, mut vc) = (r, c);
                if g.rng.chance(1, 3) {
                    let rs = g.rng.below(r);
                    let cs = g.rng.below(c);
                    let rl = g.rng.range(1, r - rs);
                    let cl = g.rng.range(1, c - cs);
                    ads.push(MAd::Range(rs, rl, cs, cl));
                    vr = rl;
                    vc = cl;
                }
                let sfx = data_suffix(g, 1, 4);
                g.op(format!(
                    "@ matrix {} {}{}{}{}",
                    rows,
                    cols,
                    preps.iter().map(|p| format!(" prep:{}", p)).collect::<String>(),
                    ads.iter().map(|a| format!(" {}", show_mad(a))).collect::<String>(),
                    sfx
                ));
                g.count("producer.matrix");
                for p in &preps {
                    g.count(&format!("producer.matrix.{}", p.split(':').next().unwrap()));
                }
                emit_matrix_ops(g, vr, vc, &ads, false);
            }
        }
    }
    // producers that refuse
    for h in ["@ matrix 2 2 prep:remove_row:5", "@ matrix 1 3 prep:remove_row:0", "@ tensor a:2,b:3 prep:transpose_mut:a,zz"] {
        g.op(h.to_string());
        g.count("producer.rejected");
    }
}

/// every tuple arity and array form of TensorStack / TensorChain, every flavour and every getter
fn gen_zip_forms_all_paths(g: &mut Gen) {
    for (form, n) in ZIP_FORMS {
        let names = if g.rng.chance(1, 2) { adversarial_names(&mut g.rng, 3) } else { vec![wire_name("a"), wire_name("b"), wire_name("s")] };
        // stack
        let shape = vec![(names[0], 2usize), (names[1], 1 + g.rng.below(2))];
        let pos = g.rng.below(3);
        let mut stacked = shape.clone();
        stacked.insert(pos, (names[2], n));
        g.op(format!("@ stack {}.{} {} {} {}", pos, names[2], form, n, show_shape(&shape)));
        g.count(&format!("zip.allpaths.stack.{}{}", form, n));
        emit_tensor_ops(g, &stacked, &zip_vias_marker(), true);
        probe_ops(g, true);
        // chain, sources of different lengths
        let lengths = [2usize, 1, 3, 1];
        let shapes: Vec<Vec<(&'static str, usize)>> =
            (0..n).map(|j| vec![(names[0], 2usize), (names[1], lengths[j])]).collect();
        let chained = vec![(names[0], 2usize), (names[1], lengths[..n].iter().sum())];
        g.op(format!(
            "@ chain {} {} {}",
            names[1],
            form,
            shapes.iter().map(|sh| show_shape(sh)).collect::<Vec<_>>().join("|")
        ));
        g.count(&format!("zip.allpaths.chain.{}{}", form, n));
        emit_tensor_ops(g, &chained, &zip_vias_marker(), true);
        probe_ops(g, true);
    }
}

/// every ordered pair of adaptor kinds (depth 2 in both nesting orders)
fn gen_adaptor_pairs(g: &mut Gen) {
    const KINDS: [&str; 6] = ["range", "reverse", "access", "transpose", "mask", "rename"];
    for k1 in 0..6 {
        for k2 in 0..6 {
            let shape = named(g, &[2, 3, 2]);
            let a1 = match tad_of_kind(g, &shape, k1) {
                Some(a) => a,
                None => continue,
            };
            let s1 = shape_after(&shape, &a1);
            let a2 = match tad_of_kind(g, &s1, k2) {
                Some(a) => a,
                None => continue,
            };
            let s2 = shape_after(&s1, &a2);
            let sfx = data_suffix(g, 1, 4);
            g.op(format!("@ tensor {} {} {}{}", show_shape(&shape), show_tad(&a1), show_tad(&a2), sfx));
            g.count(&format!("pairs.{}>{}", KINDS[k1], KINDS[k2]));
            emit_tensor_ops(g, &s2, &[a1, a2], g.thorough);
            probe_ops(g, g.thorough);
        }
    }
}


/// The API surface of the two files, systematically: every iterator type × every way of
/// making its with-index form (`with_index()`, `WithIndex::from`, `.into()`) × every state of
/// the iterator at that moment (fresh, advanced by every k, exhausted), `WithIndex::source()`
/// at every k, `ShapeIterator::clone` at every k, the `AsRecords` wrappers (whose `with_index`
/// converts the wrapped iterator with `.into()`), over small containers and every kind of empty
/// matrix view.
fn gen_api_surface(g: &mut Gen) {
    const ROUTES: [&str; 3] = ["", " wvia=into", " wvia=dotinto"];
    // tensors: TensorIterator, TensorReferenceIterator, TensorReferenceMutIterator,
    // TensorOwnedIterator (from / from_numeric)
    for lens in [vec![], vec![3], vec![2, 2], vec![1, 2, 2]] {
        let shape = named(g, &lens);
        let total: usize = lens.iter().product();
        g.op(format!("@ tensor {}", show_shape(&shape)));
        g.count("api.tensor");
        for (f, via) in [("copy", "boxed"), ("ref", "boxed"), ("mut", "boxed"), ("owned", "boxed"), ("owned", "boxed_numeric")] {
            for route in ROUTES {
                for k in 0..=total + 1 {
                    g.op(format!("iter f={} wi=1 conv={} n={} via={}{}", f, k, total + 3, via, route));
                    g.count("api.conv");
                }
            }
            for k in 0..=total + 1 {
                g.op(format!("iter f={} wi=1 split={} n={} via={}", f, k, total + 3, via));
                g.count("api.split");
            }
        }
        for route in ["", " wvia=into"] {
            for k in 0..=total + 1 {
                g.op(format!("iter f=copy wi=1 conv={} n={} via=asrecords{}", k, total + 3, route));
                g.count("api.asrecords");
            }
        }
        g.op(format!("iter f=copy wi=0 n={} via=asrecords", total + 3));
        g.op(format!("iter f=copy wi=1 n={} via=asrecords", total + 3));
    }
    // matrices: Row/ColumnMajor × Iterator / ReferenceIterator / ReferenceMutIterator /
    // OwnedIterator (from / from_numeric), over containers and empty views
    let cases: Vec<(usize, usize, &str, usize, usize)> = vec![
        (2, 2, "", 2, 2),
        (1, 3, "", 1, 3),
        (3, 1, "", 3, 1),
        (2, 3, " range:0.0.0.3", 0, 3),
        (2, 3, " range:0.2.1.0", 2, 0),
        (2, 2, " range:2.1.2.1", 0, 0),
    ];
    for (rows, cols, view, vr, vc) in cases {
        let total = vr * vc;
        g.op(format!("@ matrix {} {}{}", rows, cols, view));
        g.count("api.matrix");
        for kind in ["rowmajor", "colmajor"] {
            for (f, via) in [("copy", "from"), ("ref", "from"), ("mut", "from"), ("owned", "from"), ("owned", "from_numeric")] {
                for route in ROUTES {
                    for k in 0..=total + 1 {
                        g.op(format!("iter k={} f={} wi=1 conv={} n={} via={}{}", kind, f, k, total + 3, via, route));
                        g.count("api.conv");
                    }
                }
                for k in 0..=total + 1 {
                    g.op(format!("iter k={} f={} wi=1 split={} n={} via={}", kind, f, k, total + 3, via));
                    g.count("api.split");
                }
            }
            if view.is_empty() {
                for route in ["", " wvia=into"] {
                    for k in 0..=total + 1 {
                        g.op(format!("iter k={} f=copy wi=1 conv={} n={} via=asrecords{}", kind, k, total + 3, route));
                        g.count("api.asrecords");
                    }
                }
                g.op(format!("iter k={} f=copy wi=0 n={} via=asrecords", kind, total + 3));
                g.op(format!("iter k={} f=copy wi=1 n={} via=asrecords", kind, total + 3));
            }
        }
    }
    // ShapeIterator: Clone at every point
    for lens in [vec![], vec![3], vec![2, 2], vec![2, 0], vec![1, 2, 2]] {
        let total: usize = lens.iter().product();
        g.op(format!("@ shape {}", show_usizes(&lens)));
        for k in 0..=total + 1 {
            g.op(format!("iter n={} clone={} via=shapeiter", total + 3, k));
            g.count("api.clone");
        }
    }
}

pub fn gen(g: &mut Gen) {
    gen_shape_cases(g);
    gen_tensor_cases(g);
    gen_zip_cases(g);
    gen_api_surface(g);
    gen_zip_forms_all_paths(g);
    gen_adaptor_pairs(g);
    gen_producer_cases(g);
    gen_matrix_cases(g);
    gen_large_cases(g);
}

#[allow(unused)]
fn _unused() {
    let _ = with_d!(0usize, D => D);
}
