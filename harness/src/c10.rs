//! C10 — calls that are expected to panic followed by use of the surviving object, on tensors
//! and tensor views (matrices: C11), and the access log of the `verif-hooks` monitor compared
//! with the model's predicted leaf offsets.  See lean/Driver/C10.lean for the protocol.
//!
//! Every call runs under `catch_unwind(AssertUnwindSafe(..))`; afterwards the *same* object is
//! observed (shape, stored element count, elements through every iterator flavour, checked
//! indexing inside and outside the shape) and used by the following operations.

use crate::util::*;
use crate::with_d;
use easy_ml::matrices::slices::{Slice, Slice2D};
use easy_ml::matrices::iterators as mi;
use easy_ml::matrices::views::{
    DataLayout as MDataLayout, IndexRange as MIndexRange, MatrixMut, MatrixRange, MatrixRef, MatrixReverse, MatrixView,
    NoInteriorMutability, Reverse,
};
use easy_ml::matrices::Matrix;
use easy_ml::tensors::indexing::{
    TensorAccess, TensorIterator, TensorOwnedIterator, TensorReferenceIterator, TensorReferenceMutIterator,
};
use easy_ml::tensors::views::{
    DataLayout as TDataLayout, IndexRange, TensorChain, TensorIndex, TensorMask, TensorMut, TensorRange, TensorRef, TensorRename,
    TensorReverse, TensorStack, TensorView,
};
use easy_ml::tensors::Tensor;
use std::cell::Cell;

// ---------------------------------------------------------------------------------------------
// the caller's object: a tensor of run-time dimensionality
// ---------------------------------------------------------------------------------------------

pub enum AnyT {
    D0(Tensor<u64, 0>),
    D1(Tensor<u64, 1>),
    D2(Tensor<u64, 2>),
    D3(Tensor<u64, 3>),
    D4(Tensor<u64, 4>),
    D5(Tensor<u64, 5>),
    D6(Tensor<u64, 6>),
}

trait Wrap {
    fn wrap(self) -> AnyT;
}
macro_rules! impl_wrap {
    ($($d:literal $v:ident),*) => { $(impl Wrap for Tensor<u64, $d> { fn wrap(self) -> AnyT { AnyT::$v(self) } })* };
}
impl_wrap!(0 D0, 1 D1, 2 D2, 3 D3, 4 D4, 5 D5, 6 D6);

macro_rules! on_t {
    ($any:expr, $t:ident => $body:expr) => {
        match $any {
            AnyT::D0($t) => $body,
            AnyT::D1($t) => $body,
            AnyT::D2($t) => $body,
            AnyT::D3($t) => $body,
            AnyT::D4($t) => $body,
            AnyT::D5($t) => $body,
            AnyT::D6($t) => $body,
        }
    };
}

fn data(n: usize, base: u64) -> Vec<u64> {
    (0..n as u64).map(|i| base + i).collect()
}

/// the index code the with-index closures add (same as `Driver.C10.code`)
fn code(idx: &[usize]) -> u64 {
    idx.iter().fold(0u64, |a, i| a.wrapping_mul(7).wrapping_add(*i as u64).wrapping_add(1))
}

fn show_u64s(v: &[u64]) -> String {
    if v.is_empty() {
        "-".into()
    } else {
        v.iter().map(|x| x.to_string()).collect::<Vec<_>>().join(",")
    }
}

#[cfg(feature = "hooks")]
fn storage_len<const D: usize>(t: &Tensor<u64, D>) -> usize {
    t.verif_storage_len()
}
#[cfg(not(feature = "hooks"))]
fn storage_len<const D: usize>(t: &Tensor<u64, D>) -> usize {
    // `map` walks the stored elements directly
    let n = Cell::new(0usize);
    let _ = t.map(|x| {
        n.set(n.get() + 1);
        x
    });
    n.get()
}

/// How a call ended, for the part of the answer the property speaks about.
fn out_str(r: &Result<(), PanicKind>) -> &'static str {
    match r {
        Ok(()) => "ok",
        Err(PanicKind::Hook) => "panic(hook)",
        Err(_) => "panic",
    }
}

fn kind_str(r: &Result<(), PanicKind>) -> String {
    match r {
        Ok(()) => String::new(),
        Err(k) => format!(" ## kind={}", k.as_str()),
    }
}

/// The elements in iteration order, read with the requested iterator flavour.  Bounded, so a
/// corrupted object cannot make the harness loop or allocate without end.
fn read_data<const D: usize>(t: &mut Tensor<u64, D>, flavour: &str) -> String {
    let limit = storage_len(t).saturating_add(2).min(1 << 20);
    let r = catch(|| -> Vec<u64> {
        match flavour {
            "ref" => t.iter_reference().take(limit).cloned().collect(),
            "mut" => t.iter_reference_mut().take(limit).map(|x| *x).collect(),
            "owned" => t.clone().iter_owned().take(limit).collect(),
            "view" => TensorView::from(&*t).iter().take(limit).collect(),
            "wi" => t.iter().with_index().take(limit).map(|(_, x)| x).collect(),
            "access" => t.index().iter().take(limit).collect(),
            "refwi" => t.iter_reference().with_index().take(limit).map(|(_, x)| *x).collect(),
            _ => t.iter().take(limit).collect(),
        }
    });
    match r {
        Ok(v) => show_u64s(&v),
        Err(k) => panic_str(k),
    }
}

fn show_state<const D: usize>(t: &mut Tensor<u64, D>, flavour: &str) -> String {
    format!("shape={} len={} data={}", show_shape(&t.shape()), storage_len(t), read_data(t, flavour))
}

fn parse_panic_at(s: &str) -> Option<usize> {
    if s == "-" {
        None
    } else {
        Some(s.parse().expect("panic_at"))
    }
}

// ---------------------------------------------------------------------------------------------
// access log
// ---------------------------------------------------------------------------------------------

#[cfg(feature = "hooks")]
fn logged(expect_leaf: &str, f: impl FnOnce()) -> String {
    use easy_ml::verif_hooks::{start_log, take_log, Leaf};
    start_log();
    let r = catch(f);
    let log = take_log();
    if let Err(k) = r {
        return match k {
            PanicKind::Hook => "panic(hook)".to_string(),
            k => format!("panic ## kind={}", k.as_str()),
        };
    }
    let all_ok = log.iter().all(|a| a.ok && a.offset < a.len);
    let leaf = |l: &Leaf| match l {
        Leaf::Tensor => "tensor",
        Leaf::Matrix => "matrix",
        Leaf::MatrixPart => "matrixpart",
    };
    let kind = if log.iter().all(|a| leaf(&a.leaf) == expect_leaf) { expect_leaf } else { "MIXED-LEAVES" };
    let m = if log.iter().all(|a| a.mutable) && !log.is_empty() {
        "mut"
    } else if log.iter().all(|a| !a.mutable) {
        "imm"
    } else {
        "MIXED"
    };
    let len = log.first().map(|a| a.len);
    let same = log.iter().all(|a| Some(a.len) == len && a.base == log[0].base);
    let offs: Vec<String> = log.iter().map(|a| a.offset.to_string()).collect();
    format!(
        "accesses={} {} ## {} {} len={}{} offs={}",
        log.len(),
        if all_ok { "inbounds" } else { "OUT-OF-BOUNDS" },
        kind,
        m,
        len.map(|l| l.to_string()).unwrap_or_else(|| "0".into()),
        if same { "" } else { " SEVERAL-CONTAINERS" },
        if offs.is_empty() { "-".to_string() } else { offs.join(",") }
    )
}

#[cfg(not(feature = "hooks"))]
fn logged(_expect_leaf: &str, _f: impl FnOnce()) -> String {
    "no-hooks".to_string()
}

fn log_tensor<const D: usize>(t: &mut Tensor<u64, D>, flavour: &str, wi: bool) -> String {
    let limit = storage_len(t).saturating_add(2).min(1 << 20);
    match (flavour, wi) {
        ("copy", false) => logged("tensor", || t.iter().take(limit).for_each(drop)),
        ("copy", true) => logged("tensor", || t.iter().with_index().take(limit).for_each(drop)),
        ("ref", false) => logged("tensor", || t.iter_reference().take(limit).for_each(drop)),
        ("ref", true) => logged("tensor", || t.iter_reference().with_index().take(limit).for_each(drop)),
        ("mut", false) => logged("tensor", || t.iter_reference_mut().take(limit).for_each(drop)),
        ("mut", true) => logged("tensor", || t.iter_reference_mut().with_index().take(limit).for_each(drop)),
        ("owned", false) => {
            let c = t.clone();
            logged("tensor", || c.iter_owned().take(limit).for_each(drop))
        }
        ("owned", true) => {
            let c = t.clone();
            logged("tensor", || c.iter_owned().with_index().take(limit).for_each(drop))
        }
        _ => "bad-flavour".into(),
    }
}

fn log_access<const D: usize>(t: &mut Tensor<u64, D>, names: &[&'static str], flavour: &str) -> String {
    if names.len() != D {
        return "arity".into();
    }
    let names: [&'static str; D] = names_array(names);
    let limit = storage_len(t).saturating_add(2).min(1 << 20);
    // the constructor panics on a name list that is no ordering of the tensor's names
    if catch(|| {
        let _ = TensorAccess::from(&*t, names);
    })
    .is_err()
    {
        return "rejected".into();
    }
    match flavour {
        "copy" => logged("tensor", || TensorAccess::from(&*t, names).iter().take(limit).for_each(drop)),
        "ref" => logged("tensor", || TensorAccess::from(&*t, names).iter_reference().take(limit).for_each(drop)),
        "mut" => logged("tensor", || {
            TensorAccess::from(&mut *t, names).iter_reference_mut().take(limit).for_each(drop)
        }),
        "owned" => {
            let c = t.clone();
            logged("tensor", || {
                TensorOwnedIterator::from(TensorAccess::from(c, names)).take(limit).for_each(drop)
            })
        }
        _ => "bad-flavour".into(),
    }
}

/// iteration of the requested flavour over any (view) source
fn log_source<S: TensorMut<u64, D>, const D: usize>(mut v: S, flavour: &str, limit: usize) -> String {
    match flavour {
        "copy" => logged("tensor", || TensorIterator::from(&v).take(limit).for_each(drop)),
        "ref" => logged("tensor", || TensorReferenceIterator::from(&v).take(limit).for_each(drop)),
        "mut" => logged("tensor", || TensorReferenceMutIterator::from(&mut v).take(limit).for_each(drop)),
        "owned" => logged("tensor", || TensorOwnedIterator::from(v).take(limit).for_each(drop)),
        _ => "bad-flavour".into(),
    }
}

/// `range:<name>.<start>.<len>` | `mask:<name>.<start>.<len>` | `reverse:<name>` over the tensor
fn log_view<const D: usize>(t: &mut Tensor<u64, D>, adaptor: &str, flavour: &str) -> String {
    let limit = storage_len(t).saturating_add(2).min(1 << 20);
    let (kind, spec) = adaptor.split_once(':').expect("adaptor");
    // the owning iterator leaves placeholders behind: it gets a clone
    let mut copy;
    let target: &mut Tensor<u64, D> = if flavour == "owned" {
        copy = t.clone();
        &mut copy
    } else {
        t
    };
    let shape = target.shape();
    match kind {
        "range" | "mask" => {
            let parts: Vec<&str> = spec.split('.').collect();
            let name = intern(parts[0]);
            let (start, len): (usize, usize) = (parts[1].parse().unwrap(), parts[2].parse().unwrap());
            let mut all: [Option<IndexRange>; D] = std::array::from_fn(|_| None);
            match shape.iter().position(|d| d.0 == name) {
                Some(d) => all[d] = Some(IndexRange::new(start, len)),
                None => return "rejected".into(),
            }
            if kind == "range" {
                match catch(|| TensorRange::from_all(&mut *target, all).ok()) {
                    Ok(Some(v)) => log_source(v, flavour, limit),
                    Ok(None) => "rejected".into(),
                    Err(k) => panic_str(k),
                }
            } else {
                match catch(|| TensorMask::from_all(&mut *target, all).ok()) {
                    Ok(Some(v)) => log_source(v, flavour, limit),
                    Ok(None) => "rejected".into(),
                    Err(k) => panic_str(k),
                }
            }
        }
        "reverse" => {
            let name = intern(spec);
            match catch(|| TensorReverse::from(&mut *target, &[name])) {
                Ok(v) => log_source(v, flavour, limit),
                Err(PanicKind::Explicit) => "rejected".into(),
                Err(k) => panic_str(k),
            }
        }
        _ => "bad-adaptor".into(),
    }
}

/// `index:<name>.<i>`: `TensorIndex::from(&mut tensor, [(name, i)])` (what `select` builds), one
/// dimension fewer — the constructor must reject `i >= length` before any element is touched
fn log_index(any: &mut AnyT, spec: &str, flavour: &str) -> String {
    let (name, i) = spec.split_once('.').expect("name.index");
    let name = intern(name);
    let i: usize = i.parse().expect("index");
    macro_rules! body {
        ($t:ident, $d1:literal) => {{
            let limit = storage_len($t).saturating_add(2).min(1 << 20);
            let mut copy;
            let target = if flavour == "owned" {
                copy = $t.clone();
                &mut copy
            } else {
                $t
            };
            match catch(|| TensorIndex::from(&mut *target, [(name, i)])) {
                Ok(v) => log_source::<_, $d1>(v, flavour, limit),
                Err(PanicKind::Explicit) => "rejected".into(),
                Err(k) => panic_str(k),
            }
        }};
    }
    match any {
        AnyT::D0(_) => "rejected".into(),
        AnyT::D1(t) => body!(t, 0),
        AnyT::D2(t) => body!(t, 1),
        AnyT::D3(t) => body!(t, 2),
        AnyT::D4(t) => body!(t, 3),
        AnyT::D5(t) => body!(t, 4),
        AnyT::D6(t) => body!(t, 5),
    }
}

/// `TensorRename::from(&mut t, from)`, then `set_names(set)` under `catch_unwind`, then the view
/// that survived is indexed by `req` (`TensorAccess::from`) and iterated
fn log_rename<const D: usize>(
    t: &mut Tensor<u64, D>,
    from: &[&'static str],
    set: &[&'static str],
    req: &[&'static str],
    flavour: &str,
) -> String {
    if from.len() != D || set.len() != D || req.len() != D {
        return "arity".into();
    }
    let limit = storage_len(t).saturating_add(2).min(1 << 20);
    let (from, set, req): ([&'static str; D], [&'static str; D], [&'static str; D]) =
        (names_array(from), names_array(set), names_array(req));
    let mut copy;
    let target = if flavour == "owned" {
        copy = t.clone();
        &mut copy
    } else {
        t
    };
    let mut view = match catch(|| TensorRename::from(&mut *target, from)) {
        Ok(v) => v,
        Err(PanicKind::Explicit) => return "rejected".into(),
        Err(k) => return panic_str(k),
    };
    let set_result = catch(|| view.set_names(set));
    let head = format!(
        "set={} names={}",
        match set_result {
            Ok(()) => "ok".to_string(),
            Err(PanicKind::Explicit) => "panic".to_string(),
            Err(k) => panic_str(k),
        },
        show_names(&view.view_shape().iter().map(|d| d.0).collect::<Vec<_>>())
    );
    match catch(move || TensorAccess::from(view, req)) {
        Ok(a) => format!("{} {}", head, log_source(a, flavour, limit)),
        Err(PanicKind::Explicit) => format!("{} access=rejected", head),
        Err(k) => format!("{} {}", head, panic_str(k)),
    }
}

// ---------------------------------------------------------------------------------------------
// stack / chain views over several mutable tensors: accesses as <source>:<offset>
// ---------------------------------------------------------------------------------------------

#[cfg(feature = "hooks")]
fn base_of<const D: usize>(t: &Tensor<u64, D>) -> usize {
    use easy_ml::verif_hooks::{start_log, take_log};
    start_log();
    let _ = t.iter().next();
    take_log().first().map(|a| a.base).unwrap_or(0)
}

#[cfg(feature = "hooks")]
fn logged_multi(bases: &[usize], lens: &[usize], f: impl FnOnce()) -> String {
    use easy_ml::verif_hooks::{start_log, take_log};
    start_log();
    let r = catch(f);
    let log = take_log();
    if let Err(k) = r {
        return match k {
            PanicKind::Hook => "panic(hook)".to_string(),
            k => format!("panic ## kind={}", k.as_str()),
        };
    }
    let all_ok = log.iter().all(|a| a.ok && a.offset < a.len);
    let m = if log.iter().all(|a| a.mutable) && !log.is_empty() {
        "mut"
    } else if log.iter().all(|a| !a.mutable) {
        "imm"
    } else {
        "MIXED"
    };
    let offs: Vec<String> = log
        .iter()
        .map(|a| match bases.iter().position(|b| *b == a.base) {
            Some(i) => format!("{}:{}", i, a.offset),
            None => format!("?:{}", a.offset),
        })
        .collect();
    format!(
        "accesses={} {} ## tensor {} lens={} offs={}",
        log.len(),
        if all_ok { "inbounds" } else { "OUT-OF-BOUNDS" },
        m,
        show_usizes(lens),
        if offs.is_empty() { "-".to_string() } else { offs.join(",") }
    )
}

#[cfg(not(feature = "hooks"))]
fn base_of<const D: usize>(_t: &Tensor<u64, D>) -> usize {
    0
}
#[cfg(not(feature = "hooks"))]
fn logged_multi(_bases: &[usize], _lens: &[usize], _f: impl FnOnce()) -> String {
    "no-hooks".to_string()
}

/// the requested iteration flavour or in-place map over a (stack / chain) view
fn act_on_view<S: TensorMut<u64, D>, const D: usize>(
    mut v: S,
    action: &str,
    limit: usize,
    bases: &[usize],
    lens: &[usize],
) -> String {
    match action {
        "copy" => logged_multi(bases, lens, || TensorIterator::from(&v).take(limit).for_each(drop)),
        "ref" => logged_multi(bases, lens, || TensorReferenceIterator::from(&v).take(limit).for_each(drop)),
        "mut" => logged_multi(bases, lens, || TensorReferenceMutIterator::from(&mut v).take(limit).for_each(drop)),
        "owned" => logged_multi(bases, lens, || TensorOwnedIterator::from(v).take(limit).for_each(drop)),
        "map_mut" => logged_multi(bases, lens, || TensorView::from(v).map_mut(|x| x.wrapping_add(1))),
        "map_mut_wi" => logged_multi(bases, lens, || {
            TensorView::from(v).map_mut_with_index(|idx, x| x.wrapping_add(code(&idx)))
        }),
        _ => "bad-action".into(),
    }
}

fn built<V>(r: Result<V, PanicKind>) -> Result<V, String> {
    match r {
        Ok(v) => Ok(v),
        Err(PanicKind::Explicit) => Err("rejected".into()),
        Err(k) => Err(panic_str(k)),
    }
}

/// `@ zlog <chain|stack> <tuple|array> <along> <action> <shape>;<shape>;…`
fn zlog(kind: &str, form: &str, along: &str, action: &str, shapes: &[Vec<(&'static str, usize)>]) -> String {
    let d = shapes[0].len();
    if shapes.iter().any(|s| s.len() != d) {
        return "rejected".into();
    }
    let k = shapes.len();
    macro_rules! go {
        ($D:ident, $DV:expr, $make2:expr, $make3:expr, $make4:expr, $makea1:expr, $makea2:expr, $makea3:expr, $makea4:expr) => {{
            // the sources: tensors with the values 0.. (every one of them held mutably by the view)
            let mut ts: Vec<Tensor<u64, $D>> = vec![];
            for (i, sh) in shapes.iter().enumerate() {
                let n: usize = sh.iter().map(|x| x.1).product();
                match catch(|| Tensor::<u64, $D>::from(shape_array(sh), data(n, 1000 * i as u64))) {
                    Ok(t) => ts.push(t),
                    Err(_) => return "rejected".into(),
                }
            }
            let bases: Vec<usize> = ts.iter().map(|t| base_of(t)).collect();
            let lens: Vec<usize> = ts.iter().map(|t| storage_len(t)).collect();
            let limit = lens.iter().sum::<usize>().saturating_add(2);
            let mut it = ts.iter_mut();
            match (form, k) {
                ("tuple", 2) => {
                    let s = (it.next().unwrap(), it.next().unwrap());
                    match built(catch(|| $make2(s))) {
                        Ok(v) => act_on_view::<_, { $DV }>(v, action, limit, &bases, &lens),
                        Err(e) => e,
                    }
                }
                ("tuple", 3) => {
                    let s = (it.next().unwrap(), it.next().unwrap(), it.next().unwrap());
                    match built(catch(|| $make3(s))) {
                        Ok(v) => act_on_view::<_, { $DV }>(v, action, limit, &bases, &lens),
                        Err(e) => e,
                    }
                }
                ("tuple", 4) => {
                    let s = (it.next().unwrap(), it.next().unwrap(), it.next().unwrap(), it.next().unwrap());
                    match built(catch(|| $make4(s))) {
                        Ok(v) => act_on_view::<_, { $DV }>(v, action, limit, &bases, &lens),
                        Err(e) => e,
                    }
                }
                ("array", 1) => {
                    let s = [it.next().unwrap()];
                    match built(catch(|| $makea1(s))) {
                        Ok(v) => act_on_view::<_, { $DV }>(v, action, limit, &bases, &lens),
                        Err(e) => e,
                    }
                }
                ("array", 2) => {
                    let s = [it.next().unwrap(), it.next().unwrap()];
                    match built(catch(|| $makea2(s))) {
                        Ok(v) => act_on_view::<_, { $DV }>(v, action, limit, &bases, &lens),
                        Err(e) => e,
                    }
                }
                ("array", 3) => {
                    let s = [it.next().unwrap(), it.next().unwrap(), it.next().unwrap()];
                    match built(catch(|| $makea3(s))) {
                        Ok(v) => act_on_view::<_, { $DV }>(v, action, limit, &bases, &lens),
                        Err(e) => e,
                    }
                }
                ("array", 4) => {
                    let s = [it.next().unwrap(), it.next().unwrap(), it.next().unwrap(), it.next().unwrap()];
                    match built(catch(|| $makea4(s))) {
                        Ok(v) => act_on_view::<_, { $DV }>(v, action, limit, &bases, &lens),
                        Err(e) => e,
                    }
                }
                _ => "bad-form".into(),
            }
        }};
    }
    if kind == "chain" {
        let along = intern(along);
        macro_rules! chain_d {
            ($n:literal) => {{
                const D: usize = $n;
                go!(
                    D,
                    D,
                    |s| TensorChain::<u64, (_, _), D>::from(s, along),
                    |s| TensorChain::<u64, (_, _, _), D>::from(s, along),
                    |s| TensorChain::<u64, (_, _, _, _), D>::from(s, along),
                    |s| TensorChain::<u64, [_; 1], D>::from(s, along),
                    |s| TensorChain::<u64, [_; 2], D>::from(s, along),
                    |s| TensorChain::<u64, [_; 3], D>::from(s, along),
                    |s| TensorChain::<u64, [_; 4], D>::from(s, along)
                )
            }};
        }
        match d {
            1 => chain_d!(1),
            2 => chain_d!(2),
            3 => chain_d!(3),
            _ => "rejected".into(),
        }
    } else {
        let (pos, name) = along.split_once(':').expect("pos:name");
        let along: (usize, &'static str) = (pos.parse().expect("pos"), intern(name));
        macro_rules! stack_d {
            ($n:literal) => {{
                const D: usize = $n;
                go!(
                    D,
                    D + 1,
                    |s| TensorStack::<u64, (_, _), D>::from(s, along),
                    |s| TensorStack::<u64, (_, _, _), D>::from(s, along),
                    |s| TensorStack::<u64, (_, _, _, _), D>::from(s, along),
                    |s| TensorStack::<u64, [_; 1], D>::from(s, along),
                    |s| TensorStack::<u64, [_; 2], D>::from(s, along),
                    |s| TensorStack::<u64, [_; 3], D>::from(s, along),
                    |s| TensorStack::<u64, [_; 4], D>::from(s, along)
                )
            }};
        }
        match d {
            0 => stack_d!(0),
            1 => stack_d!(1),
            2 => stack_d!(2),
            _ => "rejected".into(),
        }
    }
}

// ---------------------------------------------------------------------------------------------
// probe sources: leaf containers written in the harness that record every unchecked access and
// refuse (panic with the monitor's prefix) any that is outside the shape they reported — so an
// adaptor or iterator that calls an unchecked getter out of contract is seen even when no leaf of
// the library is reached (e.g. on an empty view, where there is no element to reach)
// ---------------------------------------------------------------------------------------------

thread_local! {
    /// (offset or position code, mutable) of every unchecked access made to a probe
    static PROBE_LOG: std::cell::RefCell<Vec<(usize, bool)>> = const { std::cell::RefCell::new(Vec::new()) };
}

fn probe_record(offset: usize, mutable: bool) {
    PROBE_LOG.with(|l| l.borrow_mut().push((offset, mutable)));
}

pub struct ProbeM {
    rows: usize,
    cols: usize,
    data: Vec<u64>,
}

impl ProbeM {
    fn new(rows: usize, cols: usize) -> ProbeM {
        ProbeM { rows, cols, data: (0..(rows * cols) as u64).collect() }
    }
}

// Safety: the probe has no interior mutability (its log lives outside it) and answers every
// in-shape index; an out-of-shape unchecked access panics instead of being undefined.
unsafe impl NoInteriorMutability for ProbeM {}
unsafe impl MatrixRef<u64> for ProbeM {
    fn try_get_reference(&self, row: usize, column: usize) -> Option<&u64> {
        if row < self.rows && column < self.cols { self.data.get(row * self.cols + column) } else { None }
    }
    fn view_rows(&self) -> usize {
        self.rows
    }
    fn view_columns(&self) -> usize {
        self.cols
    }
    unsafe fn get_reference_unchecked(&self, row: usize, column: usize) -> &u64 {
        if !(row < self.rows && column < self.cols) {
            panic!("VERIF-HOOK probe: unchecked access ({}, {}) outside the reported size {}x{}", row, column, self.rows, self.cols);
        }
        probe_record(row * self.cols + column, false);
        &self.data[row * self.cols + column]
    }
    fn data_layout(&self) -> MDataLayout {
        MDataLayout::RowMajor
    }
}
unsafe impl MatrixMut<u64> for ProbeM {
    fn try_get_reference_mut(&mut self, row: usize, column: usize) -> Option<&mut u64> {
        if row < self.rows && column < self.cols { self.data.get_mut(row * self.cols + column) } else { None }
    }
    unsafe fn get_reference_unchecked_mut(&mut self, row: usize, column: usize) -> &mut u64 {
        if !(row < self.rows && column < self.cols) {
            panic!("VERIF-HOOK probe: unchecked mutable access ({}, {}) outside the reported size {}x{}", row, column, self.rows, self.cols);
        }
        probe_record(row * self.cols + column, true);
        &mut self.data[row * self.cols + column]
    }
}

pub struct ProbeT<const D: usize> {
    shape: [(&'static str, usize); D],
    data: Vec<u64>,
}

impl<const D: usize> ProbeT<D> {
    fn new(shape: [(&'static str, usize); D]) -> ProbeT<D> {
        let n: usize = shape.iter().map(|d| d.1).product();
        ProbeT { shape, data: (0..n as u64).collect() }
    }
    fn offset(&self, indexes: &[usize; D]) -> Option<usize> {
        let mut o = 0;
        for d in 0..D {
            if indexes[d] >= self.shape[d].1 {
                return None;
            }
            o = o * self.shape[d].1 + indexes[d];
        }
        Some(o)
    }
}

unsafe impl<const D: usize> TensorRef<u64, D> for ProbeT<D> {
    fn get_reference(&self, indexes: [usize; D]) -> Option<&u64> {
        self.offset(&indexes).and_then(|o| self.data.get(o))
    }
    fn view_shape(&self) -> [(&'static str, usize); D] {
        self.shape
    }
    unsafe fn get_reference_unchecked(&self, indexes: [usize; D]) -> &u64 {
        match self.offset(&indexes) {
            Some(o) => {
                probe_record(o, false);
                &self.data[o]
            }
            None => panic!("VERIF-HOOK probe: unchecked access {:?} outside the reported shape {:?}", indexes, self.shape),
        }
    }
    fn data_layout(&self) -> TDataLayout<D> {
        TDataLayout::Linear(std::array::from_fn(|d| self.shape[d].0))
    }
}
unsafe impl<const D: usize> TensorMut<u64, D> for ProbeT<D> {
    fn get_reference_mut(&mut self, indexes: [usize; D]) -> Option<&mut u64> {
        match self.offset(&indexes) {
            Some(o) => self.data.get_mut(o),
            None => None,
        }
    }
    unsafe fn get_reference_unchecked_mut(&mut self, indexes: [usize; D]) -> &mut u64 {
        match self.offset(&indexes) {
            Some(o) => {
                probe_record(o, true);
                &mut self.data[o]
            }
            None => panic!("VERIF-HOOK probe: unchecked mutable access {:?} outside the reported shape {:?}", indexes, self.shape),
        }
    }
}

/// runs `f`, answers in the format of `logged` from the probe's own log
fn probe_logged(len: usize, expect_mut: bool, f: impl FnOnce()) -> String {
    PROBE_LOG.with(|l| l.borrow_mut().clear());
    let r = catch(f);
    let log: Vec<(usize, bool)> = PROBE_LOG.with(|l| std::mem::take(&mut *l.borrow_mut()));
    if let Err(k) = r {
        return match k {
            PanicKind::Hook => "panic(hook)".to_string(),
            k => format!("panic ## kind={}", k.as_str()),
        };
    }
    let m = if log.is_empty() {
        if expect_mut { "mut" } else { "imm" }
    } else if log.iter().all(|a| a.1) {
        "mut"
    } else if log.iter().all(|a| !a.1) {
        "imm"
    } else {
        "MIXED"
    };
    let offs: Vec<String> = log.iter().map(|a| a.0.to_string()).collect();
    format!(
        "accesses={} {} ## probe {} len={} offs={}",
        log.len(),
        if log.iter().all(|a| a.0 < len) { "inbounds" } else { "OUT-OF-BOUNDS" },
        m,
        len,
        if offs.is_empty() { "-".to_string() } else { offs.join(",") }
    )
}

/// every iterator constructor of src/matrices/iterators.rs over any source
fn matrix_ctor<S: MatrixMut<u64> + NoInteriorMutability>(mut v: S, order: &str, flavour: &str, via: &str, len: usize) -> String {
    let limit = len + 2;
    let expect_mut = matches!(flavour, "mut" | "owned" | "owned_numeric");
    let (what, arg) = match order.split_once(':') {
        Some((w, a)) => (w, a.parse::<usize>().expect("line index")),
        None => (order, 0),
    };
    macro_rules! run {
        ($make:expr) => {
            probe_logged(len, expect_mut, || match via {
                "with_index" => $make.with_index().take(limit).for_each(drop),
                "from_with_index" => mi::WithIndex::from($make).take(limit).for_each(drop),
                _ => $make.take(limit).for_each(drop),
            })
        };
    }
    macro_rules! line {
        ($make:expr) => {{
            // the constructor asserts that the row / column exists
            if catch(|| { let _ = $make; }).is_err() {
                return "rejected".into();
            }
            probe_logged(len, expect_mut, || $make.take(limit).for_each(drop))
        }};
    }
    match (what, flavour) {
        ("row_major", "copy") => run!(mi::RowMajorIterator::from(&v)),
        ("row_major", "ref") => run!(mi::RowMajorReferenceIterator::from(&v)),
        ("row_major", "mut") => run!(mi::RowMajorReferenceMutIterator::from(&mut v)),
        ("row_major", "owned") => run!(mi::RowMajorOwnedIterator::from(v)),
        ("row_major", "owned_numeric") => run!(mi::RowMajorOwnedIterator::from_numeric(v)),
        ("column_major", "copy") => run!(mi::ColumnMajorIterator::from(&v)),
        ("column_major", "ref") => run!(mi::ColumnMajorReferenceIterator::from(&v)),
        ("column_major", "mut") => run!(mi::ColumnMajorReferenceMutIterator::from(&mut v)),
        ("column_major", "owned") => run!(mi::ColumnMajorOwnedIterator::from(v)),
        ("column_major", "owned_numeric") => run!(mi::ColumnMajorOwnedIterator::from_numeric(v)),
        ("row", "copy") => line!(mi::RowIterator::from(&v, arg)),
        ("row", "ref") => line!(mi::RowReferenceIterator::from(&v, arg)),
        ("row", "mut") => line!(mi::RowReferenceMutIterator::from(&mut v, arg)),
        ("column", "copy") => line!(mi::ColumnIterator::from(&v, arg)),
        ("column", "ref") => line!(mi::ColumnReferenceIterator::from(&v, arg)),
        ("column", "mut") => line!(mi::ColumnReferenceMutIterator::from(&mut v, arg)),
        ("diagonal", "copy") => line!(mi::DiagonalIterator::from(&v)),
        ("diagonal", "ref") => line!(mi::DiagonalReferenceIterator::from(&v)),
        ("diagonal", "mut") => line!(mi::DiagonalReferenceMutIterator::from(&mut v)),
        _ => "bad-flavour".into(),
    }
}

/// `@ piter <rows> <cols> <adaptor|-> <order> <flavour> via=…`: probe matrix (sizes with zeros allowed)
fn piter(rows: usize, cols: usize, adaptor: &str, order: &str, flavour: &str, via: &str) -> String {
    let probe = ProbeM::new(rows, cols);
    let len = rows * cols;
    match adaptor.split_once(':') {
        None => matrix_ctor(probe, order, flavour, via, len),
        Some(("range", spec)) => {
            let p: Vec<usize> = spec.split('.').map(|x| x.parse().expect("range")).collect();
            matrix_ctor(MatrixRange::from(probe, MIndexRange::new(p[0], p[1]), MIndexRange::new(p[2], p[3])), order, flavour, via, len)
        }
        Some(("reverse", spec)) => matrix_ctor(
            MatrixReverse::from(probe, Reverse { rows: spec.contains('r'), columns: spec.contains('c') }),
            order, flavour, via, len,
        ),
        _ => "bad-adaptor".into(),
    }
}

/// every iterator constructor of src/tensors/indexing.rs over any source
fn tensor_ctor<S: TensorMut<u64, D>, const D: usize>(mut v: S, flavour: &str, via: &str, len: usize) -> String {
    let limit = len + 2;
    let expect_mut = matches!(flavour, "mut" | "owned" | "owned_numeric");
    macro_rules! run {
        ($make:expr) => {
            probe_logged(len, expect_mut, || match via {
                "with_index" => $make.with_index().take(limit).for_each(drop),
                "from_with_index" => easy_ml::tensors::indexing::WithIndex::from($make).take(limit).for_each(drop),
                _ => $make.take(limit).for_each(drop),
            })
        };
    }
    match flavour {
        "copy" => run!(TensorIterator::from(&v)),
        "ref" => run!(TensorReferenceIterator::from(&v)),
        "mut" => run!(TensorReferenceMutIterator::from(&mut v)),
        "owned" => run!(TensorOwnedIterator::from(v)),
        "owned_numeric" => run!(TensorOwnedIterator::from_numeric(v)),
        _ => "bad-flavour".into(),
    }
}

/// `@ pten <shape> <adaptor|-> <flavour> via=…`: probe tensor, optionally behind one adaptor
fn pten(shape: &[(&'static str, usize)], adaptor: &str, flavour: &str, via: &str) -> String {
    with_d!(shape.len(), D => {
        let probe = ProbeT::<D>::new(shape_array(shape));
        let len = probe.data.len();
        match adaptor.split_once(':') {
            None => tensor_ctor(probe, flavour, via, len),
            Some((kind, spec)) if kind == "range" || kind == "mask" => {
                let parts: Vec<&str> = spec.split('.').collect();
                let name = intern(parts[0]);
                let (start, l): (usize, usize) = (parts[1].parse().unwrap(), parts[2].parse().unwrap());
                let mut all: [Option<IndexRange>; D] = std::array::from_fn(|_| None);
                match shape.iter().position(|d| d.0 == name) {
                    Some(d) => all[d] = Some(IndexRange::new(start, l)),
                    None => return "rejected".into(),
                }
                if kind == "range" {
                    match catch(|| TensorRange::from_all(probe, all).ok()) {
                        Ok(Some(v)) => tensor_ctor(v, flavour, via, len),
                        Ok(None) => "rejected".into(),
                        Err(k) => panic_str(k),
                    }
                } else {
                    match catch(|| TensorMask::from_all(probe, all).ok()) {
                        Ok(Some(v)) => tensor_ctor(v, flavour, via, len),
                        Ok(None) => "rejected".into(),
                        Err(k) => panic_str(k),
                    }
                }
            }
            Some(("reverse", spec)) => match catch(|| TensorReverse::from(probe, &[intern(spec)])) {
                Ok(v) => tensor_ctor(v, flavour, via, len),
                Err(PanicKind::Explicit) => "rejected".into(),
                Err(k) => panic_str(k),
            },
            Some(("access", spec)) => {
                let names = parse_names(spec);
                if names.len() != D {
                    return "rejected".into();
                }
                match catch(|| TensorAccess::try_from(probe, names_array::<D>(&names)).ok()) {
                    Ok(Some(v)) => tensor_ctor(v, flavour, via, len),
                    Ok(None) => "rejected".into(),
                    Err(k) => panic_str(k),
                }
            }
            _ => "bad-adaptor".into(),
        }
    })
}

fn log_matrix(rows: usize, cols: usize, order: &str, flavour: &str) -> String {
    let m = match catch(|| Matrix::from_flat_row_major((rows, cols), (0..(rows * cols) as u64).collect())) {
        Ok(m) => m,
        Err(_) => return "rejected".into(),
    };
    let mut m = m;
    let limit = rows * cols + 2;
    let (what, arg) = match order.split_once(':') {
        Some((w, a)) => (w, a.parse::<usize>().expect("line index")),
        None => (order, 0),
    };
    // the line iterators' constructors assert that the row / column exists
    let valid = match what {
        "row" => catch(|| {
            let _ = m.row_iter(arg);
        })
        .is_ok(),
        "column" => catch(|| {
            let _ = m.column_iter(arg);
        })
        .is_ok(),
        _ => true,
    };
    if !valid {
        return "rejected".into();
    }
    match (what, flavour) {
        ("row_major", "copy") => logged("matrix", || m.row_major_iter().take(limit).for_each(drop)),
        ("row_major", "ref") => logged("matrix", || m.row_major_reference_iter().take(limit).for_each(drop)),
        ("row_major", "mut") => logged("matrix", || m.row_major_reference_mut_iter().take(limit).for_each(drop)),
        ("row_major", "owned") => logged("matrix", || m.row_major_owned_iter().take(limit).for_each(drop)),
        ("column_major", "copy") => logged("matrix", || m.column_major_iter().take(limit).for_each(drop)),
        ("column_major", "ref") => logged("matrix", || m.column_major_reference_iter().take(limit).for_each(drop)),
        ("column_major", "mut") => {
            logged("matrix", || m.column_major_reference_mut_iter().take(limit).for_each(drop))
        }
        ("column_major", "owned") => logged("matrix", || m.column_major_owned_iter().take(limit).for_each(drop)),
        ("row", "copy") => logged("matrix", || m.row_iter(arg).take(limit).for_each(drop)),
        ("row", "ref") => logged("matrix", || m.row_reference_iter(arg).take(limit).for_each(drop)),
        ("row", "mut") => logged("matrix", || m.row_reference_mut_iter(arg).take(limit).for_each(drop)),
        ("column", "copy") => logged("matrix", || m.column_iter(arg).take(limit).for_each(drop)),
        ("column", "ref") => logged("matrix", || m.column_reference_iter(arg).take(limit).for_each(drop)),
        ("column", "mut") => logged("matrix", || m.column_reference_mut_iter(arg).take(limit).for_each(drop)),
        ("diagonal", "copy") => logged("matrix", || m.diagonal_iter().take(limit).for_each(drop)),
        ("diagonal", "ref") => logged("matrix", || m.diagonal_reference_iter().take(limit).for_each(drop)),
        ("diagonal", "mut") => logged("matrix", || m.diagonal_reference_mut_iter().take(limit).for_each(drop)),
        _ => "bad-flavour".into(),
    }
}

#[cfg(feature = "hooks")]
fn matrix_len(m: &Matrix<u64>) -> usize {
    m.verif_storage_len()
}
#[cfg(not(feature = "hooks"))]
fn matrix_len(m: &Matrix<u64>) -> usize {
    let n = Cell::new(0usize);
    let _ = m.map(|x| {
        n.set(n.get() + 1);
        x
    });
    n.get()
}

fn show_matrix_result(r: Result<Matrix<u64>, PanicKind>) -> String {
    match r {
        Ok(m) => {
            // use the object: a bounded walk over its elements (an unchecked access per item)
            let (rows, cols) = m.size();
            let len = matrix_len(&m);
            let used = match catch(|| m.row_major_iter().take(len.saturating_add(2).min(1 << 20)).count()) {
                Ok(n) => n.to_string(),
                Err(k) => panic_str(k),
            };
            format!("ok {}x{} len={} use={}", rows, cols, len, used)
        }
        Err(PanicKind::Hook) => "panic(hook)".into(),
        Err(k) => format!("panic ## kind={}", k.as_str()),
    }
}

// ---------------------------------------------------------------------------------------------
// operations on the caller's tensor
// ---------------------------------------------------------------------------------------------

/// Tensor::from / try_from at a run-time dimensionality: Ok(Some) accepted, Ok(None) `Err`
fn construct(shape: &[(&'static str, usize)], n: usize, base: u64, fallible: bool) -> Result<Option<AnyT>, PanicKind> {
    with_d!(shape.len(), D => {
        let sh: [(&'static str, usize); D] = shape_array(shape);
        if fallible {
            catch(|| Tensor::<u64, D>::try_from(sh, data(n, base)).ok().map(|t| t.wrap()))
        } else {
            catch(|| Some(Tensor::<u64, D>::from(sh, data(n, base)).wrap()))
        }
    })
}

/// What an operation did: how the call ended and, if it produced a new object, the replacement.
struct Done {
    out: Result<(), PanicKind>,
    err: bool,
    replace: Option<AnyT>,
}

fn done(out: Result<(), PanicKind>) -> Done {
    Done { out, err: false, replace: None }
}

fn mutate<const D: usize>(t: &mut Tensor<u64, D>, toks: &[&str]) -> Done
where
    Tensor<u64, D>: Wrap,
{
    let via = opt_arg("via", toks).unwrap_or("");
    match toks[0] {
        "reshape_mut" => {
            let shape = parse_shape(toks[1]);
            if shape.len() != D {
                return Done { out: Ok(()), err: true, replace: None };
            }
            let sh: [(&'static str, usize); D] = shape_array(&shape);
            done(catch(|| t.reshape_mut(sh)))
        }
        "reshape_owned" => {
            let shape = parse_shape(toks[1]);
            // the call consumes its receiver: a caller that wants to survive a panic passes a clone
            let c = t.clone();
            with_d!(shape.len(), D2 => {
                let sh: [(&'static str, usize); D2] = shape_array(&shape);
                match catch(|| c.reshape_owned(sh)) {
                    Ok(t2) => Done { out: Ok(()), err: false, replace: Some(t2.wrap()) },
                    Err(k) => done(Err(k)),
                }
            })
        }
        "rename" => {
            let names = parse_names(toks[1]);
            if names.len() != D {
                return Done { out: Ok(()), err: true, replace: None };
            }
            let names: [&'static str; D] = names_array(&names);
            if via == "rename_owned" {
                let c = t.clone();
                match catch(|| c.rename_owned(names)) {
                    Ok(t2) => Done { out: Ok(()), err: false, replace: Some(t2.wrap()) },
                    Err(k) => done(Err(k)),
                }
            } else {
                done(catch(|| t.rename(names)))
            }
        }
        "transpose_mut" | "reorder_mut" => {
            let names = parse_names(toks[1]);
            if names.len() != D {
                // not expressible: the model answers "panic" for a list of another length
                return done(Err(PanicKind::Explicit));
            }
            let names: [&'static str; D] = names_array(&names);
            let transpose = toks[0] == "transpose_mut";
            if via == "alloc" {
                match catch(|| if transpose { t.transpose(names) } else { t.reorder(names) }) {
                    Ok(t2) => Done { out: Ok(()), err: false, replace: Some(t2.wrap()) },
                    Err(k) => done(Err(k)),
                }
            } else {
                done(catch(|| if transpose { t.transpose_mut(names) } else { t.reorder_mut(names) }))
            }
        }
        "map_mut" => {
            let k: u64 = toks[1].parse().expect("k");
            let p = parse_panic_at(toks[2]);
            let calls = Cell::new(0usize);
            let f = |x: u64| -> u64 {
                if Some(calls.get()) == p {
                    panic!("closure panics on call {}", calls.get());
                }
                calls.set(calls.get() + 1);
                x.wrapping_add(k)
            };
            done(catch(|| match via {
                "view" => TensorView::from(&mut *t).map_mut(f),
                "access" => t.index_mut().map_mut(f),
                _ => t.map_mut(f),
            }))
        }
        "map_div" => {
            // a closure that panics on a particular element value: integer division by a zero element
            let k: u64 = toks[1].parse().expect("k");
            done(catch(|| match via {
                "view" => TensorView::from(&mut *t).map_mut(|x| k / x),
                "access" => t.index_mut().map_mut(|x| k / x),
                _ => t.map_mut(|x| k / x),
            }))
        }
        "map_mut_with_index" => {
            let k: u64 = toks[1].parse().expect("k");
            let p = parse_panic_at(toks[2]);
            let calls = Cell::new(0usize);
            let f = |idx: [usize; D], x: u64| -> u64 {
                if Some(calls.get()) == p {
                    panic!("closure panics on call {}", calls.get());
                }
                calls.set(calls.get() + 1);
                x.wrapping_add(k).wrapping_add(code(&idx))
            };
            done(catch(|| match via {
                "view" => TensorView::from(&mut *t).map_mut_with_index(f),
                "access" => t.index_mut().map_mut_with_index(f),
                _ => t.map_mut_with_index(f),
            }))
        }
        "access_map_mut" => {
            let names = parse_names(toks[1]);
            if names.len() != D {
                return done(Err(PanicKind::Explicit));
            }
            let names: [&'static str; D] = names_array(&names);
            let k: u64 = toks[2].parse().expect("k");
            let p = parse_panic_at(toks[3]);
            let calls = Cell::new(0usize);
            let f = |idx: [usize; D], x: u64| -> u64 {
                if Some(calls.get()) == p {
                    panic!("closure panics on call {}", calls.get());
                }
                calls.set(calls.get() + 1);
                x.wrapping_add(k).wrapping_add(code(&idx))
            };
            done(catch(|| match via {
                "index_by_mut" => t.index_by_mut(names).map_mut_with_index(f),
                "view" => TensorView::from(&mut *t).index_by_mut(names).map_mut_with_index(f),
                _ => TensorAccess::from(&mut *t, names).map_mut_with_index(f),
            }))
        }
        "set" => {
            let idx = parse_usizes(toks[1]);
            if idx.len() != D {
                return Done { out: Ok(()), err: true, replace: None };
            }
            let idx: [usize; D] = to_array(&idx);
            let v: u64 = toks[2].parse().expect("v");
            let r = catch(|| {
                let cell = match via {
                    "access" => t.index_mut().try_get_reference_mut(idx).map(|x| *x = v),
                    "view" => {
                        let mut view = TensorView::from(&mut *t);
                        view.source_ref_mut().get_reference_mut(idx).map(|x| *x = v)
                    }
                    _ => t.get_reference_mut(idx).map(|x| *x = v),
                };
                cell.is_some()
            });
            match r {
                Ok(true) => done(Ok(())),
                Ok(false) => Done { out: Ok(()), err: true, replace: None },
                Err(k) => done(Err(k)),
            }
        }
        _ => panic!("unknown operation {}", toks[0]),
    }
}

fn get<const D: usize>(t: &mut Tensor<u64, D>, toks: &[&str]) -> String {
    let idx = parse_usizes(toks[1]);
    if idx.len() != D {
        return "none".into();
    }
    let idx: [usize; D] = to_array(&idx);
    let r = match opt_arg("via", toks).unwrap_or("") {
        "access" => catch(|| t.index().try_get_reference(idx).cloned()),
        "view" => catch(|| TensorView::from(&*t).index().try_get_reference(idx).cloned()),
        "panicking" => match catch(|| t.index().get(idx)) {
            Ok(v) => Ok(Some(v)),
            Err(PanicKind::Explicit) => Ok(None),
            Err(k) => Err(k),
        },
        _ => catch(|| t.get_reference(idx).cloned()),
    };
    match r {
        Ok(Some(v)) => format!("some({})", v),
        Ok(None) => "none".into(),
        Err(k) => panic_str(k),
    }
}

// ---------------------------------------------------------------------------------------------
// a matrix that is resized with invalid arguments and then used again (no guard: the walk over
// the survivor goes straight to the unchecked accessors, under the monitor)
// ---------------------------------------------------------------------------------------------

fn parse_simple_slice(s: &str) -> Slice {
    let (name, args) = match s.find('(') {
        Some(p) => (&s[..p], &s[p + 1..s.len() - 1]),
        None => (s, ""),
    };
    // split at top-level commas
    let mut parts: Vec<&str> = vec![];
    let (mut depth, mut start) = (0i32, 0usize);
    for (i, ch) in args.char_indices() {
        match ch {
            '(' => depth += 1,
            ')' => depth -= 1,
            ',' if depth == 0 => {
                parts.push(&args[start..i]);
                start = i + 1;
            }
            _ => {}
        }
    }
    if !args.is_empty() {
        parts.push(&args[start..]);
    }
    match (name, parts.len()) {
        ("all", 0) => Slice::All(),
        ("none", 0) => Slice::None(),
        ("single", 1) => Slice::Single(parts[0].parse().expect("single")),
        ("range", 2) => Slice::Range(parts[0].parse().expect("range")..parts[1].parse().expect("range")),
        ("not", 1) => parse_simple_slice(parts[0]).not(),
        ("and", 2) => parse_simple_slice(parts[0]).and(parse_simple_slice(parts[1])),
        ("or", 2) => parse_simple_slice(parts[0]).or(parse_simple_slice(parts[1])),
        _ => panic!("bad slice {}", s),
    }
}

fn matrix_op(m: &mut Matrix<u64>, toks: &[&str]) -> Result<(), PanicKind> {
    let n = |i: usize| -> usize { toks[i].parse().expect("index") };
    let vals = |i: usize| -> Vec<u64> { split_comma(toks[i]).iter().map(|t| t.parse().expect("value")).collect() };
    match toks[0] {
        "insert_row" => catch(|| m.insert_row(n(1), toks[2].parse().unwrap())),
        "insert_column" => catch(|| m.insert_column(n(1), toks[2].parse().unwrap())),
        "insert_row_with" => {
            let vs = vals(2);
            catch(|| m.insert_row_with(n(1), vs.into_iter()))
        }
        "insert_column_with" => {
            let vs = vals(2);
            catch(|| m.insert_column_with(n(1), vs.into_iter()))
        }
        "remove_row" => catch(|| m.remove_row(n(1))),
        "remove_column" => catch(|| m.remove_column(n(1))),
        "retain_mut" => {
            let rows = parse_simple_slice(opt_arg("rows", toks).expect("rows="));
            let cols = parse_simple_slice(opt_arg("cols", toks).expect("cols="));
            catch(|| m.retain_mut(Slice2D::new().rows(rows).columns(cols)))
        }
        "transpose_mut" => catch(|| m.transpose_mut()),
        "set" => catch(|| m.set(n(1), n(2), toks[3].parse().unwrap())),
        "map_mut" | "map_mut_with_index" | "map_div" => {
            // user closures that panic on their p-th call, or on a particular element value
            let k: u64 = toks[1].parse().expect("k");
            let p = if toks[0] == "map_div" { None } else { parse_panic_at(toks[2]) };
            let via = opt_arg("via", toks).unwrap_or("matrix");
            let calls = Cell::new(0usize);
            let tick = || {
                if Some(calls.get()) == p {
                    panic!("closure panics on call {}", calls.get());
                }
                calls.set(calls.get() + 1);
            };
            match (toks[0], via) {
                ("map_mut", "view") => catch(|| MatrixView::from(&mut *m).map_mut(|x| { tick(); x.wrapping_add(k) })),
                ("map_mut", _) => catch(|| m.map_mut(|x| { tick(); x.wrapping_add(k) })),
                ("map_mut_with_index", "view") => catch(|| {
                    MatrixView::from(&mut *m).map_mut_with_index(|x, i, j| { tick(); x.wrapping_add(k * (i as u64 + 1) + j as u64) })
                }),
                ("map_mut_with_index", _) => catch(|| {
                    m.map_mut_with_index(|x, i, j| { tick(); x.wrapping_add(k * (i as u64 + 1) + j as u64) })
                }),
                // integer division: panics ("attempt to divide by zero") on a zero element
                (_, "view") => catch(|| MatrixView::from(&mut *m).map_mut(|x| k / x)),
                _ => catch(|| m.map_mut(|x| k / x)),
            }
        }
        _ => panic!("unknown matrix operation {}", toks[0]),
    }
}

/// size, stored element count, a bounded walk over the survivor through every iterator flavour
/// (copy / reference / mutable reference / owned, row- and column-major) and its elements
fn show_matrix_state(m: &mut Matrix<u64>) -> String {
    let (rows, cols) = m.size();
    let len = matrix_len(m);
    let limit = len.saturating_add(2).min(1 << 20);
    let used = match catch(|| {
        let counts = vec![
            m.row_major_iter().take(limit).count(),
            m.column_major_iter().take(limit).count(),
            m.row_major_reference_iter().take(limit).count(),
            m.column_major_reference_iter().take(limit).count(),
            m.row_major_reference_mut_iter().take(limit).count(),
            m.column_major_reference_mut_iter().take(limit).count(),
            m.clone().row_major_owned_iter().take(limit).count(),
            m.clone().column_major_owned_iter().take(limit).count(),
        ];
        counts
    }) {
        Ok(c) if c.iter().all(|x| *x == c[0]) => c[0].to_string(),
        Ok(c) => c.iter().map(|x| x.to_string()).collect::<Vec<_>>().join("/"),
        Err(k) => panic_str(k),
    };
    let data = match catch(|| m.row_major_iter().take(limit).collect::<Vec<u64>>()) {
        Ok(v) => show_u64s(&v),
        Err(k) => panic_str(k),
    };
    format!("{}x{} len={} use={} data={}", rows, cols, len, used, data)
}

// ---------------------------------------------------------------------------------------------
// an element type whose `Clone` panics on a chosen call (user code running inside the library)
// ---------------------------------------------------------------------------------------------

thread_local! {
    /// calls of `Pc::clone` left before one panics (`None`: never) — harness state, not the library's
    static CLONES_LEFT: Cell<Option<usize>> = const { Cell::new(None) };
}

#[derive(Debug, PartialEq)]
pub struct Pc(u64);

impl Clone for Pc {
    fn clone(&self) -> Pc {
        CLONES_LEFT.with(|b| match b.get() {
            Some(0) => {
                b.set(None);
                panic!("Clone panics");
            }
            Some(n) => b.set(Some(n - 1)),
            None => {}
        });
        Pc(self.0)
    }
}

/// size, stored element count, and a bounded walk by reference (no clones) in both orders
fn show_pc_state(m: &Matrix<Pc>) -> String {
    let (rows, cols) = m.size();
    #[cfg(feature = "hooks")]
    let len = m.verif_storage_len();
    #[cfg(not(feature = "hooks"))]
    let len = rows * cols;
    let limit = len.saturating_add(2).min(1 << 20);
    let used = match catch(|| {
        (m.row_major_reference_iter().take(limit).count(), m.column_major_reference_iter().take(limit).count())
    }) {
        Ok((a, b)) if a == b => a.to_string(),
        Ok((a, b)) => format!("{}/{}", a, b),
        Err(k) => panic_str(k),
    };
    let data = match catch(|| m.row_major_reference_iter().take(limit).map(|p| p.0).collect::<Vec<u64>>()) {
        Ok(v) => show_u64s(&v),
        Err(k) => panic_str(k),
    };
    format!("{}x{} len={} use={} data={}", rows, cols, len, used, data)
}

fn pc_op(m: &mut Matrix<Pc>, toks: &[&str]) -> Result<(), PanicKind> {
    let i: usize = toks[1].parse().expect("index");
    let v: u64 = toks[2].parse().expect("value");
    let p = parse_panic_at(toks[3]);
    let value = Pc(v);
    CLONES_LEFT.with(|b| b.set(p));
    let r = match toks[0] {
        "insert_row" => catch(|| m.insert_row(i, value)),
        "insert_column" => catch(|| m.insert_column(i, value)),
        _ => panic!("unknown operation {}", toks[0]),
    };
    CLONES_LEFT.with(|b| b.set(None));
    r
}

pub struct Runner {
    t: Option<AnyT>,
    m: Option<Matrix<u64>>,
    pm: Option<Matrix<Pc>>,
}

impl Runner {
    pub fn new() -> Runner {
        Runner { t: None, m: None, pm: None }
    }

    fn state(&mut self, flavour: &str) -> String {
        match &mut self.t {
            None => "none".into(),
            Some(any) => on_t!(any, t => show_state(t, flavour)),
        }
    }

    pub fn step(&mut self, toks: &[&str]) -> String {
        let mut toks = toks;
        if toks.first() == Some(&"@") {
            self.t = None;
            self.m = None;
            self.pm = None;
            toks = &toks[1..];
        }
        let read = opt_arg("read", toks).unwrap_or("copy");
        match toks[0] {
            "mlog" => {
                return log_matrix(toks[1].parse().unwrap(), toks[2].parse().unwrap(), toks[3], toks[4]);
            }
            "piter" => {
                let via = opt_arg("via", toks).unwrap_or("plain");
                return piter(toks[1].parse().unwrap(), toks[2].parse().unwrap(), toks[3], toks[4], toks[5], via);
            }
            "pten" => {
                let via = opt_arg("via", toks).unwrap_or("plain");
                return pten(&parse_shape(toks[1]), toks[2], toks[3], via);
            }
            "zlog" => {
                let shapes: Vec<Vec<(&'static str, usize)>> = toks[5].split(';').map(parse_shape).collect();
                return zlog(toks[1], toks[2], toks[3], toks[4], &shapes);
            }
            "mnew" => {
                let (r, c) = toks[1].split_once('x').expect("RxC");
                let (r, c): (usize, usize) = (r.parse().unwrap(), c.parse().unwrap());
                return match catch(|| Matrix::from_flat_row_major((r, c), (1..=(r * c) as u64).collect())) {
                    Ok(m) => {
                        let mut m = m;
                        let s = format!("ok {}", show_matrix_state(&mut m));
                        self.m = Some(m);
                        s
                    }
                    Err(k) => format!("panic ## kind={}", k.as_str()),
                };
            }
            "pnew" => {
                let (r, c) = toks[1].split_once('x').expect("RxC");
                let (r, c): (usize, usize) = (r.parse().unwrap(), c.parse().unwrap());
                return match catch(|| Matrix::from_flat_row_major((r, c), (1..=(r * c) as u64).map(Pc).collect())) {
                    Ok(m) => {
                        let s = format!("ok {}", show_pc_state(&m));
                        self.pm = Some(m);
                        s
                    }
                    Err(k) => format!("panic ## kind={}", k.as_str()),
                };
            }
            "p" => {
                let m = match &mut self.pm {
                    None => return "no-matrix".into(),
                    Some(m) => m,
                };
                let r = pc_op(m, &toks[1..]);
                return format!("{} {}{}", out_str(&r), show_pc_state(m), kind_str(&r));
            }
            "m" => {
                let m = match &mut self.m {
                    None => return "no-matrix".into(),
                    Some(m) => m,
                };
                let r = matrix_op(m, &toks[1..]);
                return format!("{} {}{}", out_str(&r), show_matrix_state(m), kind_str(&r));
            }
            "mflat" => {
                let (r, c, n): (usize, usize, u64) =
                    (toks[1].parse().unwrap(), toks[2].parse().unwrap(), toks[3].parse().unwrap());
                return show_matrix_result(catch(|| Matrix::from_flat_row_major((r, c), (1..=n).collect())));
            }
            "mempty" => {
                let (r, c): (usize, usize) = (toks[1].parse().unwrap(), toks[2].parse().unwrap());
                return show_matrix_result(catch(|| Matrix::empty(7u64, (r, c))));
            }
            "from" | "try_from" => {
                let shape = parse_shape(toks[1]);
                let n: usize = toks[2].parse().expect("n");
                let base: u64 = toks[3].parse().expect("base");
                let fallible = toks[0] == "try_from";
                let (out, kind) = match construct(&shape, n, base, fallible) {
                    Ok(Some(t)) => {
                        self.t = Some(t);
                        ("ok", String::new())
                    }
                    Ok(None) => ("err", String::new()),
                    Err(PanicKind::Hook) => ("panic(hook)", " ## kind=hook".to_string()),
                    Err(k) => ("panic", format!(" ## kind={}", k.as_str())),
                };
                return format!("{} {}{}", out, self.state(read), kind);
            }
            "state" => return self.state(read),
            _ => {}
        }
        let any = match &mut self.t {
            None => return "no-tensor".into(),
            Some(any) => any,
        };
        match toks[0] {
            "get" => on_t!(any, t => get(t, toks)),
            "log" => {
                let wi = opt_arg("wi", toks) == Some("1");
                on_t!(any, t => log_tensor(t, toks[1], wi))
            }
            "log_access" => {
                let names = parse_names(toks[1]);
                on_t!(any, t => log_access(t, &names, toks[2]))
            }
            "log_rename" => {
                let (from, set, req) = (parse_names(toks[1]), parse_names(toks[2]), parse_names(toks[3]));
                on_t!(any, t => log_rename(t, &from, &set, &req, toks[4]))
            }
            "log_view" if toks[1].starts_with("index:") => log_index(any, &toks[1][6..], toks[2]),
            "log_view" => on_t!(any, t => log_view(t, toks[1], toks[2])),
            _ => {
                let d = on_t!(any, t => mutate(t, toks));
                if let Some(t2) = d.replace {
                    self.t = Some(t2);
                }
                let out = if d.err { "err" } else { out_str(&d.out) };
                format!("{} {}{}", out, self.state(read), kind_str(&d.out))
            }
        }
    }
}

// ---------------------------------------------------------------------------------------------
// generation
// ---------------------------------------------------------------------------------------------

const NAMES: [&str; 8] = ["a", "b", "c", "d", "e", "f", "x", "y"];
const READS: [&str; 8] = ["copy", "ref", "mut", "owned", "view", "wi", "access", "refwi"];
const FLAVOURS: [&str; 4] = ["copy", "ref", "mut", "owned"];

fn product(lens: &[usize]) -> usize {
    lens.iter().product()
}

fn shape_str(names: &[&str], lens: &[usize]) -> String {
    if lens.is_empty() {
        "-".into()
    } else {
        names.iter().zip(lens).map(|(n, l)| format!("{}:{}", n, l)).collect::<Vec<_>>().join(",")
    }
}

fn names_str(names: &[&str]) -> String {
    if names.is_empty() {
        "-".into()
    } else {
        names.join(",")
    }
}

/// Shapes whose element count does not fit a `usize`, with the element count a wrapped
/// multiplication yields (2^64 arithmetic) — the count for which the unrepaired code accepted
/// them in a release build (defect #8).
fn overflowing() -> Vec<(Vec<usize>, usize)> {
    let m = usize::MAX;
    vec![
        (vec![(1 << 63) + 1, 2], 2),
        (vec![1 << 63, 2], 0),
        (vec![1 << 32, 1 << 32], 0),
        (vec![m, m], 1),
        (vec![6148914691236517206, 3], 2),
        (vec![(1 << 62) + 1, 4], 4),
        (vec![2, (1 << 63) + 1], 2),
        (vec![1 << 32, 1 << 16, 1 << 16], 0),
        (vec![3, (1 << 62) + 1, 4], 12),
        (vec![(1 << 63) + 3, 2], 6),
        (vec![1 << 16, 1 << 16, 1 << 16, 1 << 16], 0),
        (vec![2, 2, (1 << 62) + 1], 4),
        (vec![m, 2], m - 1),
        (vec![1 << 21, 1 << 21, 1 << 21, 2], 0),
        (vec![2, 3, (1 << 63) + 1, 2, 1], 12),
        (vec![2, 1, 3, 1, (1 << 62) + 1, 4], 24),
    ]
}

struct Cur {
    names: Vec<&'static str>,
    lens: Vec<usize>,
}

impl Cur {
    fn n(&self) -> usize {
        product(&self.lens)
    }
}

fn pick_names(g: &mut Gen, d: usize) -> Vec<&'static str> {
    let mut pool: Vec<&'static str> = NAMES.to_vec();
    g.rng.shuffle(&mut pool);
    pool.truncate(d);
    pool
}

fn random_lens(g: &mut Gen, d: usize, max_product: usize) -> Vec<usize> {
    loop {
        let lens: Vec<usize> = (0..d).map(|_| g.rng.range(1, 4)).collect();
        if product(&lens) <= max_product {
            return lens;
        }
    }
}

fn factorization(g: &mut Gen, n: usize, d: usize) -> Vec<usize> {
    // a random way of writing n as a product of d factors
    let mut lens = vec![1usize; d];
    let mut rest = n;
    let mut p = 2;
    while rest > 1 && d > 0 {
        if rest % p == 0 {
            let i = g.rng.below(d);
            lens[i] *= p;
            rest /= p;
        } else {
            p += 1;
        }
    }
    lens
}

fn read_opt(g: &mut Gen) -> String {
    let r = *g.rng.pick(&READS);
    g.count(&format!("read.{}", r));
    format!("read={}", r)
}

/// a flawed or valid constructor argument for a tensor that should hold `cur`-like data
fn emit_constructor(g: &mut Gen, at: &str, op: &str, flaw: usize, base: u64) -> Option<Cur> {
    let d = g.rng.range(0, 4);
    let names = pick_names(g, d);
    let lens = random_lens(g, d, 24);
    let n = product(&lens);
    let read = read_opt(g);
    let (line, ok) = match flaw {
        0 => (format!("{}{} {} {} {} {}", at, op, shape_str(&names, &lens), n, base, read), true),
        1 => (format!("{}{} {} {} {} {}", at, op, shape_str(&names, &lens), n + 1, base, read), false),
        2 if n > 0 => (format!("{}{} {} {} {} {}", at, op, shape_str(&names, &lens), n - 1, base, read), false),
        3 if d >= 2 => {
            let mut ns = names.clone();
            ns[d - 1] = ns[0];
            (format!("{}{} {} {} {} {}", at, op, shape_str(&ns, &lens), n, base, read), false)
        }
        4 if d >= 1 => {
            let mut ls = lens.clone();
            let i = g.rng.below(d);
            ls[i] = 0;
            let count = if g.rng.chance(1, 2) { 0 } else { n / lens[i] };
            (format!("{}{} {} {} {} {}", at, op, shape_str(&names, &ls), count, base, read), false)
        }
        5 => {
            let table = overflowing();
            let (ls, count) = g.rng.pick(&table).clone();
            let ns = pick_names(g, ls.len());
            let count = if count > 64 { 0 } else { count };
            (format!("{}{} {} {} {} {}", at, op, shape_str(&ns, &ls), count, base, read), false)
        }
        _ => (format!("{}{} {} {} {} {}", at, op, shape_str(&names, &lens), 0, base, read), n == 0),
    };
    g.count(&format!("ctor.{}.{}", op, if ok { "valid" } else { "invalid" }));
    g.count(&format!("ctor.flaw.{}", flaw));
    g.op(line);
    if ok {
        Some(Cur { names, lens })
    } else {
        None
    }
}

fn emit_observations(g: &mut Gen, cur: &Cur, all: bool) {
    let d = cur.lens.len();
    if all || g.rng.chance(1, 2) {
        let r = read_opt(g);
        g.op(format!("state {}", r));
    }
    // checked indexing inside, one past the end, far outside
    let vias = ["get_reference", "access", "panicking", "view"];
    let tries = if all { 3 } else { 1 };
    for k in 0..tries {
        let mut idx: Vec<usize> = cur.lens.iter().map(|l| g.rng.below(*l)).collect();
        let kind = if all { k } else { g.rng.below(3) };
        if d > 0 {
            let i = g.rng.below(d);
            match kind {
                1 => idx[i] = cur.lens[i],
                2 => idx[i] = *g.rng.pick(&[usize::MAX, usize::MAX / 2 + 1, 1 << 32]),
                _ => {}
            }
        }
        g.count(&format!("get.{}", ["inside", "one-past", "far-out"][kind]));
        let v1_ = g.rng.pick(&vias);
        g.op(format!("get {} via={}", show_usizes(&idx), v1_));
    }
    if all || g.rng.chance(1, 2) {
        let f = *g.rng.pick(&FLAVOURS);
        let wi = g.rng.chance(1, 3);
        g.count(&format!("log.tensor.{}", f));
        g.op(format!("log {}{}", f, if wi { " wi=1" } else { "" }));
    }
    if d >= 1 && (all || g.rng.chance(1, 2)) {
        // a view adaptor between the iterator and the leaf: range / mask / reverse on one dimension
        let i = g.rng.below(d);
        let (name, len) = (cur.names[i], cur.lens[i]);
        let name = if g.rng.chance(1, 10) { "zz" } else { name };
        let start = g.rng.below(len + 1);
        let l = g.rng.below(len + 2);
        let kind = *g.rng.pick(&["range", "mask", "reverse", "index", "index"]);
        let f = *g.rng.pick(&FLAVOURS);
        g.count(&format!("log.view.{}.{}", kind, f));
        if kind == "index" {
            // select: inside, exactly one past the end (the boundary), far outside
            let at = match g.rng.below(4) {
                0 => len,
                1 => len + 1 + g.rng.below(3),
                _ => g.rng.below(len),
            };
            g.count(if at < len { "log.view.index.inside" } else if at == len { "log.view.index.boundary" } else { "log.view.index.outside" });
            g.op(format!("log_view index:{}.{} {}", name, at, f));
        } else if kind == "reverse" {
            g.op(format!("log_view reverse:{} {}", name, f));
        } else {
            g.op(format!("log_view {}:{}.{}.{} {}", kind, name, start, l, f));
        }
    }
    if d >= 2 && (all || g.rng.chance(1, 3)) {
        emit_log_rename(g, cur);
    }
    if all || g.rng.chance(1, 2) {
        let mut ns = cur.names.clone();
        g.rng.shuffle(&mut ns);
        let valid = !(d >= 1 && g.rng.chance(1, 6));
        if !valid {
            let i = g.rng.below(d);
            ns[i] = if d >= 2 && g.rng.chance(1, 2) { ns[(i + 1) % d] } else { "zz" };
        }
        let f = *g.rng.pick(&FLAVOURS);
        g.count(&format!("log.access.{}.{}", f, if valid { "valid" } else { "invalid" }));
        g.op(format!("log_access {} {}", names_str(&ns), f));
    }
}

/// a rename view whose setter is called with (often repeated) names; the survivor is then
/// indexed by an ordering of the names it should have, or of the names that were refused
fn emit_log_rename(g: &mut Gen, cur: &Cur) {
    let d = cur.lens.len();
    let from = pick_names(g, d);
    let mut set = pick_names(g, d);
    let repeated = g.rng.chance(2, 3);
    if repeated {
        let i = g.rng.below(d);
        let j = (i + 1 + g.rng.below(d - 1)) % d;
        set[j] = set[i];
    }
    // the request: a shuffle of the refused names (what a caller who did not notice the panic
    // would ask for), of the names the view keeps, or of the accepted new names
    let mut req = if repeated && g.rng.chance(1, 2) { from.clone() } else { set.clone() };
    g.rng.shuffle(&mut req);
    let f = *g.rng.pick(&FLAVOURS);
    g.count(&format!("log.rename.set-{}.{}", if repeated { "repeated" } else { "unique" }, f));
    g.op(format!("log_rename {} {} {} {}", names_str(&from), names_str(&set), names_str(&req), f));
}

/// one random mutator with valid or invalid arguments; returns the bookkeeping of the object
/// the property demands afterwards
fn emit_mutator(g: &mut Gen, cur: Cur, counter: &mut u64) -> Cur {
    let d = cur.lens.len();
    let n = cur.n();
    let read = read_opt(g);
    let invalid = g.rng.chance(2, 5);
    let which = g.rng.below(11);
    let tag = |g: &mut Gen, name: &str, ok: bool| {
        g.count(&format!("op.{}.{}", name, if ok { "valid" } else { "invalid" }));
    };
    *counter += 100;
    match which {
        0 | 1 => {
            // constructor call while holding an object
            let op = if which == 0 { "from" } else { "try_from" };
            let flaw = if invalid { g.rng.range(1, 6) } else { 0 };
            match emit_constructor(g, "", op, flaw, *counter) {
                Some(c) => c,
                None => cur,
            }
        }
        2 | 3 => {
            let owned = which == 3;
            let d2 = if owned { g.rng.range(0, 4) } else { d };
            let names = pick_names(g, d2);
            let op = if owned { "reshape_owned" } else { "reshape_mut" };
            let mut lens = factorization(g, n, d2);
            let mut ns = names.clone();
            if invalid {
                let table: Vec<(Vec<usize>, usize)> =
                    overflowing().into_iter().filter(|(ls, c)| ls.len() == d2 && *c == n).collect();
                match g.rng.below(4) {
                    1 if d2 >= 2 => ns[1] = ns[0],
                    2 if d2 >= 1 => {
                        let i = g.rng.below(d2);
                        lens[i] = 0;
                    }
                    3 if !table.is_empty() => {
                        // a shape whose product wraps around to the stored element count
                        lens = g.rng.pick(&table).0.clone();
                        g.count("op.reshape.overflowing-shape");
                    }
                    _ if d2 >= 1 => lens[0] += 1,
                    _ => {}
                }
            }
            let valid = lens.iter().all(|l| *l > 0)
                && lens.iter().try_fold(1usize, |a, l| a.checked_mul(*l)) == Some(n)
                && (0..d2).all(|i| (0..i).all(|j| ns[i] != ns[j]));
            tag(g, op, valid);
            g.op(format!("{} {} {}", op, shape_str(&ns, &lens), read));
            if valid {
                Cur { names: ns, lens }
            } else {
                cur
            }
        }
        4 => {
            let mut names = pick_names(g, d);
            let ok = !(invalid && d >= 2);
            if !ok {
                names[d - 1] = names[0];
            }
            tag(g, "rename", ok);
            let via = if g.rng.chance(1, 2) { "rename" } else { "rename_owned" };
            g.op(format!("rename {} via={} {}", names_str(&names), via, read));
            if ok {
                Cur { names, lens: cur.lens }
            } else {
                cur
            }
        }
        5 | 6 => {
            let op = if which == 5 { "transpose_mut" } else { "reorder_mut" };
            let mut perm: Vec<usize> = (0..d).collect();
            g.rng.shuffle(&mut perm);
            let mut ns: Vec<&'static str> = perm.iter().map(|&i| cur.names[i]).collect();
            let ok = !(invalid && d >= 1);
            if !ok {
                let i = g.rng.below(d);
                ns[i] = if d >= 2 && g.rng.chance(1, 2) { ns[(i + 1) % d] } else { "zz" };
            }
            tag(g, op, ok);
            let via = if g.rng.chance(1, 3) { "alloc" } else { "mut" };
            g.op(format!("{} {} via={} {}", op, names_str(&ns), via, read));
            if !ok {
                cur
            } else if which == 6 {
                Cur { names: ns, lens: perm.iter().map(|&i| cur.lens[i]).collect() }
            } else {
                Cur { names: cur.names.clone(), lens: perm.iter().map(|&i| cur.lens[i]).collect() }
            }
        }
        7 | 8 if invalid && n > 0 && g.rng.chance(1, 3) => {
            // value-triggered panic: put a zero somewhere, then divide by every element
            let idx: Vec<usize> = cur.lens.iter().map(|l| g.rng.below(*l)).collect();
            tag(g, "map_div", false);
            let via = *g.rng.pick(&["tensor", "view", "access"]);
            g.op(format!("set {} 0 via=tensor", show_usizes(&idx)));
            g.op(format!("map_div 5040 via={} {}", via, read));
            cur
        }
        7 | 8 => {
            let op = if which == 7 { "map_mut" } else { "map_mut_with_index" };
            let p = if invalid { g.rng.below(n + 1).to_string() } else { "-".to_string() };
            tag(g, op, !invalid || p == n.to_string());
            let via = *g.rng.pick(&["tensor", "view", "access"]);
            let v1_ = g.rng.range(1, 9) * 1000;
            g.op(format!("{} {} {} via={} {}", op, v1_, p, via, read));
            cur
        }
        9 => {
            let mut ns = cur.names.clone();
            g.rng.shuffle(&mut ns);
            let bad_names = invalid && d >= 1 && g.rng.chance(1, 2);
            if bad_names {
                let i = g.rng.below(d);
                ns[i] = if d >= 2 && g.rng.chance(1, 2) { ns[(i + 1) % d] } else { "zz" };
            }
            let p = if invalid && !bad_names { g.rng.below(n + 1).to_string() } else { "-".to_string() };
            tag(g, "access_map_mut", !invalid);
            let via = *g.rng.pick(&["from", "index_by_mut", "view"]);
            let v1_ = g.rng.range(1, 9) * 1000;
            g.op(format!("access_map_mut {} {} {} via={} {}", names_str(&ns), v1_, p, via, read));
            cur
        }
        _ => {
            let mut idx: Vec<usize> = cur.lens.iter().map(|l| g.rng.below(*l)).collect();
            let ok = !(invalid && d >= 1);
            if !ok {
                let i = g.rng.below(d);
                idx[i] = if g.rng.chance(1, 2) { cur.lens[i] } else { usize::MAX - g.rng.below(2) };
            }
            tag(g, "set", ok);
            let via = *g.rng.pick(&["tensor", "view", "access"]);
            g.op(format!("set {} {} via={} {}", show_usizes(&idx), 500000 + *counter, via, read));
            cur
        }
    }
}

pub fn gen(g: &mut Gen) {
    let thorough = g.thorough;
    // A. constructors: every flaw, both forms, from nothing and while holding an object
    let reps = if thorough { 40 } else { 8 };
    for _ in 0..reps {
        for op in ["from", "try_from"] {
            for flaw in 0..=6 {
                let mut counter = 0u64;
                let first = emit_constructor(g, "@ ", op, flaw, 0);
                g.count("case.constructor");
                match first {
                    Some(cur) => {
                        emit_observations(g, &cur, true);
                        // a rejected second constructor call must leave the first object alone
                        counter += 100;
                        let flaw2 = g.rng.range(1, 5);
                        let op2 = if g.rng.chance(1, 2) { "from" } else { "try_from" };
                        let _ = emit_constructor(g, "", op2, flaw2, counter);
                        emit_observations(g, &cur, false);
                    }
                    None => {
                        g.op("state".to_string());
                        g.op("log copy".to_string());
                        counter += 100;
                        if let Some(cur) = emit_constructor(g, "", op, 0, counter) {
                            emit_observations(g, &cur, false);
                        }
                    }
                }
            }
        }
    }
    // B. every shape whose element count overflows, through every validating entry point
    for (lens, count) in overflowing() {
        if count > 64 {
            continue;
        }
        let d = lens.len();
        for op in ["from", "try_from", "reshape_mut", "reshape_owned"] {
            let names = pick_names(g, d);
            g.count(&format!("overflow.{}", op));
            g.count("case.overflow");
            if op == "from" || op == "try_from" {
                let r_ = read_opt(g);
                g.op(format!("@ {} {} {} 0 {}", op, shape_str(&names, &lens), count, r_));
                g.op("state".to_string());
                g.op(format!("get {}", show_usizes(&vec![0; d])));
                g.op("log copy".to_string());
            } else if count > 0 {
                // start from a valid tensor with `count` elements (and the same dimensionality)
                let mut start = vec![1usize; d];
                start[0] = count;
                let ns = pick_names(g, d);
                g.op(format!("@ from {} {} 0", shape_str(&ns, &start), count));
                let r_ = read_opt(g);
                g.op(format!("{} {} {}", op, shape_str(&names, &lens), r_));
                let cur = Cur { names: ns, lens: start };
                emit_observations(g, &cur, true);
            }
        }
    }
    // C. random histories of mutators (40 % with invalid arguments / panicking closures)
    let histories = if thorough { 1500 } else { 150 };
    for _ in 0..histories {
        let d = g.rng.range(0, 4);
        let names = pick_names(g, d);
        let lens = random_lens(g, d, 24);
        g.count(&format!("history.start.D{}", d));
        g.count("case.history");
        g.op(format!("@ from {} {} 0", shape_str(&names, &lens), product(&lens)));
        let mut cur = Cur { names, lens };
        let mut counter = 0u64;
        let len = g.rng.range(4, if thorough { 20 } else { 12 });
        for _ in 0..len {
            cur = emit_mutator(g, cur, &mut counter);
            if g.rng.chance(1, 3) {
                emit_observations(g, &cur, false);
            }
        }
        emit_observations(g, &cur, true);
    }
    // D. closures panicking at every position, through every path, on small shapes
    let small: Vec<Vec<usize>> = vec![vec![], vec![1], vec![3], vec![2, 2], vec![2, 3], vec![3, 1, 2], vec![2, 2, 2]];
    for lens in &small {
        let d = lens.len();
        let n = product(lens);
        let names: Vec<&'static str> = NAMES[..d].to_vec();
        for p in 0..=n {
            if !thorough && p > 2 && p + 1 < n {
                continue;
            }
            g.count("case.closure-panic");
            g.op(format!("@ from {} {} 10", shape_str(&names, lens), n));
            for via in ["tensor", "view", "access"] {
                let r_ = read_opt(g);
                g.op(format!("map_mut 1000 {} via={} {}", p, via, r_));
                let r_ = read_opt(g);
                g.op(format!("map_mut_with_index 20000 {} via={} {}", p, via, r_));
            }
            let mut ns = names.clone();
            ns.reverse();
            for via in ["from", "index_by_mut", "view"] {
                let r_ = read_opt(g);
                g.op(format!("access_map_mut {} 300000 {} via={} {}", names_str(&ns), p, via, r_));
            }
            let cur = Cur { names: names.clone(), lens: lens.clone() };
            emit_observations(g, &cur, true);
        }
    }
    // E. reorder_mut / transpose_mut: the in-place square branch and the fallback
    for lens in [vec![1, 1], vec![2, 2], vec![3, 3], vec![4, 4], vec![2, 3], vec![3, 2], vec![2, 2, 2], vec![2, 3, 2]] {
        let d = lens.len();
        let names: Vec<&'static str> = NAMES[..d].to_vec();
        for op in ["reorder_mut", "transpose_mut"] {
            for perm in permutations(d) {
                for via in ["mut", "alloc"] {
                    if !thorough && d == 3 && via == "alloc" {
                        continue;
                    }
                    g.count(&format!("case.{}", op));
                    g.op(format!("@ from {} {} 0", shape_str(&names, &lens), product(&lens)));
                    let ns: Vec<&'static str> = perm.iter().map(|&i| names[i]).collect();
                    // first an invalid name list (repeated / unknown name), then the valid one
                    let mut bad = ns.clone();
                    bad[d - 1] = if perm[0] % 2 == 0 { bad[0] } else { "zz" };
                    let r_ = read_opt(g);
                    g.op(format!("{} {} via={} {}", op, names_str(&bad), via, r_));
                    let r_ = read_opt(g);
                    g.op(format!("{} {} via={} {}", op, names_str(&ns), via, r_));
                    g.op("log mut".to_string());
                    g.op(format!("log_access {} ref", names_str(&names)));
                }
            }
        }
    }
    // F. matrix iteration logs and size-validating constructors
    let max = if thorough { 5 } else { 3 };
    for rows in 1..=max {
        for cols in 1..=max {
            for order in ["row_major", "column_major"] {
                for f in FLAVOURS {
                    g.count(&format!("mlog.{}.{}", order, f));
                    g.op(format!("@ mlog {} {} {} {}", rows, cols, order, f));
                }
            }
            for f in ["copy", "ref", "mut"] {
                for r in 0..=rows {
                    g.count("mlog.row");
                    g.op(format!("@ mlog {} {} row:{} {}", rows, cols, r, f));
                }
                for c in 0..=cols {
                    g.count("mlog.column");
                    g.op(format!("@ mlog {} {} column:{} {}", rows, cols, c, f));
                }
                g.count("mlog.diagonal");
                g.op(format!("@ mlog {} {} diagonal {}", rows, cols, f));
            }
        }
    }
    // I. the rename setter on 3-dimensional tensors whose dimensions all differ in length, every
    // placement of a repeated name, every ordering requested afterwards
    for lens in [vec![1usize, 3, 2], vec![2, 1, 3], vec![3, 2, 1], vec![2, 2, 3]] {
        let names: Vec<&'static str> = NAMES[..3].to_vec();
        for set in [["x", "x", "y"], ["x", "y", "x"], ["y", "x", "x"], ["x", "y", "z"], ["x", "x", "x"]] {
            g.count("case.rename-setter");
            g.op(format!("@ from {} {} 0", shape_str(&names, &lens), product(&lens)));
            for perm in permutations(3) {
                let req: Vec<&str> = perm.iter().map(|&i| set[i]).collect();
                let f = FLAVOURS[(perm[0] + perm[1] * 2) % 4];
                g.op(format!("log_rename d,e,f {} {} {}", set.join(","), req.join(","), f));
            }
            // and with the names the view must have kept
            g.op(format!("log_rename d,e,f {} f,d,e mut", set.join(",")));
            g.op("state".to_string());
        }
    }
    // J. stack / chain views over 1..4 mutable tensors (tuple and array forms) whose lengths along
    // the chained dimension differ; every iteration flavour and the in-place maps
    let reps = if thorough { 6 } else { 1 };
    let actions = ["copy", "ref", "mut", "owned", "map_mut", "map_mut_wi"];
    for _ in 0..reps {
        for (form, k) in [("tuple", 2usize), ("tuple", 3), ("tuple", 4), ("array", 1), ("array", 2), ("array", 3), ("array", 4)] {
            for action in actions {
                // chain
                let d = g.rng.range(1, 3);
                let names = pick_names(g, d);
                let a = g.rng.below(d);
                let other = random_lens(g, d, 6);
                let mut along_lens: Vec<usize> = (0..k).map(|_| g.rng.range(1, 3)).collect();
                if k == 4 && g.rng.chance(1, 2) {
                    along_lens = vec![2, 1, 1, 3];
                }
                if k >= 2 && along_lens.iter().all(|l| *l == along_lens[0]) {
                    along_lens[k - 1] = along_lens[0] % 3 + 1;
                }
                let bad = g.rng.chance(1, 8);
                let shapes: Vec<String> = (0..k)
                    .map(|i| {
                        let mut ls = other.clone();
                        ls[a] = along_lens[i];
                        if bad && i == k - 1 && d >= 2 {
                            ls[(a + 1) % d] += 1;
                        }
                        shape_str(&names, &ls)
                    })
                    .collect();
                let along = if bad && d < 2 { "zz" } else { names[a] };
                g.count(&format!("zlog.chain.{}{}.{}", form, k, action));
                g.op(format!("@ zlog chain {} {} {} {}", form, along, action, shapes.join(";")));
                // stack: identical shapes, a new dimension at every position
                let d = g.rng.range(0, 2);
                let names = pick_names(g, d);
                let lens = random_lens(g, d, 6);
                let extra = if g.rng.chance(1, 8) { 1 } else { 0 };
                let pos = g.rng.below(d + 1 + extra);
                let shapes: Vec<String> = (0..k)
                    .map(|i| {
                        let mut ls = lens.clone();
                        if g.rng.chance(1, 12) && d >= 1 && i == k - 1 && k >= 2 {
                            ls[0] += 1;
                        }
                        shape_str(&names, &ls)
                    })
                    .collect();
                g.count(&format!("zlog.stack.{}{}.{}", form, k, action));
                g.op(format!("@ zlog stack {} {}:s {} {}", form, pos, action, shapes.join(";")));
            }
        }
    }
    // every assignment of lengths 1..3 to four chained sources (tuple form, mutable paths)
    for code4 in 0..81usize {
        if !thorough && code4 % 3 != 0 {
            continue;
        }
        let ls = [code4 % 3 + 1, code4 / 3 % 3 + 1, code4 / 9 % 3 + 1, code4 / 27 + 1];
        let action = ["mut", "owned", "map_mut", "map_mut_wi"][code4 % 4];
        let shapes: Vec<String> = ls.iter().map(|l| format!("a:{},b:2", l)).collect();
        g.count("zlog.chain.tuple4.all-lengths");
        g.op(format!("@ zlog chain tuple a {} {}", action, shapes.join(";")));
    }
    // K. constructor validation of stack / chain: one source that does not fit, in EVERY position,
    // for every tuple arity and array form; whatever was (wrongly) constructed is iterated
    {
        let actions = ["copy", "ref", "mut", "owned", "map_mut", "map_mut_wi"];
        let mut turn = 0usize;
        for kind in ["stack", "chain"] {
            for (form, k) in [("tuple", 2usize), ("tuple", 3), ("tuple", 4), ("array", 2), ("array", 3), ("array", 4)] {
                for pos in 0..k {
                    for flaw in ["shorter", "longer", "names"] {
                        // the sources agree on a:2,b:3 (chain: along a, lengths 1..3 there)
                        let shapes: Vec<String> = (0..k)
                            .map(|i| {
                                let a = if kind == "chain" { 1 + (i + turn) % 3 } else { 2 };
                                if i == pos {
                                    match flaw {
                                        "shorter" => format!("a:{},b:2", a),
                                        "longer" => format!("a:{},b:4", a),
                                        _ => format!("a:{},c:3", a),
                                    }
                                } else {
                                    format!("a:{},b:3", a)
                                }
                            })
                            .collect();
                        let action = actions[turn % actions.len()];
                        turn += 1;
                        g.count(&format!("zlog.invalid.{}.{}{}.{}", kind, form, k, flaw));
                        let along = if kind == "chain" { "a".to_string() } else { format!("{}:s", turn % 3) };
                        g.op(format!("@ zlog {} {} {} {} {}", kind, form, along, action, shapes.join(";")));
                    }
                }
            }
        }
    }
    // L. stack / chain sources whose dimension ORDER is a permutation of the first source's (same
    // names, lengths following the names), adversarial names; the permuted source in every position
    {
        let actions = ["copy", "ref", "mut", "owned", "map_mut", "map_mut_wi"];
        let mut turn = 0usize;
        for kind in ["chain", "stack"] {
            for (form, k) in [("tuple", 2usize), ("tuple", 3), ("tuple", 4), ("array", 2), ("array", 3), ("array", 4)] {
                for pos in 0..k {
                    for d in [2usize, 3] {
                        let names = adversarial_names(&mut g.rng, d);
                        // pairwise different lengths, so that a permuted order really is another shape
                        let lens: Vec<usize> = (0..d).map(|i| 2 + (i + turn) % 3).collect::<Vec<_>>();
                        let lens: Vec<usize> = if d == 3 { vec![lens[0], lens[0] % 3 + 2, 5 - (lens[0] % 3)] } else { vec![lens[0], lens[0] % 3 + 2] };
                        let mut perm: Vec<usize> = (0..d).collect();
                        perm.rotate_left(1 + turn % (d - 1));
                        let shapes: Vec<String> = (0..k)
                            .map(|i| {
                                let order: Vec<usize> = if i == pos { perm.clone() } else { (0..d).collect() };
                                order.iter().map(|&j| format!("{}:{}", names[j], lens[j])).collect::<Vec<_>>().join(",")
                            })
                            .collect();
                        let action = actions[turn % actions.len()];
                        turn += 1;
                        g.count(&format!("zlog.permuted-order.{}.{}{}", kind, form, k));
                        let along = if kind == "chain" { names[turn % d].to_string() } else { format!("{}:{}", turn % (d + 1), "stacked") };
                        g.op(format!("@ zlog {} {} {} {} {}", kind, form, along, action, shapes.join(";")));
                    }
                }
            }
        }
        // valid constructions with adversarial names (incl. the empty name) as well
        for _ in 0..if thorough { 40 } else { 8 } {
            let names = adversarial_names(&mut g.rng, 2);
            let k = g.rng.range(2, 4);
            let shapes: Vec<String> = (0..k).map(|i| format!("{}:{},{}:2", names[0], 1 + i % 3, names[1])).collect();
            let action = actions[turn % actions.len()];
            turn += 1;
            g.count("zlog.adversarial-names.valid");
            g.op(format!("@ zlog chain {} {} {} {}", if turn % 2 == 0 { "tuple" } else { "array" }, names[0], action, shapes.join(";")));
        }
    }
    // M. every iterator constructor over a probe source (a leaf written in the harness that refuses
    // out-of-shape unchecked accesses): empty views in every combination, 1xN / Nx1, small ones;
    // bare and behind MatrixRange / MatrixReverse; tensors bare and behind one adaptor
    {
        let sizes: Vec<(usize, usize)> = vec![(0, 0), (0, 1), (0, 3), (1, 0), (2, 0), (3, 0), (1, 1), (1, 3), (3, 1), (2, 2), (2, 3)];
        let vias = ["plain", "with_index", "from_with_index"];
        let mut turn = 0usize;
        for &(r, c) in &sizes {
            for order in ["row_major", "column_major"] {
                for f in ["copy", "ref", "mut", "owned", "owned_numeric"] {
                    for via in vias {
                        if !thorough && via != "plain" && (turn + r + c) % 3 != 0 {
                            turn += 1;
                            continue;
                        }
                        turn += 1;
                        g.count(&format!("piter.{}.{}.{}", order, f, via));
                        g.op(format!("@ piter {} {} - {} {} via={}", r, c, order, f, via));
                    }
                }
            }
            for f in ["copy", "ref", "mut"] {
                for i in 0..=r.min(2) {
                    g.count("piter.row");
                    g.op(format!("@ piter {} {} - row:{} {}", r, c, i, f));
                }
                for j in 0..=c.min(2) {
                    g.count("piter.column");
                    g.op(format!("@ piter {} {} - column:{} {}", r, c, j, f));
                }
                g.count("piter.diagonal");
                g.op(format!("@ piter {} {} - diagonal {}", r, c, f));
            }
        }
        // views that are empty in one direction only, cut out of a non-empty source
        for (r, c, ad) in [(2usize, 3usize, "range:0.2.3.2"), (2, 3, "range:2.2.0.3"), (2, 3, "range:0.2.1.2"), (3, 2, "range:1.5.0.0"),
            (2, 3, "range:5.1.7.1"), (2, 3, "reverse:r"), (2, 3, "reverse:rc"), (3, 1, "reverse:c"), (1, 4, "range:0.1.1.2")] {
            for order in ["row_major", "column_major", "diagonal", "row:0", "column:0", "row:1", "column:1"] {
                let flavours: &[&str] = if order.contains("major") { &["copy", "ref", "mut", "owned", "owned_numeric"] } else { &["copy", "ref", "mut"] };
                for f in flavours {
                    g.count("piter.adaptor");
                    g.op(format!("@ piter {} {} {} {} {}", r, c, ad, order, f));
                }
            }
        }
        // tensors: a length-1 dimension in every position, every constructor, one adaptor in front
        for shape in ["a:1", "a:3", "a:1,b:3", "a:3,b:1", "a:2,b:2", "a:1,b:1,c:1", "a:2,b:1,c:3", "a:1,b:2,c:2", "a:2,b:3,c:1", "-"] {
            for f in ["copy", "ref", "mut", "owned", "owned_numeric"] {
                for via in vias {
                    g.count(&format!("pten.{}.{}", f, via));
                    g.op(format!("@ pten {} - {} via={}", shape, f, via));
                }
            }
            if shape != "-" {
                let first = &shape[..1];
                let last_name = shape.rsplit(',').next().unwrap().split(':').next().unwrap();
                let names: Vec<&str> = shape.split(',').map(|d| d.split(':').next().unwrap()).collect();
                let mut rev = names.clone();
                rev.reverse();
                for ad in [format!("range:{}.0.1", first), format!("range:{}.1.2", last_name), format!("mask:{}.0.1", last_name),
                    format!("reverse:{}", last_name), format!("access:{}", rev.join(",")), "range:zz.0.1".to_string()] {
                    for f in ["copy", "mut", "owned_numeric"] {
                        g.count("pten.adaptor");
                        g.op(format!("@ pten {} {} {}", shape, ad, f));
                    }
                }
            }
        }
    }
    // G. matrices resized with invalid arguments, then walked (the survivor is used unguarded)
    let cases = if thorough { 400 } else { 60 };
    for _ in 0..cases {
        let (mut r, mut c) = (g.rng.range(1, 3), g.rng.range(1, 3));
        g.count("case.matrix-survivor");
        g.op(format!("@ mnew {}x{}", r, c));
        let len = g.rng.range(2, 6);
        for _ in 0..len {
            let invalid = g.rng.chance(1, 2);
            let which = g.rng.below(10);
            if which >= 7 {
                // closure-taking in-place operations, the closure panicking on its p-th call or on a
                // zero element (integer division)
                let via = *g.rng.pick(&["matrix", "view"]);
                let cells = r * c;
                match which {
                    7 | 8 => {
                        let op = if which == 7 { "map_mut" } else { "map_mut_with_index" };
                        let p = if invalid { g.rng.below(cells + 1).to_string() } else { "-".to_string() };
                        g.count(&format!("mop.{}.{}", op, if invalid { "closure-panics" } else { "valid" }));
                        let k = 1 + g.rng.below(9);
                        g.op(format!("m {} {} {} via={}", op, k, p, via));
                    }
                    _ => {
                        g.count("mop.map_div");
                        if invalid {
                            let (zr, zc) = (g.rng.below(r), g.rng.below(c));
                            g.op(format!("m set {} {} 0", zr, zc));
                        }
                        g.op(format!("m map_div 5040 via={}", via));
                    }
                }
                continue;
            }
            let name = ["insert_row", "insert_row_with", "insert_column", "insert_column_with", "remove_row",
                "remove_column", "retain_mut"][which];
            g.count(&format!("mop.{}.{}", name, if invalid { "invalid" } else { "valid" }));
            match which {
                0 | 2 => {
                    let max = if which == 0 { r } else { c };
                    let p = if invalid { max + 1 + g.rng.below(2) } else { g.rng.below(max + 1) };
                    g.op(format!("m {} {} 77", name, p));
                    if !invalid {
                        if which == 0 { r += 1 } else { c += 1 }
                    }
                }
                1 | 3 => {
                    let (max, need) = if which == 1 { (r, c) } else { (c, r) };
                    let p = g.rng.below(max + 1);
                    let k = if invalid { g.rng.below(need) } else { need + g.rng.below(2) };
                    let vs: Vec<String> = (0..k).map(|i| (900 + i).to_string()).collect();
                    g.op(format!("m {} {} {}", name, p, if vs.is_empty() { "-".to_string() } else { vs.join(",") }));
                    if !invalid {
                        if which == 1 { r += 1 } else { c += 1 }
                    }
                }
                4 | 5 => {
                    let max = if which == 4 { r } else { c };
                    let p = if invalid { max + g.rng.below(3) } else { g.rng.below(max) };
                    g.op(format!("m {} {}", name, p));
                    if !invalid && max > 1 {
                        if which == 4 { r -= 1 } else { c -= 1 }
                    }
                }
                _ => {
                    // retain_mut: an emptying retention panics; otherwise keep a prefix of the rows
                    if invalid {
                        let e = *g.rng.pick(&["none", "range(7,9)", "not(all)", "and(single(0),single(1))"]);
                        if g.rng.chance(1, 2) {
                            g.op(format!("m retain_mut rows={} cols=all", e));
                        } else {
                            g.op(format!("m retain_mut rows=all cols={}", e));
                        }
                    } else {
                        let keep = g.rng.range(1, r);
                        g.op(format!("m retain_mut rows=range(0,{}) cols=all", keep));
                        r = keep;
                    }
                }
            }
        }
    }
    // H. insert_row / insert_column with an element type whose Clone panics on its p-th call
    // (p = n - 1, where the number of clone calls depends on how the clones are made, is left out)
    for (r0, c0) in [(1usize, 1usize), (1, 3), (2, 2), (3, 2), (2, 4), (3, 3)] {
        for which in ["insert_row", "insert_column"] {
            let n = if which == "insert_row" { c0 } else { r0 };
            let max = if which == "insert_row" { r0 } else { c0 };
            for p in 0..=n + 1 {
                if p + 1 == n {
                    continue;
                }
                g.count(&format!("case.clone-panic.{}", which));
                g.op(format!("@ pnew {}x{}", r0, c0));
                let at = g.rng.below(max + 1);
                g.op(format!("p {} {} 500 {}", which, at, p));
                // the survivor is used again: a second insertion that completes, then one beyond
                let at2 = g.rng.below(max + 1);
                g.op(format!("p {} {} 600 -", which, at2));
                g.op(format!("p {} {} 700 -", which, max + 5));
            }
        }
    }
    for (r, c, n) in [(2usize, 3usize, 6u64), (2, 3, 5), (2, 3, 7), (0, 3, 0), (3, 0, 0), (1, 1, 1), (0, 0, 0), (4, 1, 4)] {
        g.count("mflat.small");
        g.op(format!("@ mflat {} {} {}", r, c, n));
    }
    for (r, c) in [(2usize, 3usize), (1, 1), (0, 3), (3, 0), (0, 0), (5, 2)] {
        g.count("mempty.small");
        g.op(format!("@ mempty {} {}", r, c));
    }
    for (lens, count) in overflowing() {
        if lens.len() == 2 && count <= 64 {
            g.count("mflat.overflowing-size");
            g.op(format!("@ mflat {} {} {}", lens[0], lens[1], count));
            g.count("mempty.overflowing-size");
            g.op(format!("@ mempty {} {}", lens[0], lens[1]));
        }
    }
}
